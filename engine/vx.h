/* vx — choice-tree explorer (engine E1 of DESIGN.md).
 *
 * A harness body is an ordinary C function that asks the explorer for every decision it does
 * not own.  The explorer re-executes the body for every leaf of the resulting tree: a work item
 * is a prefix of choices; after the prefix every choice point takes answer 0; every alternative
 * answer at a point past the prefix that still fits the deviation budgets becomes a new work
 * item.  Work items live on a LIFO stack in shared memory and are consumed by forked workers,
 * so a crash, sanitizer abort or hang is attributed to the exact choice sequence that was
 * running (each worker publishes its sequence before every choice).
 *
 * Header-only; include once in the harness translation unit.
 */
#ifndef VX_H
#define VX_H
#define _GNU_SOURCE
/* harness functions that touch the harness's own observation variables from several scheduled threads: their accesses are
 * not the code under test and are hidden from ThreadSanitizer (sched-tsan build); calls they make stay instrumented */
#if defined(__clang__)
#define VX_HARNESS_SHARED __attribute__((no_sanitize("thread")))
#else
#define VX_HARNESS_SHARED
#endif
#include <stdio.h>
#include <stdlib.h>
#include <string.h>
#include <stdint.h>
#include <stdarg.h>
#include <unistd.h>
#include <errno.h>
#include <signal.h>
#include <time.h>
#include <pthread.h>
#include <sys/mman.h>
#include <sys/wait.h>
#include <sys/types.h>
#include <sys/stat.h>
#include <fcntl.h>

#define VX_MAXPTS     16384          /* choice points per execution */
#define VX_MAXWORKERS 64
#define VX_MAXVIOL    48
#define VX_MAXSAMPLES 12
#define VX_NSTAT      48
#define VX_OUTBITS    22             /* distinct-outcome set: 4M slots */
#define VX_VISBITS    24             /* visited-state cache: 16M slots */
#define VX_STACKBYTES (768ul<<20)

enum { VX_FREE = 0, VX_DEV = 1, VX_PREEMPT = 2 };   /* cost kind of the non-default answers */

typedef struct {
    char sig[256];
    int  n;
    int  count;
    uint16_t ch[VX_MAXPTS];
} vx_viol_t;

typedef struct {
    volatile pid_t pid;
    volatile int   busy;            /* 1 while inside an execution */
    volatile int   n;               /* choices made so far in this execution */
    volatile long  start_ms;
    char  label[200];
    uint16_t ch[VX_MAXPTS];
    volatile int pre_n;             /* the work item being executed (for a retry after a watchdog kill) */
    uint16_t pre[VX_MAXPTS];
} vx_slot_t;

typedef struct {
    pthread_mutex_t lock;
    volatile long inflight;
    volatile long top;              /* bytes used on the stack */
    volatile long executions, pruned_points, nontrivial, stack_overflow, truncated, stop;
    volatile long maxpoints, maxdev, maxpre;
    volatile long stat[VX_NSTAT];
    char  statname[VX_NSTAT][64];
    char  statkind[VX_NSTAT];       /* 's' sum, 'm' max */
    volatile int nviol;
    vx_viol_t viol[VX_MAXVIOL];
    volatile int nsample;
    char  sample[VX_MAXSAMPLES][512];
    vx_slot_t slot[VX_MAXWORKERS];
    volatile uint64_t outcomes[1ul << VX_OUTBITS];
    volatile long noutcomes, noutcomes_nontrivial;
    volatile uint64_t viskey[1ul << VX_VISBITS];
    volatile uint8_t  visbud[1ul << VX_VISBITS];
    volatile long nvisited;
    volatile uint64_t retried[256]; volatile int nretried; volatile long transient_timeouts;
    unsigned char stack[VX_STACKBYTES];
} vx_shared_t;

static vx_shared_t* vx_sh;
static int  vx_me = -1;             /* worker index, -1 = replay / parent */
static int  vx_boundD = 1 << 20, vx_boundP = 1 << 20;
static int  vx_nworkers = 16;
static long vx_deadline_ms = 0, vx_exec_timeout_ms = 20000, vx_max_exec = 0;
static int  vx_replaying = 0, vx_verbose = 0;
static const char* vx_tier = "quick";
static int  vx_thorough = 0;

/* per-execution state (worker local) */
static uint16_t vx_ch[VX_MAXPTS], vx_ar[VX_MAXPTS];
static uint8_t  vx_kind[VX_MAXPTS];
static int  vx_n, vx_prefix_n, vx_noexpand_from;
static uint16_t vx_prefix[VX_MAXPTS];
static int  vx_usedD, vx_usedP;
static uint64_t vx_obs_h;
static int  vx_failed, vx_is_nontrivial;
static char vx_failsig[256];

static long vx_now_ms(void) {
    struct timespec ts; clock_gettime(CLOCK_MONOTONIC, &ts);
    return ts.tv_sec * 1000L + ts.tv_nsec / 1000000L;
}

static uint64_t vx_mix(uint64_t h, uint64_t v) {
    h ^= v + 0x9e3779b97f4a7c15ull + (h << 6) + (h >> 2);
    h *= 0xff51afd7ed558ccdull; h ^= h >> 33;
    return h;
}
static uint64_t vx_hash(const void* p, size_t n) {
    const unsigned char* b = (const unsigned char*)p; uint64_t h = 0xcbf29ce484222325ull ^ n;
    size_t i = 0;
    for (; i + 8 <= n; i += 8) { uint64_t v; memcpy(&v, b + i, 8); h = vx_mix(h, v); }
    for (; i < n; i++) h = vx_mix(h, b[i]);
    return h;
}

/* ---- API used by harness bodies ---- */
static int vx_pick(int n, int kind) {
    int c = 0;
    if (n <= 1) return 0;
    if (vx_n >= VX_MAXPTS) { fprintf(stderr, "vx: too many choice points\n"); _exit(3); }
    if (n > 65535) { fprintf(stderr, "vx: arity too large\n"); _exit(3); }
    if (vx_n < vx_prefix_n) {
        c = vx_prefix[vx_n];
        if (c >= n) { fprintf(stderr, "vx: replay divergence at point %d: choice %d arity %d\n", vx_n, c, n); _exit(3); }
    }
    vx_ch[vx_n] = (uint16_t)c; vx_ar[vx_n] = (uint16_t)n; vx_kind[vx_n] = (uint8_t)kind;
    if (c > 0) { if (kind >= VX_DEV) vx_usedD++; if (kind == VX_PREEMPT) vx_usedP++; }
    if (vx_me >= 0) { vx_sh->slot[vx_me].ch[vx_n] = (uint16_t)c; vx_sh->slot[vx_me].n = vx_n + 1; }
    vx_n++;
    return c;
}
static int vx_choose(int n)  { return vx_pick(n, VX_FREE); }
static int vx_deviate(int n) { return vx_pick(n, VX_DEV); }
static int vx_budget_left(void) { return vx_boundD - vx_usedD; }

static void vx_obs(const void* p, size_t n) { vx_obs_h = vx_mix(vx_obs_h, vx_hash(p, n)); }
static void vx_obs_u64(uint64_t v) { vx_obs_h = vx_mix(vx_obs_h, v); }
static void vx_nontrivial(void) { vx_is_nontrivial = 1; }

static void vx_label(const char* fmt, ...) {
    if (vx_me >= 0) { va_list ap; va_start(ap, fmt); vsnprintf(vx_sh->slot[vx_me].label, sizeof vx_sh->slot[vx_me].label, fmt, ap); va_end(ap); }
    else if (vx_replaying && vx_verbose) { va_list ap; va_start(ap, fmt); printf("VX label "); vprintf(fmt, ap); printf("\n"); va_end(ap); }
}

static void vx_fail(const char* fmt, ...) {
    if (vx_failed) return;
    va_list ap; va_start(ap, fmt); vsnprintf(vx_failsig, sizeof vx_failsig, fmt, ap); va_end(ap);
    for (char* q = vx_failsig; *q; q++) if (*q == '\n' || *q == '|') *q = ' ';
    vx_failed = 1;
}

static int vx_stat_slot(const char* name, char kind) {
    for (int i = 0; i < VX_NSTAT; i++) {
        if (vx_sh->statname[i][0] == 0) {
            pthread_mutex_lock(&vx_sh->lock);
            if (vx_sh->statname[i][0] == 0) { strncpy(vx_sh->statname[i], name, 63); vx_sh->statkind[i] = kind; }
            pthread_mutex_unlock(&vx_sh->lock);
        }
        if (strncmp(vx_sh->statname[i], name, 63) == 0) return i;
    }
    return VX_NSTAT - 1;
}
static void vx_stat_add(const char* name, long v) {
    if (!vx_sh) return;
    int i = vx_stat_slot(name, 's'); __sync_fetch_and_add(&vx_sh->stat[i], v);
}
static void vx_stat_max(const char* name, long v) {
    if (!vx_sh) return;
    int i = vx_stat_slot(name, 'm');
    long o; while ((o = vx_sh->stat[i]) < v) if (__sync_bool_compare_and_swap(&vx_sh->stat[i], o, v)) break;
}
static void vx_sample(const char* fmt, ...) {
    if (!vx_sh || vx_sh->nsample >= VX_MAXSAMPLES) return;
    int i = __sync_fetch_and_add(&vx_sh->nsample, 1);
    if (i >= VX_MAXSAMPLES) return;
    va_list ap; va_start(ap, fmt); vsnprintf(vx_sh->sample[i], sizeof vx_sh->sample[i], fmt, ap); va_end(ap);
    for (char* q = vx_sh->sample[i]; *q; q++) if (*q == '\n') *q = ' ';
}
/* sample only every so often: returns 1 for executions whose index is 0 mod a growing stride */
static int vx_want_sample(void) {
    static long mine = 0; mine++;
    return vx_sh && vx_sh->nsample < VX_MAXSAMPLES && (mine == 1 || mine == 37 || mine == 411 || mine == 2999);
}

/* set insert; returns 1 if newly inserted */
static int vx_set_insert(volatile uint64_t* tab, int bits, uint64_t k) {
    uint64_t mask = (1ull << bits) - 1; if (k == 0) k = 1;
    uint64_t i = (k * 0x9e3779b97f4a7c15ull) >> (64 - bits);
    for (uint64_t probe = 0; probe < 4096; probe++, i = (i + 1) & mask) {
        uint64_t o = tab[i];
        if (o == k) return 0;
        if (o == 0) { if (__sync_bool_compare_and_swap(&tab[i], 0, k)) return 1; if (tab[i] == k) return 0; }
    }
    return 1; /* table crowded: treat as new (over-counts, never prunes wrongly) */
}

/* State caching.  Returns 1 when (key) was already visited with budgets at least as large as the
 * ones left now; from then on this execution generates no further alternatives (it still runs to
 * its end on default answers, so final oracles are evaluated). */
static int vx_visited(uint64_t key) {
    if (vx_replaying) return 0;
    if (vx_n < vx_prefix_n) return 0;       /* still replaying the prefix: these states belong to the parent execution */
    if (vx_noexpand_from >= 0) return 1;
    if (key == 0) key = 1;
    int leftD = vx_boundD - vx_usedD, leftP = vx_boundP - vx_usedP;
    if (leftD > 15) leftD = 15; if (leftP > 15) leftP = 15;
    if (leftD < 0) leftD = 0; if (leftP < 0) leftP = 0;
    uint8_t bud = (uint8_t)((leftD << 4) | leftP);
    uint64_t mask = (1ull << VX_VISBITS) - 1;
    uint64_t i = (key * 0x9e3779b97f4a7c15ull) >> (64 - VX_VISBITS);
    for (int probe = 0; probe < 4096; probe++, i = (i + 1) & mask) {
        uint64_t o = vx_sh->viskey[i];
        if (o == 0) {
            if (__sync_bool_compare_and_swap(&vx_sh->viskey[i], 0, key)) { vx_sh->visbud[i] = bud; __sync_fetch_and_add(&vx_sh->nvisited, 1); return 0; }
            o = vx_sh->viskey[i];
        }
        if (o == key) {
            uint8_t ob = vx_sh->visbud[i];
            if ((ob >> 4) >= leftD && (ob & 15) >= leftP) { vx_noexpand_from = vx_n; __sync_fetch_and_add(&vx_sh->pruned_points, 1); return 1; }
            if ((ob >> 4) <= leftD && (ob & 15) <= leftP) vx_sh->visbud[i] = bud;
            return 0;
        }
    }
    return 0;
}

/* ---- engine ---- */
static void vx_push(const uint16_t* ch, int n) {
    size_t need = (size_t)n * 2 + 4;
    pthread_mutex_lock(&vx_sh->lock);
    if (vx_sh->top + need > VX_STACKBYTES) { vx_sh->stack_overflow++; pthread_mutex_unlock(&vx_sh->lock); return; }
    if (n) memcpy(vx_sh->stack + vx_sh->top, ch, (size_t)n * 2);
    uint32_t nn = (uint32_t)n; memcpy(vx_sh->stack + vx_sh->top + (size_t)n * 2, &nn, 4);
    vx_sh->top += need; vx_sh->inflight++;
    pthread_mutex_unlock(&vx_sh->lock);
}
/* returns 1 with a prefix, 0 when exploration is over */
static int vx_pop(void) {
    for (;;) {
        pthread_mutex_lock(&vx_sh->lock);
        if (vx_sh->stop) { pthread_mutex_unlock(&vx_sh->lock); return 0; }
        if (vx_sh->top > 0) {
            uint32_t nn; memcpy(&nn, vx_sh->stack + vx_sh->top - 4, 4);
            vx_sh->top -= 4 + (size_t)nn * 2;
            if (nn) memcpy(vx_prefix, vx_sh->stack + vx_sh->top, (size_t)nn * 2);
            vx_prefix_n = (int)nn;
            if (vx_me >= 0) { vx_sh->slot[vx_me].pre_n = (int)nn; if (nn) memcpy((void*)vx_sh->slot[vx_me].pre, vx_prefix, (size_t)nn * 2);
                              vx_sh->slot[vx_me].busy = 1; vx_sh->slot[vx_me].n = 0; vx_sh->slot[vx_me].start_ms = vx_now_ms(); vx_sh->slot[vx_me].label[0] = 0; }
            pthread_mutex_unlock(&vx_sh->lock);
            return 1;
        }
        long infl = vx_sh->inflight;
        pthread_mutex_unlock(&vx_sh->lock);
        if (infl == 0) return 0;
        usleep(200);
    }
}

static void vx_record_violation(const char* sig, const uint16_t* ch, int n) {
    pthread_mutex_lock(&vx_sh->lock);
    int i;
    for (i = 0; i < vx_sh->nviol; i++) if (strcmp(vx_sh->viol[i].sig, sig) == 0) break;
    if (i < vx_sh->nviol) { vx_sh->viol[i].count++;
        if (n < vx_sh->viol[i].n) { vx_sh->viol[i].n = n; if (n) memcpy(vx_sh->viol[i].ch, ch, (size_t)n * 2); } }
    else if (i < VX_MAXVIOL) {
        strncpy(vx_sh->viol[i].sig, sig, 255); vx_sh->viol[i].n = n; vx_sh->viol[i].count = 1;
        if (n) memcpy(vx_sh->viol[i].ch, ch, (size_t)n * 2); vx_sh->nviol = i + 1;
    }
    pthread_mutex_unlock(&vx_sh->lock);
}

static void vx_begin_exec(void) {
    vx_n = 0; vx_usedD = vx_usedP = 0; vx_obs_h = 0; vx_failed = 0; vx_is_nontrivial = 0; vx_noexpand_from = -1;
}

/* trailing default answers carry no information: drop them from a recorded sequence */
static int vx_trim(const uint16_t* ch, int n) { while (n > 0 && ch[n - 1] == 0) n--; return n; }

static void vx_end_exec(void) {
    __sync_fetch_and_add(&vx_sh->executions, 1);
    { long o; while ((o = vx_sh->maxpoints) < vx_n) if (__sync_bool_compare_and_swap(&vx_sh->maxpoints, o, vx_n)) break; }
    { long o; while ((o = vx_sh->maxdev) < vx_usedD) if (__sync_bool_compare_and_swap(&vx_sh->maxdev, o, vx_usedD)) break; }
    { long o; while ((o = vx_sh->maxpre) < vx_usedP) if (__sync_bool_compare_and_swap(&vx_sh->maxpre, o, vx_usedP)) break; }
    if (vx_failed) vx_record_violation(vx_failsig, vx_ch, vx_trim(vx_ch, vx_n));
    if (vx_set_insert(vx_sh->outcomes, VX_OUTBITS, vx_obs_h ^ (vx_is_nontrivial ? 0x5555ull : 0))) {
        __sync_fetch_and_add(&vx_sh->noutcomes, 1);
        if (vx_is_nontrivial) __sync_fetch_and_add(&vx_sh->noutcomes_nontrivial, 1);
    }
    if (vx_is_nontrivial) __sync_fetch_and_add(&vx_sh->nontrivial, 1);
    /* children */
    int usedD = 0, usedP = 0;
    int lim = (vx_noexpand_from >= 0) ? vx_noexpand_from : vx_n;
    static uint16_t child[VX_MAXPTS];
    for (int i = 0; i < vx_n; i++) {
        if (i >= vx_prefix_n && i < lim) {
            int cD = usedD + (vx_kind[i] >= VX_DEV), cP = usedP + (vx_kind[i] == VX_PREEMPT);
            if (cD <= vx_boundD && cP <= vx_boundP) {
                if (i) memcpy(child, vx_ch, (size_t)i * 2);
                for (int alt = vx_ar[i] - 1; alt >= 1; alt--) { child[i] = (uint16_t)alt; vx_push(child, i + 1); }
            }
        }
        if (vx_ch[i] > 0) { if (vx_kind[i] >= VX_DEV) usedD++; if (vx_kind[i] == VX_PREEMPT) usedP++; }
    }
    pthread_mutex_lock(&vx_sh->lock);
    vx_sh->inflight--;
    if (vx_me >= 0) vx_sh->slot[vx_me].busy = 0;
    pthread_mutex_unlock(&vx_sh->lock);
}

/* abandon the current execution from anywhere (deadlock, scheduler misuse): its violation and children are
 * recorded, then the worker process is replaced (exit status 42 = "respawn me", not a crash) */
static void vx_abort_exec(void) {
    if (vx_replaying) {
        printf("VX replay outcome=%016llx points=%d failed=%d\n", (unsigned long long)vx_obs_h, vx_n, vx_failed);
        if (vx_failed) { printf("VX viol %s | ", vx_failsig); for (int i = 0; i < vx_trim(vx_ch, vx_n); i++) printf("%s%d", i ? "," : "", vx_ch[i]); printf("\n"); }
        fflush(NULL); _exit(vx_failed ? 1 : 0);
    }
    vx_end_exec(); fflush(NULL); _exit(42);
}

static void vx_worker(void (*body)(void)) {
    while (vx_pop()) {
        if (vx_deadline_ms && vx_now_ms() > vx_deadline_ms) { vx_sh->truncated = 1; vx_sh->stop = 1; }
        if (vx_max_exec && vx_sh->executions >= vx_max_exec) { vx_sh->truncated = 1; vx_sh->stop = 1; }
        if (vx_sh->stop) { pthread_mutex_lock(&vx_sh->lock); vx_sh->inflight--; vx_sh->slot[vx_me].busy = 0; pthread_mutex_unlock(&vx_sh->lock); break; }
        vx_begin_exec();
        body();
        vx_end_exec();
    }
    fflush(NULL);
    _exit(0);
}

static void vx_print_choices(FILE* f, const uint16_t* ch, int n) {
    for (int i = 0; i < n; i++) fprintf(f, "%s%d", i ? "," : "", ch[i]);
    if (n == 0) fprintf(f, "-");
}

static int vx_parse_choices(const char* s, uint16_t* out) {
    int n = 0; if (strcmp(s, "-") == 0) return 0;
    while (*s) { out[n++] = (uint16_t)strtol(s, (char**)&s, 10); if (*s == ',') s++; }
    return n;
}

static char vx_errdir[256] = "";
static void vx_redirect_stderr(int w) {
    if (!vx_errdir[0]) return;
    char p[320]; snprintf(p, sizeof p, "%s/w%d.err", vx_errdir, w);
    int fd = open(p, O_WRONLY | O_CREAT | O_TRUNC, 0644);
    if (fd >= 0) { dup2(fd, 2); close(fd); }
}
/* pull a one-line reason out of a dead worker's stderr (sanitizer summary) */
static void vx_crash_reason(int w, char* out, size_t cap) {
    out[0] = 0; if (!vx_errdir[0]) return;
    char p[320]; snprintf(p, sizeof p, "%s/w%d.err", vx_errdir, w);
    FILE* f = fopen(p, "r"); if (!f) return;
    char line[1024], first[300] = "";
    while (fgets(line, sizeof line, f)) {
        char* s;
        if ((s = strstr(line, "SUMMARY: ")) != NULL) {
            s += 9; char* e = strchr(s, '\n'); if (e) *e = 0;
            /* "AddressSanitizer: heap-buffer-overflow /path/file.c:123:5 in func" -> keep kind + func */
            char kind[120] = "", func[120] = ""; char* in = strstr(s, " in ");
            sscanf(s, "%*[^:]: %119s", kind);
            if (strstr(s, "ThreadSanitizer: data race")) snprintf(kind, sizeof kind, "data-race");
            if (in) sscanf(in + 4, "%119s", func);
            snprintf(out, cap, "%s@%s", kind, func[0] ? func : "?");
            fclose(f); return;
        }
        if ((s = strstr(line, "runtime error: ")) != NULL && !first[0]) {
            /* file.c:LINE:COL: runtime error: msg */
            char* e = strchr(s, '\n'); if (e) *e = 0;
            char* base = strrchr(line, '/'); base = base ? base + 1 : line;
            char fn[100] = ""; sscanf(base, "%99[^:]", fn);
            snprintf(first, sizeof first, "ubsan:%s:%.120s", fn, s + 15);
        }
    }
    fclose(f);
    if (first[0]) snprintf(out, cap, "%s", first);
}

typedef struct {
    void (*body)(void);
    void (*init)(void);             /* once, in the parent, before forking (build catalogues) */
} vx_harness_t;

static void vx_usage(void) {
    fprintf(stderr, "usage: harness [--tier quick|thorough] [--D n] [--P n] [--workers n] [--deadline s]\n"
                    "               [--exec-timeout ms] [--max-exec n] [--errdir dir] [--replay c0,c1,..] [-v]\n");
}

/* harness-specific options are left in argv for the harness: vx_opt("name", default) */
static int    vx_argc; static char** vx_argv;
static const char* vx_opt(const char* name, const char* dflt) {
    for (int i = 1; i + 1 < vx_argc; i++) if (strcmp(vx_argv[i], name) == 0) return vx_argv[i + 1];
    return dflt;
}
static long vx_opt_int(const char* name, long dflt) { const char* v = vx_opt(name, NULL); return v ? strtol(v, NULL, 0) : dflt; }

static int vx_main(int argc, char** argv, void (*init)(void), void (*body)(void)) {
    const char* replay = NULL;
    vx_argc = argc; vx_argv = argv;
    for (int i = 1; i < argc; i++) {
        if (!strcmp(argv[i], "--tier") && i + 1 < argc) { vx_tier = argv[++i]; vx_thorough = !strcmp(vx_tier, "thorough"); }
        else if (!strcmp(argv[i], "--D") && i + 1 < argc) vx_boundD = atoi(argv[++i]);
        else if (!strcmp(argv[i], "--P") && i + 1 < argc) vx_boundP = atoi(argv[++i]);
        else if (!strcmp(argv[i], "--workers") && i + 1 < argc) vx_nworkers = atoi(argv[++i]);
        else if (!strcmp(argv[i], "--deadline") && i + 1 < argc) vx_deadline_ms = vx_now_ms() + 1000L * atol(argv[++i]);
        else if (!strcmp(argv[i], "--exec-timeout") && i + 1 < argc) vx_exec_timeout_ms = atol(argv[++i]);
        else if (!strcmp(argv[i], "--max-exec") && i + 1 < argc) vx_max_exec = atol(argv[++i]);
        else if (!strcmp(argv[i], "--errdir") && i + 1 < argc) snprintf(vx_errdir, sizeof vx_errdir, "%s", argv[++i]);
        else if (!strcmp(argv[i], "--replay") && i + 1 < argc) replay = argv[++i];
        else if (!strcmp(argv[i], "-v")) vx_verbose = 1;
        else if (!strcmp(argv[i], "-h")) { vx_usage(); return 2; }
        else if (argv[i][0] == '-' && argv[i][1] == '-' && i + 1 < argc) i++;   /* harness option */
    }
    if (vx_nworkers > VX_MAXWORKERS) vx_nworkers = VX_MAXWORKERS;
    setvbuf(stdout, NULL, _IOLBF, 0);
    vx_sh = (vx_shared_t*)mmap(NULL, sizeof(vx_shared_t), PROT_READ | PROT_WRITE, MAP_SHARED | MAP_ANONYMOUS | MAP_NORESERVE, -1, 0);
    if (vx_sh == MAP_FAILED) { perror("mmap"); return 3; }
    { pthread_mutexattr_t a; pthread_mutexattr_init(&a); pthread_mutexattr_setpshared(&a, PTHREAD_PROCESS_SHARED); pthread_mutex_init(&vx_sh->lock, &a); }

    if (init) init();

    if (replay) {
        vx_replaying = 1;
        vx_prefix_n = vx_parse_choices(replay, vx_prefix);
        vx_begin_exec();
        body();
        printf("VX replay outcome=%016llx points=%d failed=%d\n", (unsigned long long)vx_obs_h, vx_n, vx_failed);
        if (vx_failed) { printf("VX viol %s | ", vx_failsig); vx_print_choices(stdout, vx_ch, vx_trim(vx_ch, vx_n)); printf("\n"); return 1; }
        return 0;
    }

    long t0 = vx_now_ms();
    vx_push(NULL, 0);
    pid_t pids[VX_MAXWORKERS];
    for (int w = 0; w < vx_nworkers; w++) {
        fflush(NULL);
        pid_t p = fork();
        if (p == 0) { vx_me = w; vx_sh->slot[w].pid = getpid(); vx_redirect_stderr(w); vx_worker(body); }
        pids[w] = p;
    }
    int alive = vx_nworkers;
    while (alive > 0) {
        int st; pid_t p = waitpid(-1, &st, WNOHANG);
        if (p > 0) {
            int w; for (w = 0; w < vx_nworkers; w++) if (pids[w] == p) break;
            if (w == vx_nworkers) continue;
            int clean = WIFEXITED(st) && WEXITSTATUS(st) == 0 && !vx_sh->slot[w].busy;
            if (clean) { alive--; pids[w] = -1; continue; }
            if (WIFEXITED(st) && WEXITSTATUS(st) == 42 && !vx_sh->slot[w].busy) {
                fflush(NULL);
                pid_t rp = fork();
                if (rp == 0) { vx_me = w; vx_sh->slot[w].pid = getpid(); vx_redirect_stderr(w); vx_worker(body); }
                pids[w] = rp; continue;
            }
            /* died inside an execution: violation attributed to its published choice sequence */
            char sig[256], why[200];
            if (WIFEXITED(st) && WEXITSTATUS(st) == 3) { fprintf(stderr, "vx: engine error in worker %d\n", w); vx_sh->stop = 1; vx_sh->truncated = 2; }
            vx_crash_reason(w, why, sizeof why);
            if (!why[0]) { if (WIFSIGNALED(st)) snprintf(why, sizeof why, "signal%d", WTERMSIG(st)); else snprintf(why, sizeof why, "exit%d", WEXITSTATUS(st)); }
            { char lab[200]; snprintf(lab, sizeof lab, "%s", vx_sh->slot[w].label); char* cut = strstr(lab, " ;; "); if (cut) *cut = 0;   /* text after " ;; " is descriptive only */
              snprintf(sig, sizeof sig, "crash %s %s", lab, why); }
            for (char* q = sig; *q; q++) if (*q == '\n' || *q == '|') *q = ' ';
            vx_record_violation(sig, (const uint16_t*)vx_sh->slot[w].ch, vx_sh->slot[w].n);
            __sync_fetch_and_add(&vx_sh->executions, 1);
            pthread_mutex_lock(&vx_sh->lock);
            if (vx_sh->slot[w].busy) { vx_sh->inflight--; vx_sh->slot[w].busy = 0; }
            pthread_mutex_unlock(&vx_sh->lock);
            if (vx_sh->nviol >= VX_MAXVIOL) vx_sh->stop = 1;
            fflush(NULL);
            pid_t np = fork();
            if (np == 0) { vx_me = w; vx_sh->slot[w].pid = getpid(); vx_redirect_stderr(w); vx_worker(body); }
            pids[w] = np;
            continue;
        }
        /* watchdog */
        long now = vx_now_ms();
        for (int w = 0; w < vx_nworkers; w++) {
            if (pids[w] > 0 && vx_sh->slot[w].busy && now - vx_sh->slot[w].start_ms > vx_exec_timeout_ms) {
                /* a timed-out work item is run once more before it is called a hang (the machine may just have been busy) */
                uint64_t ph = vx_hash((const void*)vx_sh->slot[w].pre, (size_t)vx_sh->slot[w].pre_n * 2) | 1; int again = 0;
                for (int q = 0; q < vx_sh->nretried; q++) if (vx_sh->retried[q] == ph) again = 1;
                if (!again && vx_sh->nretried < 256) { vx_sh->retried[vx_sh->nretried++] = ph; vx_sh->transient_timeouts++; vx_push((const uint16_t*)vx_sh->slot[w].pre, vx_sh->slot[w].pre_n); }
                else { char sig[256]; char lab[200]; snprintf(lab, sizeof lab, "%s", vx_sh->slot[w].label); char* cut = strstr(lab, " ;; "); if (cut) *cut = 0;
                       snprintf(sig, sizeof sig, "hang %s (> %ld ms, twice)", lab, vx_exec_timeout_ms);
                       vx_record_violation(sig, (const uint16_t*)vx_sh->slot[w].ch, vx_sh->slot[w].n); }
                kill(pids[w], SIGKILL);
                int st2; waitpid(pids[w], &st2, 0);
                __sync_fetch_and_add(&vx_sh->executions, 1);
                pthread_mutex_lock(&vx_sh->lock);
                if (vx_sh->slot[w].busy) { vx_sh->inflight--; vx_sh->slot[w].busy = 0; }
                pthread_mutex_unlock(&vx_sh->lock);
                fflush(NULL);
                pid_t np = fork();
                if (np == 0) { vx_me = w; vx_sh->slot[w].pid = getpid(); vx_redirect_stderr(w); vx_worker(body); }
                pids[w] = np;
            }
        }
        usleep(2000);
    }
    long wall = vx_now_ms() - t0;
    int exhaustive = !vx_sh->truncated && !vx_sh->stack_overflow && vx_sh->nviol < VX_MAXVIOL;
    for (int i = 0; i < vx_sh->nsample && i < VX_MAXSAMPLES; i++) printf("VX sample %s\n", vx_sh->sample[i]);
    for (int i = 0; i < VX_NSTAT; i++) if (vx_sh->statname[i][0]) printf("VX stat %c %s %ld\n", vx_sh->statkind[i], vx_sh->statname[i], vx_sh->stat[i]);
    for (int i = 0; i < vx_sh->nviol; i++) {
        printf("VX viol %s | ", vx_sh->viol[i].sig); vx_print_choices(stdout, vx_sh->viol[i].ch, vx_sh->viol[i].n); printf(" | count=%d\n", vx_sh->viol[i].count);
    }
    printf("VX done exhaustive=%d executions=%ld outcomes=%ld outcomes_nontrivial=%ld nontrivial_execs=%ld maxpoints=%ld maxdev=%ld maxpre=%ld "
           "boundD=%d boundP=%d visited=%ld pruned=%ld wall_ms=%ld transient_timeouts=%ld violations=%d\n",
           exhaustive, vx_sh->executions, vx_sh->noutcomes, vx_sh->noutcomes_nontrivial, vx_sh->nontrivial, vx_sh->maxpoints, vx_sh->maxdev, vx_sh->maxpre,
           vx_boundD > 99999 ? -1 : vx_boundD, vx_boundP > 99999 ? -1 : vx_boundP, vx_sh->nvisited, vx_sh->pruned_points, wall, vx_sh->transient_timeouts, vx_sh->nviol);
    return vx_sh->nviol ? 1 : 0;
}
#endif
