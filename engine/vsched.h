/* vsched — deterministic cooperative scheduler under the real pthread-using code (engine E2).
 * Library and program sources are compiled with `-include vf_pthread_shim.h`, which renames the
 * pthread primitives they use to the vf_* functions below.  Exactly one thread runs at a time;
 * every visible operation is a scheduling point whose outcome is asked from the explorer. */
#ifndef VSCHED_H
#define VSCHED_H
#include <pthread.h>
#include <stdint.h>

#ifdef __cplusplus
extern "C" {
#endif
int vf_mutex_init(pthread_mutex_t* m, const pthread_mutexattr_t* a);
int vf_mutex_destroy(pthread_mutex_t* m);
int vf_mutex_lock(pthread_mutex_t* m);
int vf_mutex_unlock(pthread_mutex_t* m);
int vf_cond_init(pthread_cond_t* c, const pthread_condattr_t* a);
int vf_cond_destroy(pthread_cond_t* c);
int vf_cond_wait(pthread_cond_t* c, pthread_mutex_t* m);
int vf_cond_signal(pthread_cond_t* c);
int vf_cond_broadcast(pthread_cond_t* c);
int vf_create(pthread_t* t, const pthread_attr_t* a, void* (*fn)(void*), void* arg);
int vf_join(pthread_t t, void** ret);
void vf_yield(void);

typedef struct {
    int (*pick)(int n, int kind);           /* kind: 1 = deviation (delay / waiter choice), 2 = preemption */
    void (*fail)(const char* what);         /* record a violation and abandon this execution; does not return */
    uint64_t (*statekey)(void);             /* optional: hash of the shared program state for state caching */
    int (*visited)(uint64_t key);           /* optional: explorer's visited test */
    int unlock_is_point;                    /* also schedule before unlock */
    int spurious;                           /* model spurious condition wake-ups */
    long horizon;                           /* max visible operations per execution (livelock guard) */
    int passthrough;                        /* 1: call the real pthread functions (free-running mode) */
} vs_config_t;

void vs_begin(const vs_config_t* cfg);      /* call from the harness main thread at the start of an execution */
void vs_end(void);                          /* all threads created during the execution must be finished */
int  vs_self(void);                         /* logical id of the running thread (creation order, main = 0) */
long vs_steps(void);
long vs_counter(int which);                 /* 0 locks, 1 waits that blocked, 2 signals+broadcasts, 3 threads created, 4 switches, 5 busy-wait points turned into yields */
uint64_t vs_sched_hash(void);               /* hash of the scheduler-visible state (thread ops, mutex owners, waiter sets) */
/* Code location of the call that a parked thread is blocked in, as an offset that does not depend on ASLR. */
uintptr_t vs_thread_site(int tid);
int  vs_nthreads(void);
#ifdef __cplusplus
}
#endif
#endif
