/* Force-included (-include) into every library / program source of the scheduler build variants:
 * renames the pthread primitives the code uses onto the deterministic scheduler (engine/vsched.c). */
#ifndef VF_PTHREAD_SHIM_H
#define VF_PTHREAD_SHIM_H
#ifndef __ASSEMBLER__
#include <pthread.h>
#include "vsched.h"
#define pthread_mutex_init     vf_mutex_init
#define pthread_mutex_destroy  vf_mutex_destroy
#define pthread_mutex_lock     vf_mutex_lock
#define pthread_mutex_unlock   vf_mutex_unlock
#define pthread_cond_init      vf_cond_init
#define pthread_cond_destroy   vf_cond_destroy
#define pthread_cond_wait      vf_cond_wait
#define pthread_cond_signal    vf_cond_signal
#define pthread_cond_broadcast vf_cond_broadcast
#define pthread_create         vf_create
#define pthread_join           vf_join
#endif
#endif
