/* placeholder until vsched lands */
#include <pthread.h>
