/* vsched — see vsched.h.  This translation unit is compiled WITHOUT sanitizers and without the
 * shim, so the real pthread_create/join are reachable and thread hand-off (raw futex) is invisible
 * to a race detector. */
#define _GNU_SOURCE
#include "vsched.h"
#include <linux/futex.h>
#include <sys/syscall.h>
#include <unistd.h>
#include <string.h>
#include <stdio.h>
#include <stdlib.h>

#define VS_MAXT 24
#define VS_MAXM 1024
#define VS_MAXC 1024

enum { OP_NONE, OP_START, OP_LOCK, OP_UNLOCK, OP_WAIT, OP_RELOCK, OP_SIGNAL, OP_BCAST, OP_CREATE, OP_JOIN, OP_YIELD, OP_EXIT };

typedef struct {
    int used, id, done;
    volatile int go;
    int op, m, c, target, signalled, spur;
    void* (*fn)(void*); void* arg; void* ret;
    pthread_t real; int joined;
    uintptr_t site;
} vthread_t;
typedef struct { void* addr; int owner; int alive; } vmutex_t;
typedef struct { void* addr; int alive; int nw; int w[VS_MAXT]; } vcond_t;

static vthread_t T[VS_MAXT]; static int nT;
static vmutex_t  M[VS_MAXM]; static int nM;
static vcond_t   C[VS_MAXC]; static int nC;
static int cur = -1, active = 0;
static vs_config_t cfg;
static long steps, counters[8]; static int trace;
/* spin detection: scheduler-visible states seen since the running thread was last switched in */
#define VS_SPIN 128
static uint64_t spinset[VS_SPIN]; static int nspin;

/* Race detection under the scheduler (sched-tsan build): this unit is not instrumented, so the futex hand-off creates
 * no happens-before edge; the only edges ThreadSanitizer sees are the ones announced here for the MODELLED primitives
 * (mutex release -> next acquire; thread create / join go through the real, intercepted pthread calls).  Two accesses
 * that are ordered only by the cooperative schedule are therefore still reported as a race, in every explored
 * schedule.  The explorer's callbacks run with access recording switched off.  The symbols are weak: absent (NULL)
 * in every other build. */
extern void __tsan_acquire(void*) __attribute__((weak));
extern void __tsan_release(void*) __attribute__((weak));
extern void __tsan_ignore_thread_begin(void) __attribute__((weak));
extern void __tsan_ignore_thread_end(void) __attribute__((weak));
#define TS_ACQ(p) do { if (__tsan_acquire) __tsan_acquire(p); } while (0)
#define TS_REL(p) do { if (__tsan_release) __tsan_release(p); } while (0)
#define TS_IGN(on) do { if (__tsan_ignore_thread_begin) { if (on) __tsan_ignore_thread_begin(); else __tsan_ignore_thread_end(); } } while (0)

static void futex_wait(volatile int* a, int v) { syscall(SYS_futex, a, FUTEX_WAIT, v, NULL, NULL, 0); }
static void futex_wake(volatile int* a) { syscall(SYS_futex, a, FUTEX_WAKE, 1, NULL, NULL, 0); }
static void wait_go(vthread_t* t) { while (__atomic_load_n(&t->go, __ATOMIC_ACQUIRE) == 0) futex_wait(&t->go, 0); __atomic_store_n(&t->go, 0, __ATOMIC_RELAXED); }
static void wake(vthread_t* t) { __atomic_store_n(&t->go, 1, __ATOMIC_RELEASE); futex_wake(&t->go); }

static void fail(const char* fmt, const void* unused, int b) {
    char buf[200]; (void)unused; snprintf(buf, sizeof buf, fmt, b);
    active = 0; TS_IGN(1);
    cfg.fail(buf);      /* does not return */
    _exit(43);
}

static int find_mutex(void* addr, int create) {
    for (int i = 0; i < nM; i++) if (M[i].addr == addr && M[i].alive) return i;
    if (!create) return -1;
    for (int i = 0; i < nM; i++) if (!M[i].alive) { M[i].addr = addr; M[i].owner = -1; M[i].alive = 1; return i; }
    if (nM >= VS_MAXM) fail("scheduler: mutex table full (%d)", NULL, nM);
    M[nM].addr = addr; M[nM].owner = -1; M[nM].alive = 1; return nM++;
}
static int find_cond(void* addr, int create) {
    for (int i = 0; i < nC; i++) if (C[i].addr == addr && C[i].alive) return i;
    if (!create) return -1;
    for (int i = 0; i < nC; i++) if (!C[i].alive) { C[i].addr = addr; C[i].nw = 0; C[i].alive = 1; return i; }
    if (nC >= VS_MAXC) fail("scheduler: cond table full (%d)", NULL, nC);
    C[nC].addr = addr; C[nC].nw = 0; C[nC].alive = 1; return nC++;
}

static int enabled(vthread_t* t, int* viaSpurious) {
    *viaSpurious = 0;
    if (!t->used || t->done) return 0;
    switch (t->op) {
    case OP_LOCK:   return M[t->m].owner < 0;
    case OP_RELOCK:
        if (M[t->m].owner >= 0) return 0;
        if (t->signalled) return 1;
        if (cfg.spurious) { *viaSpurious = 1; return 1; }
        return 0;
    case OP_JOIN:   return T[t->target].done;
    case OP_NONE:   return 0;
    default:        return 1;
    }
}

static void remove_waiter(vcond_t* c, int tid) {
    for (int i = 0; i < c->nw; i++) if (c->w[i] == tid) { for (int j = i; j + 1 < c->nw; j++) c->w[j] = c->w[j + 1]; c->nw--; return; }
}

/* choose who runs next; `exiting` = the current thread has finished and must not be chosen */
static void pick_and_switch(int exiting) {
    int E[2 * VS_MAXT], S[2 * VS_MAXT], n = 0, sp, curEnabled = 0;
    vthread_t* me = &T[cur];
    if (trace) { static const char* N[] = {"none","start","lock","unlock","wait","relock","signal","bcast","create","join","yield","exit"}; fprintf(stderr, "[%ld] t%d %s m%d c%d site=%lx\n", steps, cur, N[me->op], me->m, me->c, (unsigned long)me->site); }
    if (++steps > cfg.horizon) fail("livelock candidate: visible-operation horizon exceeded (%d)", NULL, (int)cfg.horizon);
    if (cfg.visited && cfg.statekey) { TS_IGN(1); cfg.visited(cfg.statekey() ^ vs_sched_hash()); TS_IGN(0); }
    /* A thread that comes back to a scheduler-visible state it already went through since it was switched in is
     * busy-waiting (e.g. ZSTD_compressStream2 re-trying POOL_tryAdd until a worker is free).  Waiting must be visible:
     * such a point is treated as a yield - the other enabled threads come first and staying on the spinner is the
     * deviation - otherwise the default continuation would spin forever. */
    int spinning = 0;
    if (!exiting) {
        uint64_t h = vs_sched_hash();
        for (int i = 0; i < nspin; i++) if (spinset[i] == h) { spinning = 1; break; }
        if (!spinning && nspin < VS_SPIN) spinset[nspin++] = h;
    }
    if (!exiting && !spinning && enabled(me, &sp) && !sp) { E[n] = cur; S[n] = 0; n++; curEnabled = 1; }
    for (int i = 0; i < nT; i++) { if (i == cur) continue; if (enabled(&T[i], &sp) && !sp) { E[n] = i; S[n] = 0; n++; } }
    if (!exiting && spinning && enabled(me, &sp) && !sp) { E[n] = cur; S[n] = 0; n++; if (n > 1) counters[5]++; }
    if (cfg.spurious) for (int i = 0; i < nT; i++) { if (enabled(&T[i], &sp) && sp && !(exiting && i == cur)) { E[n] = i; S[n] = 1; n++; } }
    if (n == 0) {
        int alldone = 1; for (int i = 0; i < nT; i++) if (!T[i].done) alldone = 0;
        if (alldone) return;
        /* describe who waits for what */
        char buf[200]; int o = snprintf(buf, sizeof buf, "deadlock:");
        for (int i = 0; i < nT && o < 180; i++) if (!T[i].done) {
            const char* w = T[i].op == OP_LOCK ? "lock" : T[i].op == OP_RELOCK ? (T[i].signalled ? "relock" : "cond") : T[i].op == OP_JOIN ? "join" : "?";
            o += snprintf(buf + o, sizeof buf - o, " t%d:%s", i, w);
        }
        active = 0; TS_IGN(1); cfg.fail(buf); _exit(43);
    }
    int c = 0; if (n > 1) { TS_IGN(1); c = cfg.pick(n, curEnabled ? 2 : 1); TS_IGN(0); }
    int t = E[c];
    if (S[c]) { /* spurious wake-up */ T[t].signalled = 1; if (T[t].c >= 0) remove_waiter(&C[T[t].c], t); T[t].spur = 1; }
    if (t == cur && !exiting) return;
    counters[4]++; nspin = 0;
    int prev = cur; cur = t;
    wake(&T[t]);
    if (!exiting) wait_go(&T[prev]);
}

/* ---- visible operations ---- */
#define SITE() ((uintptr_t)__builtin_return_address(0) - (uintptr_t)&vf_mutex_lock)

int vf_mutex_init(pthread_mutex_t* m, const pthread_mutexattr_t* a) {
    if (cfg.passthrough || !active) return pthread_mutex_init(m, a);
    int i = find_mutex(m, 0);
    if (i >= 0) M[i].alive = 0;     /* re-initialising storage (e.g. a struct copied over) */
    find_mutex(m, 1); return 0;
}
int vf_mutex_destroy(pthread_mutex_t* m) {
    if (cfg.passthrough || !active) return pthread_mutex_destroy(m);
    int i = find_mutex(m, 0);
    if (i < 0) return 0;
    if (M[i].owner >= 0) fail("destroy of a locked mutex (owner t%d)", NULL, M[i].owner);
    for (int t = 0; t < nT; t++) if (!T[t].done && (T[t].op == OP_LOCK || T[t].op == OP_RELOCK) && T[t].m == i && t != cur) fail("destroy of a mutex another thread (t%d) is blocked on", NULL, t);
    M[i].alive = 0; return 0;
}
int vf_mutex_lock(pthread_mutex_t* m) {
    if (cfg.passthrough || !active) return pthread_mutex_lock(m);
    vthread_t* me = &T[cur];
    int i = find_mutex(m, 1);
    if (M[i].owner == cur) fail("relock of a mutex already held by t%d", NULL, cur);
    me->op = OP_LOCK; me->m = i; me->site = SITE();
    counters[0]++;
    pick_and_switch(0);
    M[i].owner = cur; T[cur].op = OP_NONE; TS_ACQ(m);
    return 0;
}
int vf_mutex_unlock(pthread_mutex_t* m) {
    if (cfg.passthrough || !active) return pthread_mutex_unlock(m);
    int i = find_mutex(m, 0);
    if (i < 0 || M[i].owner != cur) fail("unlock of a mutex not held by t%d", NULL, cur);
    if (cfg.unlock_is_point) { T[cur].op = OP_UNLOCK; T[cur].site = SITE(); pick_and_switch(0); T[cur].op = OP_NONE; }
    TS_REL(m); M[i].owner = -1;
    return 0;
}
int vf_cond_init(pthread_cond_t* c, const pthread_condattr_t* a) {
    if (cfg.passthrough || !active) return pthread_cond_init(c, a);
    int i = find_cond(c, 0); if (i >= 0) C[i].alive = 0;
    find_cond(c, 1); return 0;
}
int vf_cond_destroy(pthread_cond_t* c) {
    if (cfg.passthrough || !active) return pthread_cond_destroy(c);
    int i = find_cond(c, 0); if (i < 0) return 0;
    if (C[i].nw) fail("destroy of a condition variable with %d waiter(s)", NULL, C[i].nw);
    C[i].alive = 0; return 0;
}
int vf_cond_wait(pthread_cond_t* c, pthread_mutex_t* m) {
    if (cfg.passthrough || !active) return pthread_cond_wait(c, m);
    vthread_t* me = &T[cur]; int self = cur;
    int mi = find_mutex(m, 0), ci = find_cond(c, 1);
    if (mi < 0 || M[mi].owner != cur) fail("cond_wait with a mutex not held by t%d", NULL, cur);
    me->op = OP_WAIT; me->site = SITE();
    pick_and_switch(0);                       /* the wait itself is a visible operation */
    TS_REL(m); M[mi].owner = -1; C[ci].w[C[ci].nw++] = self; me->signalled = 0; me->spur = 0;
    me->op = OP_RELOCK; me->m = mi; me->c = ci;
    counters[1]++;
    pick_and_switch(0);                       /* not enabled until signalled (or spuriously woken) and the mutex is free */
    M[mi].owner = self; me->op = OP_NONE; me->c = -1; TS_ACQ(m);
    return 0;
}
int vf_cond_signal(pthread_cond_t* c) {
    if (cfg.passthrough || !active) return pthread_cond_signal(c);
    int ci = find_cond(c, 1);
    T[cur].op = OP_SIGNAL; T[cur].site = SITE();
    counters[2]++;
    pick_and_switch(0);
    T[cur].op = OP_NONE;
    if (C[ci].nw) {
        int k = 0; if (C[ci].nw > 1) { TS_IGN(1); k = cfg.pick(C[ci].nw, 1); TS_IGN(0); }
        int t = C[ci].w[k];
        T[t].signalled = 1; remove_waiter(&C[ci], t);
    }
    return 0;
}
int vf_cond_broadcast(pthread_cond_t* c) {
    if (cfg.passthrough || !active) return pthread_cond_broadcast(c);
    int ci = find_cond(c, 1);
    T[cur].op = OP_BCAST; T[cur].site = SITE();
    counters[2]++;
    pick_and_switch(0);
    T[cur].op = OP_NONE;
    for (int i = 0; i < C[ci].nw; i++) T[C[ci].w[i]].signalled = 1;
    C[ci].nw = 0;
    return 0;
}
static void* trampoline(void* a) {
    vthread_t* t = (vthread_t*)a;
    wait_go(t);
    t->op = OP_NONE;
    t->ret = t->fn(t->arg);
    t->done = 1; t->op = OP_EXIT;
    pick_and_switch(1);
    return t->ret;
}
int vf_create(pthread_t* th, const pthread_attr_t* a, void* (*fn)(void*), void* arg) {
    if (cfg.passthrough || !active) return pthread_create(th, a, fn, arg);
    T[cur].op = OP_CREATE; T[cur].site = SITE();
    pick_and_switch(0);
    T[cur].op = OP_NONE;
    if (nT >= VS_MAXT) fail("scheduler: too many threads (%d)", NULL, nT);
    vthread_t* t = &T[nT];
    memset(t, 0, sizeof *t);
    t->used = 1; t->id = nT; t->fn = fn; t->arg = arg; t->op = OP_START; t->c = -1; t->m = -1;
    nT++; counters[3]++;
    int r = pthread_create(&t->real, a, trampoline, t);
    if (r) { nT--; return r; }
    *th = t->real;
    return 0;
}
int vf_join(pthread_t th, void** ret) {
    if (cfg.passthrough || !active) return pthread_join(th, ret);
    int target = -1;
    for (int i = 0; i < nT; i++) if (T[i].used && !T[i].joined && i != 0 && pthread_equal(T[i].real, th)) { target = i; break; }
    if (target < 0) fail("join of an unknown thread (%d)", NULL, 0);
    T[cur].op = OP_JOIN; T[cur].target = target; T[cur].site = SITE();
    pick_and_switch(0);
    T[cur].op = OP_NONE;
    T[target].joined = 1;
    void* r = NULL; pthread_join(th, &r);
    if (ret) *ret = r;
    return 0;
}
void vf_yield(void) {
    if (cfg.passthrough || !active) { sched_yield(); return; }
    T[cur].op = OP_YIELD; T[cur].site = SITE();
    pick_and_switch(0);
    T[cur].op = OP_NONE;
}

void vs_begin(const vs_config_t* c) {
    cfg = *c;
    if (cfg.horizon <= 0) cfg.horizon = 200000;
    memset(T, 0, sizeof T); memset(M, 0, sizeof M); memset(C, 0, sizeof C); memset(counters, 0, sizeof counters);
    nT = 1; nM = 0; nC = 0; steps = 0; nspin = 0;
    T[0].used = 1; T[0].id = 0; T[0].op = OP_NONE; T[0].c = -1; T[0].m = -1;
    cur = 0; active = !cfg.passthrough; trace = getenv("VS_TRACE") != NULL;
}
void vs_end(void) {
    if (!active) return;
    for (int i = 1; i < nT; i++) if (!T[i].done) { active = 0; fail("a thread is still running at the end of the execution (t%d)", NULL, i); }
    /* reap threads nobody joined */
    for (int i = 1; i < nT; i++) if (!T[i].joined) { pthread_join(T[i].real, NULL); T[i].joined = 1; }
    active = 0;
}
int  vs_self(void) { return cur; }
long vs_steps(void) { return steps; }
long vs_counter(int w) { return counters[w]; }
int  vs_nthreads(void) { return nT; }
uintptr_t vs_thread_site(int tid) { return T[tid].site; }
uint64_t vs_sched_hash(void) {
    uint64_t h = 1469598103934665603ull;
#define MIX(v) do { h ^= (uint64_t)(v); h *= 1099511628211ull; h ^= h >> 29; } while (0)
    for (int i = 0; i < nT; i++) { MIX(T[i].done); if (!T[i].done) { MIX(T[i].op); MIX(T[i].site); MIX(T[i].signalled); MIX(T[i].op == OP_LOCK || T[i].op == OP_RELOCK ? T[i].m : -1); MIX(T[i].op == OP_JOIN ? T[i].target : -1); } }
    for (int i = 0; i < nM; i++) if (M[i].alive) { MIX(i); MIX(M[i].owner); }
    for (int i = 0; i < nC; i++) if (C[i].alive && C[i].nw) { MIX(i); for (int k = 0; k < C[i].nw; k++) MIX(C[i].w[k]); }
    MIX(cur);
    return h;
}
