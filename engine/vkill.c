/* vkill — crash-point enumerator for C19 (x86-64 Linux only).
 *
 *   vkill --mode fs|all --kill K [--count-only] [--trace] --cwd DIR
 *         [--stdin F] [--stdout F] [--stderr F] [--uid N] -- prog args...
 *
 * Runs `prog` under ptrace, follows every thread / child, counts syscall-ENTRY stops of the whole tree
 * (after the execve of prog has returned) and, when the count of *counted* syscalls reaches K, SIGKILLs
 * every tracee while the K-th call is still stopped at its entry (so the K-th call is NOT executed) and
 * exits 137.  mode all: every syscall counts.  mode fs: only calls that can change the file system.
 * --stdin/--stdout/--stderr redirect the tracee only (paths relative to DIR, stdout/stderr are created
 * before the execve, i.e. like a shell redirection); when --stdout is given fd 1 is a user file, so
 * write/close on fd 1 are counted in fs mode too.  --uid drops privileges in the tracee (read-only dirs).
 * Output (own stdout):  VKILL total=<n> status=<s> | VKILL killed_at=<K> | VKILL exited status=<s> total=<n>
 * --trace: one line per counted syscall on own stderr: `idx nr name tid=<t> [a0=<fd>] [path=..] [flags=..] ret=..`
 * (the line is printed when the call returns, so lines of different threads may be out of idx order; sort by idx)
 */
#define _GNU_SOURCE
#include <stdio.h>
#include <stdlib.h>
#include <string.h>
#include <errno.h>
#include <fcntl.h>
#include <signal.h>
#include <unistd.h>
#include <grp.h>
#include <sys/ptrace.h>
#include <sys/wait.h>
#include <sys/user.h>
#include <sys/syscall.h>

#define MAXT 4096
typedef struct { pid_t tid; int in_sys; int seen_stop; int counted; int failing; char line[400]; } T;
static T tt[MAXT]; static int nt;
static int mode_fs = 1, trace = 0, stdout_is_file = 0;
static long K = 0, count = 0, F = 0, failed_call = 0;

static const struct { int nr; const char* n; } NAMES[] = {
 {0,"read"},{1,"write"},{2,"open"},{3,"close"},{4,"stat"},{5,"fstat"},{6,"lstat"},{8,"lseek"},{9,"mmap"},{10,"mprotect"},{11,"munmap"},{12,"brk"},
 {13,"rt_sigaction"},{14,"rt_sigprocmask"},{16,"ioctl"},{17,"pread64"},{18,"pwrite64"},{19,"readv"},{20,"writev"},{21,"access"},{28,"madvise"},
 {39,"getpid"},{40,"sendfile"},{56,"clone"},{57,"fork"},{58,"vfork"},{59,"execve"},{60,"exit"},{72,"fcntl"},{74,"fsync"},{75,"fdatasync"},{76,"truncate"},
 {77,"ftruncate"},{79,"getcwd"},{82,"rename"},{83,"mkdir"},{84,"rmdir"},{85,"creat"},{86,"link"},{87,"unlink"},{88,"symlink"},{89,"readlink"},
 {90,"chmod"},{91,"fchmod"},{92,"chown"},{93,"fchown"},{94,"lchown"},{95,"umask"},{132,"utime"},{158,"arch_prctl"},{186,"gettid"},{202,"futex"},
 {204,"sched_getaffinity"},{218,"set_tid_address"},{228,"clock_gettime"},{231,"exit_group"},{234,"tgkill"},{235,"utimes"},{257,"openat"},{258,"mkdirat"},
 {260,"fchownat"},{261,"futimesat"},{262,"newfstatat"},{263,"unlinkat"},{264,"renameat"},{265,"linkat"},{266,"symlinkat"},{268,"fchmodat"},
 {273,"set_robust_list"},{280,"utimensat"},{285,"fallocate"},{296,"pwritev"},{302,"prlimit64"},{316,"renameat2"},{318,"getrandom"},{326,"copy_file_range"},
 {328,"pwritev2"},{332,"statx"},{334,"rseq"},{435,"clone3"},{437,"openat2"},{439,"faccessat2"},{452,"fchmodat2"},{-1,0}};
static const char* sname(long nr) { static char b[24]; for (int i = 0; NAMES[i].n; i++) if (NAMES[i].nr == nr) return NAMES[i].n;
    snprintf(b, sizeof b, "sys_%ld", nr); return b; }

static T* get(pid_t tid) {
    for (int i = 0; i < nt; i++) if (tt[i].tid == tid) return &tt[i];
    if (nt == MAXT) { fprintf(stderr, "vkill: too many tasks\n"); exit(2); }
    memset(&tt[nt], 0, sizeof(T)); tt[nt].tid = tid; return &tt[nt++];
}
static void drop(pid_t tid) {
    for (int i = 0; i < nt; i++) if (tt[i].tid == tid) {
        if (tt[i].line[0]) fprintf(stderr, "%s ret=?\n", tt[i].line);
        tt[i] = tt[--nt]; return; }
}
static void peekstr(pid_t tid, unsigned long addr, char* out, size_t cap) {
    size_t n = 0; out[0] = 0;
    while (addr && n + 8 < cap) {
        errno = 0; long w = ptrace(PTRACE_PEEKDATA, tid, (void*)(addr + n), 0);
        if (errno) break;
        memcpy(out + n, &w, 8);
        if (memchr(&w, 0, 8)) return;
        n += 8; out[n] = 0;
    }
}
static int wr_flags(unsigned long fl) { return (fl & (O_CREAT | O_TRUNC)) || (fl & O_ACCMODE) == O_WRONLY || (fl & O_ACCMODE) == O_RDWR; }
static int fd_counts(long fd) { return fd > 2 || (fd == 1 && stdout_is_file); }

/* does this call (at its entry) potentially change the file system?  *patharg = register index of a path, or -1 */
static int is_fs(pid_t tid, const struct user_regs_struct* r, int* patharg, unsigned long* flags) {
    long fd = (long)(int)r->rdi; *patharg = -1; *flags = 0;
    switch ((long)r->orig_rax) {
    case SYS_open:    *patharg = 0; *flags = r->rsi; return wr_flags(r->rsi);
    case SYS_openat:  *patharg = 1; *flags = r->rdx; return wr_flags(r->rdx);
    case 437: /* openat2: flags = first u64 of struct open_how */
        *patharg = 1; errno = 0; *flags = (unsigned long)ptrace(PTRACE_PEEKDATA, tid, (void*)r->rdx, 0); return errno ? 1 : wr_flags(*flags);
    case SYS_creat:   *patharg = 0; return 1;
    case SYS_write: case SYS_pwrite64: case SYS_writev: case SYS_pwritev: case 328 /*pwritev2*/: case SYS_close:
    case SYS_ftruncate: case SYS_fallocate: case SYS_fchmod: case SYS_fchown: case SYS_fsync: case SYS_fdatasync:
        return fd_counts(fd);
    case SYS_sendfile: case 326 /*copy_file_range: out fd is arg 2*/:
        return fd_counts((long)r->orig_rax == SYS_sendfile ? fd : (long)(int)r->rdx);
    case SYS_unlink: case SYS_rename: case SYS_truncate: case SYS_chmod: case SYS_chown: case SYS_lchown: case SYS_utime: case SYS_utimes:
    case SYS_mkdir: case SYS_rmdir: case SYS_link: case SYS_symlink:
        *patharg = 0; return 1;
    case SYS_unlinkat: case SYS_renameat: case 316 /*renameat2*/: case SYS_fchmodat: case 452 /*fchmodat2*/: case SYS_fchownat: case SYS_utimensat:
    case SYS_futimesat: case SYS_mkdirat: case SYS_linkat:
        *patharg = 1; return 1;
    case SYS_symlinkat: *patharg = 2; return 1;
    default: return 0;
    }
}
static void kill_all(void) { for (int i = 0; i < nt; i++) kill(tt[i].tid, SIGKILL); }

int main(int argc, char** argv) {
    const char *cwd = NULL, *fin = NULL, *fout = NULL, *ferr = NULL; int count_only = 0, i, uid = -1;
    for (i = 1; i < argc; i++) {
        if (!strcmp(argv[i], "--")) { i++; break; }
        else if (!strcmp(argv[i], "--mode") && i + 1 < argc) mode_fs = !strcmp(argv[++i], "fs");
        else if (!strcmp(argv[i], "--kill") && i + 1 < argc) K = atol(argv[++i]);
        else if (!strcmp(argv[i], "--fail") && i + 1 < argc) F = atol(argv[++i]);      /* the F-th counted call, if it writes data, fails with ENOSPC; the run goes on */
        else if (!strcmp(argv[i], "--count-only")) count_only = 1;
        else if (!strcmp(argv[i], "--trace")) trace = 1;
        else if (!strcmp(argv[i], "--cwd") && i + 1 < argc) cwd = argv[++i];
        else if (!strcmp(argv[i], "--stdin") && i + 1 < argc) fin = argv[++i];
        else if (!strcmp(argv[i], "--stdout") && i + 1 < argc) fout = argv[++i];
        else if (!strcmp(argv[i], "--stderr") && i + 1 < argc) ferr = argv[++i];
        else if (!strcmp(argv[i], "--uid") && i + 1 < argc) uid = atoi(argv[++i]);
        else { fprintf(stderr, "vkill: bad option %s\n", argv[i]); return 2; }
    }
    if (i >= argc) { fprintf(stderr, "usage: vkill --mode fs|all --kill K [--count-only] [--trace] --cwd DIR [--stdin F --stdout F --stderr F --uid N] -- prog args...\n"); return 2; }
    if (count_only) K = 0;
    stdout_is_file = fout != NULL;

    pid_t root = fork();
    if (root < 0) { perror("fork"); return 2; }
    if (root == 0) {
        if (cwd && chdir(cwd)) { perror("vkill: chdir"); _exit(126); }
        if (fin)  { int f = open(fin, O_RDONLY); if (f < 0 || dup2(f, 0) < 0) _exit(126); close(f); }
        if (fout) { int f = open(fout, O_WRONLY | O_CREAT | O_TRUNC, 0644); if (f < 0 || dup2(f, 1) < 0) _exit(126); close(f); }
        if (ferr) { int f = open(ferr, O_WRONLY | O_CREAT | O_TRUNC, 0644); if (f < 0 || dup2(f, 2) < 0) _exit(126); close(f); }
        if (uid >= 0 && (setgroups(0, NULL) || setgid((gid_t)uid) || setuid((uid_t)uid))) _exit(126);
        ptrace(PTRACE_TRACEME, 0, 0, 0);
        raise(SIGSTOP);
        execvp(argv[i], argv + i);
        _exit(127);
    }
    int st, started = 0, root_status = -1, killed = 0;
    if (waitpid(root, &st, __WALL) < 0 || !WIFSTOPPED(st)) { fprintf(stderr, "vkill: child did not stop\n"); return 2; }
    get(root)->seen_stop = 1;
    ptrace(PTRACE_SETOPTIONS, root, 0, PTRACE_O_TRACESYSGOOD | PTRACE_O_TRACECLONE | PTRACE_O_TRACEFORK | PTRACE_O_TRACEVFORK | PTRACE_O_TRACEEXEC | PTRACE_O_EXITKILL);
    ptrace(PTRACE_SYSCALL, root, 0, 0);

    for (;;) {
        pid_t tid = waitpid(-1, &st, __WALL);
        if (tid < 0) { if (errno == EINTR) continue; break; }          /* ECHILD: the whole tree is gone */
        if (WIFEXITED(st) || WIFSIGNALED(st)) {
            if (tid == root) root_status = WIFEXITED(st) ? WEXITSTATUS(st) : 128 + WTERMSIG(st);
            drop(tid); continue;
        }
        if (!WIFSTOPPED(st)) continue;
        T* t = get(tid); int sig = WSTOPSIG(st), inject = 0;
        if (sig == (SIGTRAP | 0x80)) {                                  /* syscall stop: entry or exit by parity */
            struct user_regs_struct r;
            if (ptrace(PTRACE_GETREGS, tid, 0, &r) < 0) { continue; }   /* task died under us */
            t->in_sys = !t->in_sys;
            if (t->in_sys && (long)r.rax != -ENOSYS) t->in_sys = 0;     /* resync: entry stops always show rax == -ENOSYS */
            if (t->in_sys && started && !killed) {
                int pa = -1; unsigned long fl = 0; int c = mode_fs ? is_fs(tid, &r, &pa, &fl) : 1;
                if (!mode_fs) (void)is_fs(tid, &r, &pa, &fl);
                t->counted = c;
                if (c) {
                    count++;
                    if (trace) {
                        unsigned long a[3] = { r.rdi, r.rsi, r.rdx }; char p[256] = "";
                        int n = snprintf(t->line, sizeof t->line, "%ld %ld %s tid=%d", count, (long)r.orig_rax, sname((long)r.orig_rax), tid);
                        if (pa != 0) n += snprintf(t->line + n, sizeof t->line - n, " a0=%ld", (long)(int)r.rdi);
                        if (pa >= 0) { peekstr(tid, a[pa], p, sizeof p); n += snprintf(t->line + n, sizeof t->line - n, " path=%s", p); }
                        if (fl) snprintf(t->line + n, sizeof t->line - n, " flags=0x%lx", fl);
                        if (r.orig_rax == SYS_exit || r.orig_rax == SYS_exit_group) { fprintf(stderr, "%s ret=-\n", t->line); t->line[0] = 0; }
                    }
                    if (F > 0 && count == F) {                          /* make the F-th call fail instead of executing it (data-writing calls only) */
                        long nr = (long)r.orig_rax;
                        if (nr == SYS_write || nr == SYS_pwrite64 || nr == SYS_writev || nr == SYS_pwritev || nr == 328) { r.orig_rax = (unsigned long)-1; ptrace(PTRACE_SETREGS, tid, 0, &r); t->failing = 1; failed_call = nr; }
                    }
                    if (K > 0 && count == K) {                          /* kill before the K-th call executes */
                        r.orig_rax = (unsigned long)-1; ptrace(PTRACE_SETREGS, tid, 0, &r);
                        killed = 1; kill_all(); continue;
                    }
                }
            } else if (!t->in_sys && t->failing) {
                t->failing = 0; r.rax = (unsigned long)-ENOSPC; ptrace(PTRACE_SETREGS, tid, 0, &r);
                if (t->line[0]) { fprintf(stderr, "%s ret=-ENOSPC(injected)\n", t->line); t->line[0] = 0; }
            } else if (!t->in_sys && t->line[0]) {
                fprintf(stderr, "%s ret=%ld\n", t->line, (long)r.rax); t->line[0] = 0;
            }
        } else if (sig == SIGTRAP && (st >> 16) != 0) {                 /* PTRACE_EVENT_* stop */
            int ev = st >> 16;
            if (ev == PTRACE_EVENT_EXEC && !started) { started = 1; }   /* next stop of this tid = execve exit */
            if (ev == PTRACE_EVENT_CLONE || ev == PTRACE_EVENT_FORK || ev == PTRACE_EVENT_VFORK) {
                unsigned long nw = 0; if (ptrace(PTRACE_GETEVENTMSG, tid, 0, &nw) == 0 && nw) get((pid_t)nw);
            }
        } else if (sig == SIGSTOP && !t->seen_stop) {                   /* attach stop of an auto-attached task */
            t->seen_stop = 1;
        } else {
            inject = sig;                                               /* genuine signal: forward it */
        }
        if (killed) { kill(tid, SIGKILL); continue; }
        t->seen_stop = t->seen_stop || sig != SIGSTOP;
        if (ptrace(PTRACE_SYSCALL, tid, 0, inject) < 0 && errno != ESRCH) perror("vkill: PTRACE_SYSCALL");
    }
    fflush(stderr);
    if (killed) { printf("VKILL killed_at=%ld\n", K); return 137; }
    if (F > 0) { printf("VKILL exited status=%d total=%ld failed_call=%ld\n", root_status, count, failed_call); return root_status < 0 ? 2 : 0; }
    if (K == 0) printf("VKILL total=%ld status=%d\n", count, root_status);
    else printf("VKILL exited status=%d total=%ld\n", root_status, count);
    return root_status < 0 ? 2 : root_status;
}
