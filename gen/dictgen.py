#!/usr/bin/env python3
"""dictgen.py - catalogue of Zstandard dictionaries built from the format
specification ('Dictionary Format'): raw-content dictionaries and structured
dictionaries with unusual entropy tables / repeat offsets.

Record format:  u32le name_len, name, u32le dict_len, dict bytes, u32le flags
   flags bit0 : a conforming loader must accept this dictionary
   flags bit1 : it must be refused (repeat offset 0 or > content size)
"""
import sys, os, argparse, collections
sys.path.insert(0, os.path.dirname(os.path.abspath(__file__)))
import framegen as fg

ACCEPT, REFUSE = 1, 2

def spread(codes, al, heavy=None, minus_one=()):
    """normalized distribution over `codes` (decreasing counts, `heavy` dominant)"""
    cnt = {c: max(1, 40 - 3 * i) for i, c in enumerate(codes)}
    if heavy is not None:
        cnt[heavy] = 400
    return fg.fse_normalize(cnt, al, minus_one=minus_one)

def text_tree():
    rng = fg.LCG(77)
    freqs = collections.Counter(fg.sample_text(rng, 4000))
    return fg.huf_weights_from_freqs(freqs)

HUF_VARIANTS = collections.OrderedDict([
    ('text', (text_tree, 'direct')),                         # < 256 symbols, many zero weights
    ('sparse', (fg.tree_sparse, 'direct')),
    ('sparse-fse', (fg.tree_sparse, 'fse')),
    ('depth11', (fg.tree_depth11, 'direct')),
    ('depth11-fse', (fg.tree_depth11, 'fse')),
    ('depth11wide', (fg.tree_depth11_wide, 'fse')),
    ('2sym(97,98)', (lambda: fg.tree_two_symbols(97, 98), 'direct')),
    ('2sym(0,255)', (lambda: fg.tree_two_symbols(0, 255), 'fse')),
    ('sym255', (fg.tree_with_255, 'fse')),
    ('129syms', (fg.tree_129_direct, 'direct')),
    ('256syms', (fg.tree_256, 'fse')),
])

OF_VARIANTS = collections.OrderedDict([
    ('codes0-10,al6', lambda: (spread(range(11), 6), 6)),
    ('al5(min),codes0-7', lambda: (spread(range(8), 5), 5)),
    ('al8(max),codes0-20', lambda: (spread(range(21), 8, heavy=5), 8)),
    ('missing,codes1,3,7,9', lambda: (spread((1, 3, 7, 9), 5), 5)),
    ('missing,zero=split', lambda: (spread((0, 2, 6, 12), 6), 6, 'split')),
    ('minus1,codes0-12', lambda: (spread(range(13), 6, minus_one=(0, 9, 10, 11, 12)), 6)),
    ('last=3', lambda: (spread(range(4), 5), 5)),
    ('full0-28,al8', lambda: (spread(range(29), 8, minus_one=range(20, 29)), 8)),
    ('dominant', lambda: (fg.fse_normalize({0: 1, 2: 1, 4: 1}, 5, force={2: 29}), 5)),
    # every code a first block can need (content + 128 KiB) is present, nothing above: valid for the first block, unusable further into the frame
    ('all-present,codes0-17', lambda: (spread(range(18), 6), 6)),
    ('all-present,codes0-18', lambda: (spread(range(19), 6), 6)),
])

ML_VARIANTS = collections.OrderedDict([
    ('codes0-20,al6', lambda: (spread(range(21), 6), 6)),
    ('al5(min),codes0-9', lambda: (spread(range(10), 5), 5)),
    ('al9(max),codes0-40', lambda: (spread(range(41), 9, heavy=1), 9)),
    ('missing,codes0,2,5,9,33', lambda: (spread((0, 2, 5, 9, 33), 6), 6)),
    ('missing,zero=pairs', lambda: (spread((1, 4, 8, 16), 6), 6, 'pairs')),
    ('minus1,codes0-15', lambda: (spread(range(16), 6, minus_one=(0, 12, 13, 14, 15)), 6)),
    ('last=2', lambda: (spread(range(3), 5), 5)),
    ('full0-52,al9', lambda: (spread(range(53), 9, minus_one=range(40, 53)), 9)),
    ('32syms-all-minus1,al5', lambda: ([-1] * 32, 5)),
])

LL_VARIANTS = collections.OrderedDict([
    ('codes0-20,al6', lambda: (spread(range(21), 6), 6)),
    ('al5(min),codes0-9', lambda: (spread(range(10), 5), 5)),
    ('al9(max),codes0-30', lambda: (spread(range(31), 9, heavy=0), 9)),
    ('missing,codes1,2,8,17', lambda: (spread((1, 2, 8, 17), 6), 6)),
    ('missing,zero=split', lambda: (spread((0, 3, 4, 13), 6), 6, 'split')),
    ('minus1,codes0-15', lambda: (spread(range(16), 6, minus_one=(3, 12, 13, 14, 15)), 6)),
    ('last=1', lambda: (spread(range(2), 5), 5)),
    ('full0-35,al9', lambda: (spread(range(36), 9, minus_one=range(25, 36)), 9)),
    ('32syms-all-minus1,al5', lambda: ([-1] * 32, 5)),
])

CONTENT_LENGTHS = (8, 64, 1024, 9 * 1024)
RAW_LENGTHS = (8, 9, 100, 1023, 1024, 1025, 3072)

def content_bytes(n, seed=5):
    return fg.sample_text(fg.LCG(1000 + n + seed), n)

def make(dict_id, huf='text', of='codes0-10,al6', ml='codes0-20,al6', ll='codes0-20,al6', rep=(1, 4, 8), clen=64):
    wfun, tree = HUF_VARIANTS[huf]
    content = content_bytes(clen)
    rep = [clen if r == 'C' else clen + 1 if r == 'C+1' else r for r in rep]
    return fg.build_dictionary(dict_id, wfun(), OF_VARIANTS[of](), ML_VARIANTS[ml](), LL_VARIANTS[ll](), rep, content, tree=tree)

def dictionary_catalogue():
    """list of (name, ParsedDict, flags)"""
    out = []
    next_id = [0x10000]
    def add(name, flags=ACCEPT, dict_id=None, **kw):
        if dict_id is None:
            dict_id = next_id[0]; next_id[0] += 1
        out.append(('%s id=%d' % (name, dict_id), make(dict_id, **kw), flags))
    # raw-content dictionaries
    for n in RAW_LENGTHS:
        out.append(('raw-content len=%d' % n, fg.raw_content_dictionary(content_bytes(n, seed=9)), ACCEPT))
    out.append(('raw-content len=16 almost-magic', fg.raw_content_dictionary(fg.le(fg.DICT_MAGIC ^ 1, 4) + content_bytes(12)), ACCEPT))
    out.append(('raw-content len=12 zstd-frame-magic', fg.raw_content_dictionary(fg.le(fg.ZSTD_MAGIC, 4) + content_bytes(8)), ACCEPT))
    # base structured dictionary, content lengths, dictionary IDs of every field width
    for clen in CONTENT_LENGTHS:
        add('structured base content=%d' % clen, clen=clen)
    for did in (1, 5, 255, 256, 300, 65535, 65536, 70000, 0x7FFFFFFF, 0xFFFFFFFF):
        add('structured base', dict_id=did)
    # one unusual table at a time
    for h in HUF_VARIANTS:
        if h != 'text':
            add('structured huf=%s' % h, huf=h)
    for v in list(OF_VARIANTS)[1:]:
        add('structured of=%s' % v, of=v)
    for v in list(ML_VARIANTS)[1:]:
        add('structured ml=%s' % v, ml=v)
    for v in list(LL_VARIANTS)[1:]:
        add('structured ll=%s' % v, ll=v)
    # two at a time
    add('structured all-min-al', of='al5(min),codes0-7', ml='al5(min),codes0-9', ll='al5(min),codes0-9')
    add('structured all-max-al', of='al8(max),codes0-20', ml='al9(max),codes0-40', ll='al9(max),codes0-30', clen=1024)
    add('structured all-missing', of='missing,codes1,3,7,9', ml='missing,codes0,2,5,9,33', ll='missing,codes1,2,8,17', clen=1024)
    add('structured all-minus1', of='minus1,codes0-12', ml='minus1,codes0-15', ll='minus1,codes0-15', huf='depth11-fse')
    add('structured all-full', of='full0-28,al8', ml='full0-52,al9', ll='full0-35,al9', huf='256syms', clen=9 * 1024)
    add('structured all-last-small', of='last=3', ml='last=2', ll='last=1', huf='2sym(97,98)')
    add('structured ll+ml all-minus1', ml='32syms-all-minus1,al5', ll='32syms-all-minus1,al5')
    for h in ('depth11', '2sym(0,255)', '256syms'):
        for clen in (8, 9 * 1024):
            add('structured huf=%s content=%d' % (h, clen), huf=h, clen=clen)
    # repeat offsets
    for clen in CONTENT_LENGTHS:
        add('structured rep=content_size,1,2 content=%d' % clen, rep=('C', 1, 2), clen=clen)
        add('structured rep=C,C,C content=%d' % clen, rep=('C', 'C', 'C'), clen=clen)
        add('structured rep=1,1,1 content=%d' % clen, rep=(1, 1, 1), clen=clen)
        add('structured rep=8,7,C content=%d' % clen, rep=(8, 7, 'C'), clen=clen)
        for pos in range(3):
            r = [1, 4, 8]; r[pos] = 0
            add('structured INVALID rep[%d]=0 content=%d' % (pos, clen), flags=REFUSE, rep=r, clen=clen)
            r = [1, 4, 8]; r[pos] = 'C+1'
            add('structured INVALID rep[%d]=content_size+1 content=%d' % (pos, clen), flags=REFUSE, rep=r, clen=clen)
        add('structured INVALID rep=0,0,0 content=%d' % clen, flags=REFUSE, rep=(0, 0, 0), clen=clen)
        add('structured INVALID rep[2]=0xFFFFFFFF content=%d' % clen, flags=REFUSE, rep=(1, 4, 0xFFFFFFFF), clen=clen)
    add('structured INVALID rep[0]=content_size+1 huf=256syms', flags=REFUSE, rep=('C+1', 1, 2), huf='256syms')
    return out

def main():
    ap = argparse.ArgumentParser()
    ap.add_argument('--out', required=True)
    a = ap.parse_args()
    cat = dictionary_catalogue()
    counts = collections.Counter()
    with open(a.out, 'wb') as f:
        for name, d, flags in cat:
            nb = name.encode('ascii')
            f.write(fg.le(len(nb), 4) + nb + fg.le(len(d.raw), 4) + d.raw + fg.le(flags, 4))
            kind = 'raw-content' if d.dict_id == 0 else 'structured'
            counts[(kind, 'must-accept' if flags & ACCEPT else 'must-refuse')] += 1
    for k in sorted(counts):
        sys.stderr.write('dictgen: %-12s %-12s %d\n' % (k[0], k[1], counts[k]))
    sys.stderr.write('dictgen: total %d dictionaries\n' % len(cat))

if __name__ == '__main__':
    main()
