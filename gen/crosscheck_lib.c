/* crosscheck_lib.c - sanity cross-check of a framegen.py catalogue against the real
 * library (libzstd).  For every record that the reference decoder R accepts, decode
 * with ZSTD_decompress / ZSTD_decompress_usingDict (one-shot) and with
 * ZSTD_decompressStream (streaming, small input chunks), and REPORT every record that
 * libzstd rejects or decodes differently (name + hex of the frame).
 *
 *   crosscheck_lib <catalogue>          frame catalogue
 *   crosscheck_lib --dicts <catalogue>  dictionary catalogue: compare ZSTD_createDDict /
 *                                       ZSTD_DCtx_loadDictionary outcome with the flags
 * gcc -O1 -I/verif/ref -I/repo/lib crosscheck_lib.c /verif/ref/edu_decoder.c -L/repo/lib -lzstd */
#include <stdio.h>
#include <stdlib.h>
#include <string.h>
#include <stdint.h>
#define ZSTD_STATIC_LINKING_ONLY
#include "zstd.h"
#include "edu_decoder.h"

static uint32_t rd32(const unsigned char* p) { return p[0] | (p[1] << 8) | (p[2] << 16) | ((uint32_t)p[3] << 24); }
typedef struct { unsigned char* p; size_t n; } buf_t;
static int read_field(FILE* f, buf_t* b) {
    unsigned char h[4];
    if (fread(h, 1, 4, f) != 4) return 0;
    b->n = rd32(h);
    b->p = malloc(b->n + 1);
    if (b->n && fread(b->p, 1, b->n, f) != b->n) { fprintf(stderr, "truncated catalogue\n"); exit(2); }
    b->p[b->n] = 0;
    return 1;
}
static void hexdump(const buf_t* b) {
    size_t lim = b->n > 4096 ? 4096 : b->n;
    for (size_t i = 0; i < lim; i++) printf("%02x", b->p[i]);
    if (lim < b->n) printf("...(%zu bytes total)", b->n);
    printf("\n");
}

/* R verdict: 1 if R decodes the record to exactly `content` */
static int r_accepts(const buf_t* frame, const buf_t* content, const buf_t* dictb) {
    dictionary_t* volatile dict = NULL;
    unsigned char* volatile out = NULL;
    volatile int ok = 0;
    if (setjmp(r_jmp)) goto done;
    dict = R_create_dictionary();
    if (dictb->n) R_parse_dictionary(dict, dictb->p, dictb->n);
    {
        size_t cap = content->n + 64, pos = 0, produced = 0;
        out = malloc(cap);
        while (pos < frame->n) {
            if (frame->n - pos < 4) goto done;
            uint32_t magic = rd32(frame->p + pos);
            if ((magic & 0xFFFFFFF0u) == 0x184D2A50u) {
                if (frame->n - pos < 8) goto done;
                uint32_t sz = rd32(frame->p + pos + 4);
                if (frame->n - pos - 8 < sz) goto done;
                pos += 8 + (size_t)sz; continue;
            }
            produced += R_decompress_with_dict(out + produced, cap - produced, frame->p + pos, frame->n - pos, dict);
            pos += r_consumed;
        }
        ok = (produced == content->n) && (content->n == 0 || !memcmp(out, content->p, content->n));
    }
done:
    free((void*)out);
    if (dict) R_free_dictionary(dict);
    return ok;
}

static int report(const char* api, const buf_t* name, const buf_t* frame, const buf_t* dict, const char* what) {
    printf("DISAGREE [%s] %s : %s\n  frame(%zu)=", api, name->p, what, frame->n);
    hexdump(frame);
    if (dict->n) { printf("  dict(%zu)=", dict->n); hexdump(dict); }
    return 1;
}

static int check_oneshot(ZSTD_DCtx* dctx, const buf_t* name, const buf_t* frame, const buf_t* content, const buf_t* dict) {
    size_t cap = content->n + 64;
    unsigned char* out = malloc(cap);
    char what[200];
    int bad = 0;
    size_t r = dict->n ? ZSTD_decompress_usingDict(dctx, out, cap, frame->p, frame->n, dict->p, dict->n)
                       : ZSTD_decompress(out, cap, frame->p, frame->n);
    if (ZSTD_isError(r)) { snprintf(what, sizeof what, "libzstd error: %s", ZSTD_getErrorName(r)); bad = report("oneshot", name, frame, dict, what); }
    else if (r != content->n) { snprintf(what, sizeof what, "libzstd produced %zu bytes, expected %zu", r, content->n); bad = report("oneshot", name, frame, dict, what); }
    else if (r && memcmp(out, content->p, r)) { bad = report("oneshot", name, frame, dict, "libzstd decoded different content"); }
    free(out);
    return bad;
}

static int check_stream(ZSTD_DCtx* dctx, const buf_t* name, const buf_t* frame, const buf_t* content, const buf_t* dict, size_t chunk) {
    size_t cap = content->n + 64;
    unsigned char* out = malloc(cap);
    char what[200];
    int bad = 0;
    size_t r = 0;
    ZSTD_DCtx_reset(dctx, ZSTD_reset_session_and_parameters);
    if (dict->n) {
        r = ZSTD_DCtx_loadDictionary(dctx, dict->p, dict->n);
        if (ZSTD_isError(r)) { snprintf(what, sizeof what, "loadDictionary error: %s", ZSTD_getErrorName(r)); bad = report("stream", name, frame, dict, what); free(out); return bad; }
    }
    ZSTD_outBuffer ob = { out, cap, 0 };
    size_t pos = 0;
    int stuck = 0;
    r = 1;   /* "not finished" until libzstd says a frame is complete */
    while (pos < frame->n && !stuck && !ZSTD_isError(r)) {
        size_t n = frame->n - pos < chunk ? frame->n - pos : chunk;
        ZSTD_inBuffer ib = { frame->p + pos, n, 0 };
        while (ib.pos < ib.size) {
            size_t before_in = ib.pos, before_out = ob.pos;
            r = ZSTD_decompressStream(dctx, &ob, &ib);
            if (ZSTD_isError(r)) break;
            if (ib.pos == before_in && ob.pos == before_out) { stuck = 1; break; }   /* output buffer full */
        }
        pos += n;
    }
    if (stuck) { snprintf(what, sizeof what, "no progress (libzstd wants to produce more than %zu bytes)", cap); free(out); return report("stream", name, frame, dict, what); }
    if (ZSTD_isError(r)) { snprintf(what, sizeof what, "libzstd error: %s", ZSTD_getErrorName(r)); bad = report("stream", name, frame, dict, what); }
    else if (r != 0) { snprintf(what, sizeof what, "stream not finished (hint %zu) after all input", r); bad = report("stream", name, frame, dict, what); }
    else if (ob.pos != content->n) { snprintf(what, sizeof what, "libzstd produced %zu bytes, expected %zu", ob.pos, content->n); bad = report("stream", name, frame, dict, what); }
    else if (ob.pos && memcmp(out, content->p, ob.pos)) { bad = report("stream", name, frame, dict, "libzstd decoded different content"); }
    free(out);
    return bad;
}

static int do_dicts(const char* path) {
    FILE* f = fopen(path, "rb");
    if (!f) { perror(path); return 2; }
    buf_t name, d; unsigned char fl[4];
    int n = 0, bad = 0;
    ZSTD_DCtx* dctx = ZSTD_createDCtx();
    while (read_field(f, &name)) {
        if (!read_field(f, &d) || fread(fl, 1, 4, f) != 4) { fprintf(stderr, "truncated\n"); return 2; }
        uint32_t flags = rd32(fl);
        ZSTD_DDict* dd = ZSTD_createDDict(d.p, d.n);
        int acc1 = dd != NULL;
        ZSTD_freeDDict(dd);
        ZSTD_DCtx_reset(dctx, ZSTD_reset_session_and_parameters);
        int acc2 = !ZSTD_isError(ZSTD_DCtx_loadDictionary(dctx, d.p, d.n));
        if (acc1 != acc2) { printf("DISAGREE [dict] %s : createDDict=%d loadDictionary=%d\n  dict(%zu)=", name.p, acc1, acc2, d.n); hexdump(&d); bad++; }
        else if ((flags & 1) && !acc1) { printf("DISAGREE [dict] %s : must-accept dictionary refused by libzstd\n  dict(%zu)=", name.p, d.n); hexdump(&d); bad++; }
        else if ((flags & 2) && acc1) { printf("DISAGREE [dict] %s : must-refuse dictionary accepted by libzstd\n  dict(%zu)=", name.p, d.n); hexdump(&d); bad++; }
        n++;
        free(name.p); free(d.p);
    }
    printf("cross-checked %d dictionaries, %d disagreements\n", n, bad);
    return 0;
}

int main(int argc, char** argv) {
    if (argc >= 3 && !strcmp(argv[1], "--dicts")) return do_dicts(argv[2]);
    if (argc < 2) { fprintf(stderr, "usage: %s [--dicts] catalogue\n", argv[0]); return 2; }
    FILE* f = fopen(argv[1], "rb");
    if (!f) { perror(argv[1]); return 2; }
    buf_t name, frame, content, dict;
    int n = 0, rrej = 0, d1 = 0, d2 = 0;
    ZSTD_DCtx* dctx = ZSTD_createDCtx();
    printf("libzstd version %s\n", ZSTD_versionString());
    while (read_field(f, &name)) {
        if (!read_field(f, &frame) || !read_field(f, &content) || !read_field(f, &dict)) { fprintf(stderr, "truncated record\n"); return 2; }
        n++;
        if (!r_accepts(&frame, &content, &dict)) { printf("SKIP (R does not accept) %s\n", name.p); rrej++; }
        else {
            d1 += check_oneshot(dctx, &name, &frame, &content, &dict);
            d2 += check_stream(dctx, &name, &frame, &content, &dict, 7);
        }
        free(name.p); free(frame.p); free(content.p); free(dict.p);
    }
    printf("cross-checked %d records: %d not accepted by R (skipped), %d one-shot disagreements, %d streaming disagreements\n", n, rrej, d1, d2);
    return 0;
}
