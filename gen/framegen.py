#!/usr/bin/env python3
"""framegen.py - catalogue of valid Zstandard frames built directly from the
format specification (doc/zstd_compression_format.md).

Pure python3 standard library.  Contains its own bit writers, FSE encoder,
Huffman encoder, XXH64 and a small sequence-execution model (used to compute the
expected content of every frame).  Nothing here calls libzstd.

Layout: one function (or small class) per section of the specification.
"""
import sys, struct, argparse, collections

# --------------------------------------------------------------------------
# Small utilities
# --------------------------------------------------------------------------
class LCG:
    """Fixed-seed linear congruential generator (the only source of 'randomness')."""
    def __init__(self, seed=0x9E3779B97F4A7C15):
        self.s = seed & 0xFFFFFFFFFFFFFFFF
    def next(self):
        self.s = (self.s * 6364136223846793005 + 1442695040888963407) & 0xFFFFFFFFFFFFFFFF
        return self.s >> 33
    def below(self, n):
        return self.next() % n
    def bytes(self, n, alphabet=None):
        if alphabet is None:
            return bytes(self.below(256) for _ in range(n))
        return bytes(alphabet[self.below(len(alphabet))] for _ in range(n))
    def skewed(self, n, symbols):
        """n bytes drawn from `symbols` with a geometric-ish skew (first symbols frequent)."""
        out = bytearray()
        k = len(symbols)
        for _ in range(n):
            r = self.below(1 << 16)
            i = 0
            while i < k - 1 and (r & 1):
                r >>= 1
                i += 1
            out.append(symbols[i])
        return bytes(out)

def le(v, n):
    return int(v).to_bytes(n, 'little')

def highbit(v):
    """index of the highest set bit (v > 0)"""
    return v.bit_length() - 1

# --------------------------------------------------------------------------
# XXH64 (xxHash specification), used for Content_Checksum
# --------------------------------------------------------------------------
_P1 = 0x9E3779B185EBCA87
_P2 = 0xC2B2AE3D27D4EB4F
_P3 = 0x165667B19E3779F9
_P4 = 0x85EBCA77C2B2AE63
_P5 = 0x27D4EB2F165667C5
_M64 = 0xFFFFFFFFFFFFFFFF

def _rotl(x, r):
    return ((x << r) | (x >> (64 - r))) & _M64

def _xxh_round(acc, lane):
    acc = (acc + lane * _P2) & _M64
    acc = _rotl(acc, 31)
    return (acc * _P1) & _M64

def _xxh_merge(acc, val):
    val = _xxh_round(0, val)
    acc ^= val
    return (acc * _P1 + _P4) & _M64

def xxh64(data, seed=0):
    n = len(data)
    p = 0
    if n >= 32:
        v1 = (seed + _P1 + _P2) & _M64
        v2 = (seed + _P2) & _M64
        v3 = seed & _M64
        v4 = (seed - _P1) & _M64
        limit = n - 32
        while p <= limit:
            a, b, c, d = struct.unpack_from('<QQQQ', data, p)
            v1 = _xxh_round(v1, a); v2 = _xxh_round(v2, b)
            v3 = _xxh_round(v3, c); v4 = _xxh_round(v4, d)
            p += 32
        h = (_rotl(v1, 1) + _rotl(v2, 7) + _rotl(v3, 12) + _rotl(v4, 18)) & _M64
        h = _xxh_merge(h, v1); h = _xxh_merge(h, v2)
        h = _xxh_merge(h, v3); h = _xxh_merge(h, v4)
    else:
        h = (seed + _P5) & _M64
    h = (h + n) & _M64
    while p + 8 <= n:
        k = _xxh_round(0, struct.unpack_from('<Q', data, p)[0])
        h ^= k
        h = (_rotl(h, 27) * _P1 + _P4) & _M64
        p += 8
    if p + 4 <= n:
        h ^= (struct.unpack_from('<I', data, p)[0] * _P1) & _M64
        h = (_rotl(h, 23) * _P2 + _P3) & _M64
        p += 4
    while p < n:
        h ^= (data[p] * _P5) & _M64
        h = (_rotl(h, 11) * _P1) & _M64
        p += 1
    h ^= h >> 33
    h = (h * _P2) & _M64
    h ^= h >> 29
    h = (h * _P3) & _M64
    h ^= h >> 32
    return h

# --------------------------------------------------------------------------
# Bit writers
# --------------------------------------------------------------------------
class ForwardBits:
    """Little-endian forward bitstream (used for FSE table descriptions)."""
    def __init__(self):
        self.acc = 0
        self.n = 0
    def put(self, value, nbits):
        assert 0 <= value < (1 << nbits) or nbits == 0 and value == 0, (value, nbits)
        self.acc |= value << self.n
        self.n += nbits
    def tobytes(self):
        return self.acc.to_bytes((self.n + 7) // 8, 'little')

class BackwardBits:
    """A bitstream that the decoder reads *backward* (FSE / Huffman streams).

    The caller records the fields in the order the DECODER will read them;
    tobytes() writes them forward in reverse order and appends the final 1-bit
    followed by zero padding, exactly as described in the specification."""
    def __init__(self):
        self.reads = []
    def read(self, value, nbits):
        assert 0 <= value < (1 << nbits) or (nbits == 0 and value == 0), (value, nbits)
        if nbits:
            self.reads.append((value, nbits))
    def nbits(self):
        return sum(n for _, n in self.reads)
    def tobytes(self):
        f = ForwardBits()
        for value, nbits in reversed(self.reads):
            f.put(value, nbits)
        f.put(1, 1)                       # final-bit-flag, then 0-7 zero bits
        return f.tobytes()

# --------------------------------------------------------------------------
# FSE : table description (normalized counts) writer
# --------------------------------------------------------------------------
def fse_write_table_description(norm, accuracy_log, zero_style='chain'):
    """Spec 'FSE Table Description'.  norm[s] is the probability of symbol s
    (-1 means 'less than 1').  The last entry must be non-zero and the total
    (counting -1 as 1) must be 1 << accuracy_log.
    zero_style: 'chain' -> use the 2-bit repeat flags as the reference encoder does
                'split' -> after every zero probability emit repeat flag 0 and
                           encode the next zero as a regular Value 1 (valid, never
                           produced by the reference encoder)
                'pairs' -> use repeat flags of at most 1 (mix of both)"""
    assert 5 <= accuracy_log <= 15
    total = sum(abs(p) for p in norm)
    assert total == (1 << accuracy_log), (total, accuracy_log)
    assert norm[-1] != 0
    assert sum(1 for p in norm if p != 0) >= 2
    bw = ForwardBits()
    bw.put(accuracy_log - 5, 4)
    remaining = 1 << accuracy_log
    s = 0
    n = len(norm)
    while s < n:
        assert remaining > 0
        p = norm[s]
        value = p + 1
        bits = highbit(remaining + 1) + 1
        lower_mask = (1 << (bits - 1)) - 1
        threshold = (1 << bits) - 1 - (remaining + 1)
        assert 0 <= value <= remaining + 1
        if value < threshold:
            bw.put(value, bits - 1)
        elif value <= lower_mask:
            bw.put(value, bits)
        else:
            bw.put(value + threshold, bits)
        remaining -= abs(p)
        s += 1
        if p == 0:
            z = 0
            while s + z < n and norm[s + z] == 0:
                z += 1
            if zero_style == 'split':
                z = 0
            elif zero_style == 'pairs':
                z = min(z, 1)
            s += z
            while z >= 3:
                bw.put(3, 2)
                z -= 3
            bw.put(z, 2)
    assert remaining == 0
    return bw.tobytes()

# --------------------------------------------------------------------------
# FSE : from normalized distribution to decoding table, and the encoder that
# inverts that decoding table
# --------------------------------------------------------------------------
class FSETable:
    """Decoding table (Symbol, Number_of_Bits, Baseline per state) built per
    'From normalized distribution to decoding tables', plus the inverse mapping
    used for encoding."""
    def __init__(self, norm, accuracy_log):
        self.norm = list(norm)
        self.al = accuracy_log
        size = 1 << accuracy_log
        self.size = size
        sym = [None] * size
        high = size
        for s, p in enumerate(norm):               # "less than 1" symbols
            if p == -1:
                high -= 1
                sym[high] = s
        step = (size >> 1) + (size >> 3) + 3
        pos = 0
        for s, p in enumerate(norm):
            if p <= 0:
                continue
            for _ in range(p):
                sym[pos] = s
                pos = (pos + step) & (size - 1)
                while pos >= high:
                    pos = (pos + step) & (size - 1)
        assert pos == 0
        assert all(x is not None for x in sym)
        self.sym = sym
        self.nb = [0] * size
        self.base = [0] * size
        counter = {}
        for s, p in enumerate(norm):
            if p != 0:
                counter[s] = abs(p)
        for st in range(size):
            s = sym[st]
            x = counter[s]
            counter[s] += 1
            nb = accuracy_log - highbit(x)
            self.nb[st] = nb
            self.base[st] = (x << nb) - size
        self.states_of = collections.defaultdict(list)
        for st in range(size):
            self.states_of[sym[st]].append(st)

    @staticmethod
    def rle(symbol):
        t = FSETable.__new__(FSETable)
        t.norm = None; t.al = 0; t.size = 1
        t.sym = [symbol]; t.nb = [0]; t.base = [0]
        t.states_of = {symbol: [0]}
        return t

    def symbols(self):
        return sorted(self.states_of.keys())

    def final_state(self, symbol, pick=0, need_bits=False):
        """Any state decoding to `symbol` can be the last one (free choice).
        need_bits: only states whose Number_of_Bits is >= 1 (see huf_tree_fse)."""
        lst = self.states_of[symbol]
        if need_bits:
            lst = [st for st in lst if self.nb[st] >= 1]
        return lst[pick % len(lst)]

    def prev_state(self, symbol, next_state):
        """State `st` with Symbol==symbol whose [Baseline, Baseline+2^nb) range
        contains next_state; returns (st, bits_value, nb)."""
        for st in self.states_of[symbol]:
            b = self.base[st]
            if b <= next_state < b + (1 << self.nb[st]):
                return st, next_state - b, self.nb[st]
        raise AssertionError('no state for symbol %r' % symbol)

def fse_state_chain(table, symbols, pick=0, need_bits=False):
    """States (in decoding order) for a series of symbols decoded with ONE FSE
    state, and the (value, nbits) the decoder reads after each symbol but the last."""
    n = len(symbols)
    states = [0] * n
    updates = [None] * n
    states[n - 1] = table.final_state(symbols[n - 1], pick, need_bits)
    for i in range(n - 2, -1, -1):
        st, val, nb = table.prev_state(symbols[i], states[i + 1])
        states[i] = st
        updates[i] = (val, nb)
    return states, updates

def fse_normalize(counts, accuracy_log, minus_one=(), force=None):
    """Turn {symbol: count} into a normalized distribution list (index = symbol,
    up to the last present symbol).  Symbols in `minus_one` get probability -1.
    Every present symbol gets at least 1.  `force` = {symbol: probability}."""
    size = 1 << accuracy_log
    maxs = max(counts)
    norm = [0] * (maxs + 1)
    force = dict(force or {})
    for s in minus_one:
        force[s] = -1
    used = 0
    free = {}
    for s, c in counts.items():
        assert c > 0
        if s in force:
            norm[s] = force[s]
            used += abs(force[s])
        else:
            free[s] = c
    left = size - used
    assert left >= len(free), 'accuracy log too small'
    if free:
        tot = sum(free.values())
        given = 0
        for s, c in free.items():
            p = max(1, (c * left) // tot)
            norm[s] = p
            given += p
        # fix rounding on the most probable symbols
        order = sorted(free, key=lambda s: (-free[s], s))
        i = 0
        while given < left:
            norm[order[i % len(order)]] += 1; given += 1; i += 1
        i = 0
        while given > left:
            s = order[i % len(order)]
            if norm[s] > 1:
                norm[s] -= 1; given -= 1
            i += 1
    else:
        assert left == 0
    assert sum(abs(p) for p in norm) == size
    return norm

# --------------------------------------------------------------------------
# Huffman : weights, prefix codes, tree description, streams
# --------------------------------------------------------------------------
HUF_MAX_BITS = 11

def huf_check_weights(weights):
    """weights: full list (index = symbol, including the last present symbol).
    Returns Max_Number_of_Bits after checking everything the spec requires."""
    assert 2 <= len(weights) <= 256
    assert weights[-1] != 0, 'last symbol must be present'
    assert sum(1 for w in weights if w) >= 2
    total = sum((1 << (w - 1)) for w in weights if w)
    assert total & (total - 1) == 0, 'weights must sum to a power of 2'
    max_bits = highbit(total)
    assert 1 <= max_bits <= HUF_MAX_BITS, max_bits
    assert any(w == 1 for w in weights)
    # the last weight must be the one deduced by "completing to the nearest power of 2"
    partial = total - (1 << (weights[-1] - 1))
    assert partial > 0 and highbit(partial) + 1 == max_bits, 'implicit last weight would be mis-deduced'
    return max_bits

def huf_codes_from_weights(weights):
    """'Conversion from weights to Huffman prefix codes': symbols sorted by
    weight then natural order, codes assigned in ascending order starting from
    the lowest weight (= longest codes).  Returns {symbol: (code, nbits)}."""
    max_bits = huf_check_weights(weights)
    codes = {}
    position = 0                     # position in a table of 1 << max_bits cells
    for w in range(1, max_bits + 1):
        nbits = max_bits + 1 - w
        for s, ws in enumerate(weights):
            if ws == w:
                codes[s] = (position >> (max_bits - nbits), nbits)
                position += 1 << (w - 1)
    assert position == 1 << max_bits
    return codes

def huf_weights_from_freqs(freqs, max_bits=HUF_MAX_BITS):
    """Length-limited Huffman code from {symbol: frequency}; returns the full
    weights list.  (Plain Huffman, then depth clamped and the Kraft sum repaired.)"""
    import heapq
    syms = sorted(freqs)
    assert len(syms) >= 2
    heap = [(freqs[s], i, (s,)) for i, s in enumerate(syms)]
    heapq.heapify(heap)
    length = {s: 0 for s in syms}
    uid = len(heap)
    while len(heap) > 1:
        a = heapq.heappop(heap); b = heapq.heappop(heap)
        for s in a[2] + b[2]:
            length[s] += 1
        heapq.heappush(heap, (a[0] + b[0], uid, a[2] + b[2])); uid += 1
    L = max_bits
    for s in syms:
        length[s] = min(length[s], L)
    kraft = sum(1 << (L - length[s]) for s in syms)
    full = 1 << L
    while kraft > full:                      # too many short codes: lengthen the deepest non-max one
        cand = [s for s in syms if length[s] < L]
        s = max(cand, key=lambda s: (length[s], -freqs[s]))
        kraft -= 1 << (L - length[s] - 1)
        length[s] += 1
    while kraft < full:                      # room left: shorten where it fits
        done = False
        for s in sorted(syms, key=lambda s: (-length[s], -freqs[s])):
            gain = 1 << (L - length[s])
            if length[s] > 1 and kraft + gain <= full:
                length[s] -= 1; kraft += gain; done = True
                break
        assert done
    depth = max(length.values())
    weights = [0] * (max(syms) + 1)
    for s in syms:
        weights[s] = depth + 1 - length[s]
    huf_check_weights(weights)
    return weights

def huf_tree_direct(weights):
    """'Huffman Tree header', headerByte >= 128 : 4-bit weights, last one implicit."""
    huf_check_weights(weights)
    w = weights[:-1]
    assert 1 <= len(w) <= 128, 'direct representation limited to 128 weights'
    out = bytearray([127 + len(w)])
    for i in range(0, len(w), 2):
        lo = w[i + 1] if i + 1 < len(w) else 0
        out.append((w[i] << 4) | lo)
    return bytes(out)

def huf_tree_fse(weights, accuracy_log=None, minus_one=(), zero_style='chain', pick=0, norm=None):
    """'FSE compression of Huffman weights' : 2 interleaved states sharing one
    table, State1 decodes even-indexed weights, State2 odd-indexed ones."""
    huf_check_weights(weights)
    w = weights[:-1]
    assert len(w) >= 2, 'cannot encode fewer than 2 weights in this mode'
    counts = collections.Counter(w)
    assert len(counts) >= 2, 'FSE needs two symbols with non-zero probability'
    if norm is None:
        if accuracy_log is None:
            accuracy_log = 6 if len(w) > 40 else 5
        norm = fse_normalize(counts, accuracy_log, minus_one=minus_one)
    else:
        assert accuracy_log is not None
    assert accuracy_log <= 6, 'max accuracy log for Huffman weights is 6'
    table = FSETable(norm, accuracy_log)
    desc = fse_write_table_description(norm, accuracy_log, zero_style)
    even, odd = w[0::2], w[1::2]
    # The decoder detects the end of the weights by bitstream overflow: after the
    # last real bit it decodes one more symbol (weight N-2), tries to update that
    # state, overflows, and emits the symbol of the other state (weight N-1).  The
    # final state of weight N-2 must therefore consume at least 1 bit, otherwise no
    # overflow happens there and the decoder would produce extra weights.
    n2_is_even = (len(w) - 2) % 2 == 0
    st1, up1 = fse_state_chain(table, even, pick, need_bits=n2_is_even)
    st2, up2 = fse_state_chain(table, odd, pick, need_bits=not n2_is_even)
    bs = BackwardBits()
    bs.read(st1[0], accuracy_log)
    bs.read(st2[0], accuracy_log)
    for i in range(len(w) - 2):                   # the last two symbols are the final states
        val, nb = (up1 if i % 2 == 0 else up2)[i // 2]
        bs.read(val, nb)
    body = desc + bs.tobytes()
    assert len(body) < 128, 'FSE-compressed weights must fit in 127 bytes'
    return bytes([len(body)]) + body

def huf_encode_stream(data, codes):
    """'Huffman-coded Streams' : one backward bitstream."""
    bs = BackwardBits()
    for b in data:
        code, nbits = codes[b]
        bs.read(code, nbits)
    return bs.tobytes()

def huf_encode_4streams(data, codes):
    """'Jump Table' + 4 streams; first three regenerate (n+3)/4 bytes each."""
    n = len(data)
    assert n >= 6
    seg = (n + 3) // 4
    parts = [data[0:seg], data[seg:2 * seg], data[2 * seg:3 * seg], data[3 * seg:]]
    assert 3 * seg <= n
    streams = [huf_encode_stream(p, codes) for p in parts]
    for s in streams[:3]:
        assert len(s) < 65536
    return b''.join(le(len(s), 2) for s in streams[:3]) + b''.join(streams)

# --------------------------------------------------------------------------
# Literals section
# --------------------------------------------------------------------------
def literals_header_raw_rle(block_type, regen, size_format=None):
    """Literals_Section_Header for Raw (0) / RLE (1).  size_format: None=smallest,
    else number of header bytes (1, 2 or 3)."""
    if size_format is None:
        size_format = 1 if regen < 32 else 2 if regen < 4096 else 3
    if size_format == 1:
        assert regen < 32
        return bytes([block_type | (regen << 3)])          # Size_Format bit = 0
    if size_format == 2:
        assert regen < 4096
        return le(block_type | (1 << 2) | (regen << 4), 2)
    assert size_format == 3 and regen < (1 << 20)
    return le(block_type | (3 << 2) | (regen << 4), 3)

def literals_header_compressed(block_type, regen, comp, streams, size_format=None):
    """Literals_Section_Header for Compressed (2) / Treeless (3).  size_format is
    the 2-bit Size_Format value (0: 1 stream; 1,2,3: 4 streams with 10/14/18-bit sizes)."""
    if size_format is None:
        if streams == 1:
            size_format = 0
        else:
            size_format = 1 if max(regen, comp) < 1024 else 2 if max(regen, comp) < 16384 else 3
    assert (size_format == 0) == (streams == 1)
    bits = {0: 10, 1: 10, 2: 14, 3: 18}[size_format]
    assert regen < (1 << bits) and comp < (1 << bits), (regen, comp, bits)
    v = block_type | (size_format << 2) | (regen << 4) | (comp << (4 + bits))
    return le(v, {0: 3, 1: 3, 2: 4, 3: 5}[size_format])

def literals_section(lits, spec, prev_weights):
    """Build a Literals_Section for bytes `lits`.  spec keys:
       type: 'raw' | 'rle' | 'huf' | 'treeless'
       size_format: see the two header functions (None = smallest)
       streams: 1 | 4                         (huf / treeless)
       tree: 'direct' | 'fse'                 (huf)
       weights: explicit full weights list    (huf, optional)
       fse: dict of keyword args for huf_tree_fse (optional)
    Returns (bytes, weights_in_effect_after_this_block)."""
    t = spec.get('type', 'raw')
    sf = spec.get('size_format')
    if t == 'raw':
        return literals_header_raw_rle(0, len(lits), sf) + bytes(lits), prev_weights
    if t == 'rle':
        assert len(lits) >= 1 and len(set(lits)) == 1
        return literals_header_raw_rle(1, len(lits), sf) + bytes(lits[:1]), prev_weights
    streams = spec.get('streams', 1)
    if t == 'huf':
        weights = spec.get('weights')
        if weights is None:
            freqs = collections.Counter(lits)
            for s in spec.get('extra_symbols', ()):
                freqs.setdefault(s, 1)
            weights = huf_weights_from_freqs(freqs, spec.get('max_bits', HUF_MAX_BITS))
        if spec.get('tree', 'direct') == 'direct':
            tree = huf_tree_direct(weights)
        else:
            tree = huf_tree_fse(weights, **spec.get('fse', {}))
        btype = 2
    else:
        assert t == 'treeless' and prev_weights is not None
        weights = prev_weights
        tree = b''
        btype = 3
    codes = huf_codes_from_weights(weights)
    for b in set(lits):
        assert b in codes, 'literal %d has no code' % b
    body = huf_encode_stream(lits, codes) if streams == 1 else huf_encode_4streams(lits, codes)
    comp = len(tree) + len(body)
    return literals_header_compressed(btype, len(lits), comp, streams, sf) + tree + body, weights

# --------------------------------------------------------------------------
# Sequences section : codes for literals lengths, match lengths, offsets
# --------------------------------------------------------------------------
LL_BASE = [0, 1, 2, 3, 4, 5, 6, 7, 8, 9, 10, 11, 12, 13, 14, 15, 16, 18, 20, 22, 24, 28, 32, 40,
           48, 64, 128, 256, 512, 1024, 2048, 4096, 8192, 16384, 32768, 65536]
LL_BITS = [0] * 16 + [1, 1, 1, 1, 2, 2, 3, 3, 4, 6, 7, 8, 9, 10, 11, 12, 13, 14, 15, 16]
ML_BASE = list(range(3, 35)) + [35, 37, 39, 41, 43, 47, 51, 59, 67, 83, 99, 131, 259, 515, 1027,
                                2051, 4099, 8195, 16387, 32771, 65539]
ML_BITS = [0] * 32 + [1, 1, 1, 1, 2, 2, 3, 3, 4, 4, 5, 7, 8, 9, 10, 11, 12, 13, 14, 15, 16]
assert len(LL_BASE) == len(LL_BITS) == 36 and len(ML_BASE) == len(ML_BITS) == 53

LL_DEFAULT = ([4, 3, 2, 2, 2, 2, 2, 2, 2, 2, 2, 2, 2, 1, 1, 1, 2, 2, 2, 2, 2, 2, 2, 2, 2, 3, 2, 1, 1, 1, 1, 1,
               -1, -1, -1, -1], 6)
ML_DEFAULT = ([1, 4, 3, 2, 2, 2, 2, 2, 2] + [1] * 37 + [-1] * 7, 6)
OF_DEFAULT = ([1, 1, 1, 1, 1, 1, 2, 2, 2] + [1] * 15 + [-1] * 5, 5)
assert len(ML_DEFAULT[0]) == 53 and len(OF_DEFAULT[0]) == 29
MAX_AL = {'ll': 9, 'of': 8, 'ml': 9}
MAX_SYMBOL = {'ll': 35, 'of': 31, 'ml': 52}
DEFAULTS = {'ll': LL_DEFAULT, 'of': OF_DEFAULT, 'ml': ML_DEFAULT}
_default_tables = {}
def default_table(kind):
    if kind not in _default_tables:
        _default_tables[kind] = FSETable(*DEFAULTS[kind])
    return _default_tables[kind]

def ll_code(v):
    assert 0 <= v <= 131071
    c = 35
    while LL_BASE[c] > v:
        c -= 1
    return c, v - LL_BASE[c], LL_BITS[c]

def ml_code(v):
    assert 3 <= v <= 131074
    c = 52
    while ML_BASE[c] > v:
        c -= 1
    return c, v - ML_BASE[c], ML_BITS[c]

def of_code(offset_value):
    assert offset_value >= 1
    c = highbit(offset_value)
    return c, offset_value - (1 << c), c

def number_of_sequences(n, form=None):
    """'Number_of_Sequences' : form = 1, 2 or 3 bytes (None = smallest)."""
    if form is None:
        form = 1 if n < 128 else 2 if n < 0x7F00 else 3
    if form == 1:
        assert n < 128
        return bytes([n])
    if form == 2:
        assert n < 0x7F00
        return bytes([0x80 + (n >> 8), n & 0xFF])
    assert form == 3 and 0x7F00 <= n <= 0x7F00 + 0xFFFF
    return b'\xFF' + le(n - 0x7F00, 2)

MODE_ID = {'predef': 0, 'rle': 1, 'fse': 2, 'repeat': 3}

def sequences_section(seqs, modes, prev_tables, nbseq_form=None, pick=0):
    """Build a Sequences_Section.
    seqs  : list of (literals_length, match_length, offset_value)
    modes : {'ll': m, 'of': m, 'ml': m} with m one of
              ('predef',) ('rle',) ('repeat',)
              ('fse', {al:, norm:, minus_one:, extra:, zero_style:})   all keys optional
    prev_tables : {'ll','of','ml'} -> FSETable from the previous block / dictionary, or None
    Returns (bytes, tables_in_effect)  (tables unchanged when there are 0 sequences)."""
    out = bytearray(number_of_sequences(len(seqs), nbseq_form))
    if not seqs:
        return bytes(out), prev_tables
    codes = {'ll': [], 'of': [], 'ml': []}
    extra = []
    for (ll, ml, ofv) in seqs:
        lc, lx, ln = ll_code(ll)
        mc, mx, mn = ml_code(ml)
        oc, ox, on = of_code(ofv)
        codes['ll'].append(lc); codes['ml'].append(mc); codes['of'].append(oc)
        extra.append(((ox, on), (mx, mn), (lx, ln)))
    mode_byte = 0
    tables = {}
    descs = {}
    for kind, shift in (('ll', 6), ('of', 4), ('ml', 2)):
        m = modes.get(kind, ('predef',))
        mode_byte |= MODE_ID[m[0]] << shift
        used = set(codes[kind])
        if m[0] == 'predef':
            tables[kind] = default_table(kind); descs[kind] = b''
        elif m[0] == 'rle':
            assert len(used) == 1, '%s RLE mode needs a single code, got %r' % (kind, used)
            sym = codes[kind][0]
            assert sym <= MAX_SYMBOL[kind]
            tables[kind] = FSETable.rle(sym); descs[kind] = bytes([sym])
        elif m[0] == 'repeat':
            assert prev_tables is not None and prev_tables.get(kind) is not None, 'nothing to repeat'
            tables[kind] = prev_tables[kind]; descs[kind] = b''
        else:
            o = m[1] if len(m) > 1 else {}
            al = o.get('al', 6 if kind != 'of' else 5)
            assert 5 <= al <= MAX_AL[kind]
            norm = o.get('norm')
            if norm is None:
                cnt = collections.Counter(codes[kind])
                for s in o.get('extra', ()):
                    cnt.setdefault(s, 1)
                if len(cnt) < 2:                       # FSE mode needs >= 2 symbols
                    filler = 0 if 0 not in cnt else 1
                    cnt[filler] = 1
                norm = fse_normalize(cnt, al, minus_one=o.get('minus_one', ()), force=o.get('force'))
            assert len(norm) - 1 <= MAX_SYMBOL[kind]
            tables[kind] = FSETable(norm, al)
            descs[kind] = fse_write_table_description(norm, al, o.get('zero_style', 'chain'))
        for c in used:
            assert c in tables[kind].states_of, '%s code %d not in table' % (kind, c)
    out.append(mode_byte)
    out += descs['ll'] + descs['of'] + descs['ml']
    # --- bitstream, recorded in decoding order ---
    chains = {k: fse_state_chain(tables[k], codes[k], pick) for k in ('ll', 'of', 'ml')}
    bs = BackwardBits()
    for k in ('ll', 'of', 'ml'):                     # starting states: LL, OF, ML
        bs.read(chains[k][0][0], tables[k].al)
    n = len(seqs)
    for i in range(n):
        for (val, nb) in extra[i]:                   # extra bits: Offset, Match_Length, Literals_Length
            bs.read(val, nb)
        if i != n - 1:                               # state updates: LL, ML, OF
            for k in ('ll', 'ml', 'of'):
                val, nb = chains[k][1][i]
                bs.read(val, nb)
    out += bs.tobytes()
    return bytes(out), tables

# --------------------------------------------------------------------------
# Sequence execution model (computes the expected content)
# --------------------------------------------------------------------------
def resolve_offset(rep, ll, ofv):
    """'Repeat offsets' : turn an Offset_Value into an offset and update the
    3-entry history `rep` in place."""
    if ofv > 3:
        off = ofv - 3
        rep[:] = [off, rep[0], rep[1]]
        return off
    idx = ofv - 1 + (1 if ll == 0 else 0)
    if idx == 0:
        return rep[0]
    if idx == 1:
        off = rep[1]; rep[:] = [off, rep[0], rep[2]]
    elif idx == 2:
        off = rep[2]; rep[:] = [off, rep[0], rep[1]]
    else:
        off = rep[0] - 1
        assert off != 0, 'Repeated_Offset1 - 1 == 0 is corruption'
        rep[:] = [off, rep[0], rep[1]]
    return off

def execute_sequences(history, lits, seqs, rep):
    """Append the block's regenerated data to bytearray `history`; updates list
    `rep` in place.  Returns list of (offset, position_in_history_at_match_start, match_length)."""
    lp = 0
    info = []
    for (ll, ml, ofv) in seqs:
        assert lp + ll <= len(lits), 'sequence consumes more literals than available'
        history += lits[lp:lp + ll]
        lp += ll
        off = resolve_offset(rep, ll, ofv)
        pos = len(history)
        assert 1 <= off <= pos, 'offset %d beyond history %d' % (off, pos)
        info.append((off, pos, ml))
        if off >= ml:
            history += history[pos - off:pos - off + ml]
        else:                                         # overlapping match
            chunk = bytes(history[pos - off:pos])
            history += (chunk * (ml // off + 1))[:ml]
    history += lits[lp:]
    return info

# --------------------------------------------------------------------------
# Blocks and frames
# --------------------------------------------------------------------------
ZSTD_MAGIC = 0xFD2FB528
DICT_MAGIC = 0xEC30A437
BLOCK_MAX = 128 * 1024

def block_header(last, btype, size):
    assert 0 <= size < (1 << 21)
    return le((1 if last else 0) | (btype << 1) | (size << 3), 3)

def window_descriptor(exponent, mantissa):
    assert 0 <= exponent <= 31 and 0 <= mantissa <= 7
    base = 1 << (10 + exponent)
    return (exponent << 3) | mantissa, base + (base // 8) * mantissa

def frame_header(content_size, fcs_bytes, single_segment, wd_byte, dict_id, did_bytes, checksum, unused_bit=False):
    """'Frame_Header' (without the magic)."""
    if single_segment:
        assert fcs_bytes in (1, 2, 4, 8) and wd_byte is None
    else:
        assert fcs_bytes in (0, 2, 4, 8) and wd_byte is not None
    fcs_flag = {0: 0, 1: 0, 2: 1, 4: 2, 8: 3}[fcs_bytes]
    did_flag = {0: 0, 1: 1, 2: 2, 4: 3}[did_bytes]
    fhd = (fcs_flag << 6) | ((1 if single_segment else 0) << 5) | ((1 if checksum else 0) << 2) | did_flag
    if unused_bit:                      # 'Unused_bit': a decoder shall not interpret it
        fhd |= 1 << 4
    out = bytearray([fhd])
    if not single_segment:
        out.append(wd_byte)
    if did_bytes:
        assert 0 <= dict_id < (1 << (8 * did_bytes))
        out += le(dict_id, did_bytes)
    if fcs_bytes == 2:
        assert 256 <= content_size <= 65791
        out += le(content_size - 256, 2)
    elif fcs_bytes:
        assert content_size < (1 << (8 * fcs_bytes))
        out += le(content_size, fcs_bytes)
    return bytes(out)

def skippable_frame(variant, data):
    """'Skippable Frames' : magic 0x184D2A50 + variant (0..15)."""
    assert 0 <= variant <= 15
    return le(0x184D2A50 + variant, 4) + le(len(data), 4) + bytes(data)

class ParsedDict:
    """What a frame needs to know about its dictionary."""
    def __init__(self, raw, content, dict_id=0, weights=None, tables=None, rep=None):
        self.raw = bytes(raw)            # the dictionary file itself
        self.content = bytes(content)
        self.dict_id = dict_id           # 0 for raw-content dictionaries
        self.weights = weights           # Huffman weights (full list) or None
        self.tables = tables             # {'ll','of','ml'} -> FSETable or None
        self.rep = rep                   # 3 repeat offsets or None

class Frame:
    """Accumulates blocks and the decoding state that is carried from block to
    block (history, repeat offsets, previous Huffman tree, previous FSE tables)."""
    def __init__(self, dictionary=None):
        self.dict = dictionary
        self.dict_len = len(dictionary.content) if dictionary else 0
        self.history = bytearray(dictionary.content) if dictionary else bytearray()
        self.rep = list(dictionary.rep) if dictionary and dictionary.rep else [1, 4, 8]
        self.weights = dictionary.weights if dictionary else None
        self.tables = dict(dictionary.tables) if dictionary and dictionary.tables else None
        self.blocks = []                 # (type, size_field, payload, regenerated)
        self.matches = []                # (offset, output_pos_at_match_start, match_length)

    def produced(self):
        return len(self.history) - self.dict_len

    def content(self):
        return bytes(self.history[self.dict_len:])

    def raw(self, data):
        self.blocks.append((0, len(data), bytes(data), len(data)))
        self.history += data
        return self

    def rle(self, byte, count):
        self.blocks.append((1, count, bytes([byte]), count))
        self.history += bytes([byte]) * count
        return self

    def compressed(self, lits, seqs=(), lit=None, modes=None, nbseq_form=None, pick=0):
        lit = lit or {'type': 'raw'}
        modes = modes or {}
        lsec, self.weights = literals_section(bytes(lits), lit, self.weights)
        ssec, self.tables = sequences_section(list(seqs), modes, self.tables, nbseq_form, pick)
        before = len(self.history)
        info = execute_sequences(self.history, bytes(lits), list(seqs), self.rep)
        for off, pos, ml in info:
            self.matches.append((off, pos - self.dict_len, ml))
        payload = lsec + ssec
        self.blocks.append((2, len(payload), payload, len(self.history) - before))
        return self

    def serialize(self, window=None, fcs_bytes=None, checksum=False, dict_id=None, did_bytes=None, unused_bit=False):
        """window: None -> Single_Segment; else (exponent, mantissa).
        fcs_bytes: None -> smallest legal for single segment / absent otherwise."""
        content = self.content()
        n = len(content)
        single = window is None
        if single:
            wd_byte, wsize = None, n
            if fcs_bytes is None:
                fcs_bytes = 1 if n < 256 else 2 if n <= 65791 else 4
        else:
            wd_byte, wsize = window_descriptor(*window)
            if fcs_bytes is None:
                fcs_bytes = 0
        if dict_id is None:
            dict_id = self.dict.dict_id if self.dict else 0
        if did_bytes is None:
            did_bytes = 0 if dict_id == 0 else 1 if dict_id < 256 else 2 if dict_id < 65536 else 4
        # ---- validity checks against the chosen window ----
        bmax = min(wsize, BLOCK_MAX)
        assert self.blocks, 'a frame needs at least one block'
        for (t, size, payload, regen) in self.blocks:
            assert size <= bmax, 'Block_Size %d > Block_Maximum_Size %d' % (size, bmax)
            assert regen <= bmax, 'regenerated size %d > Block_Maximum_Size %d' % (regen, bmax)
        for (off, pos, ml) in self.matches:
            if off > pos:
                assert self.dict_len and off <= pos + self.dict_len
                assert pos <= wsize, 'dictionary no longer reachable'
            else:
                assert off <= wsize, 'offset %d > window %d' % (off, wsize)
        out = bytearray(le(ZSTD_MAGIC, 4))
        out += frame_header(n, fcs_bytes, single, wd_byte, dict_id, did_bytes, checksum, unused_bit)
        for i, (t, size, payload, regen) in enumerate(self.blocks):
            out += block_header(i == len(self.blocks) - 1, t, size) + payload
        if checksum:
            out += le(xxh64(content) & 0xFFFFFFFF, 4)
        return bytes(out)

# --------------------------------------------------------------------------
# Dictionary format
# --------------------------------------------------------------------------
def build_dictionary(dict_id, weights, of, ml, ll, rep, content, tree='auto', fse=None):
    """'Dictionary Format' : magic, Dictionary_ID, Huffman table, OF, ML, LL FSE
    tables, 3 repeat offsets, content.  of/ml/ll = (norm, accuracy_log[, zero_style]).
    No validation of `rep` here: invalid dictionaries are built on purpose by dictgen."""
    assert dict_id != 0
    out = bytearray(le(DICT_MAGIC, 4) + le(dict_id, 4))
    if tree == 'auto':
        tree = 'direct' if len(weights) <= 129 else 'fse'
    out += huf_tree_direct(weights) if tree == 'direct' else huf_tree_fse(weights, **(fse or {}))
    tables = {}
    for kind, spec in (('of', of), ('ml', ml), ('ll', ll)):
        norm, al = spec[0], spec[1]
        style = spec[2] if len(spec) > 2 else 'chain'
        assert 5 <= al <= MAX_AL[kind] and len(norm) - 1 <= MAX_SYMBOL[kind]
        out += fse_write_table_description(norm, al, style)
        tables[kind] = FSETable(norm, al)
    for r in rep:
        out += le(r, 4)
    out += bytes(content)
    return ParsedDict(bytes(out), content, dict_id, list(weights), tables, list(rep))

def raw_content_dictionary(content):
    assert len(content) >= 8 and content[:4] != le(DICT_MAGIC, 4)
    return ParsedDict(content, content)

# --------------------------------------------------------------------------
# Catalogue
# --------------------------------------------------------------------------
class Catalogue:
    def __init__(self):
        self.records = []
        self.names = set()
        self.per_category = collections.OrderedDict()
    def add(self, category, name, frame, content, dictionary=None):
        full = category + ' ' + name
        assert full not in self.names, 'duplicate record name ' + full
        full.encode('ascii')
        self.names.add(full)
        d = dictionary.raw if dictionary is not None else b''
        self.records.append((full, bytes(frame), bytes(content), d))
        self.per_category[category] = self.per_category.get(category, 0) + 1
    def add_frame(self, category, name, fr, **hdr):
        """serialize a Frame object and add it"""
        self.add(category, name, fr.serialize(**hdr), fr.content(), fr.dict)
    def write(self, path):
        with open(path, 'wb') as f:
            for name, frame, content, d in self.records:
                nb = name.encode('ascii')
                f.write(le(len(nb), 4) + nb + le(len(frame), 4) + frame +
                        le(len(content), 4) + content + le(len(d), 4) + d)

TEXT_ALPHABET = b'etaoin shrdlucmfwypvbgkqjxz,.ETAOIN'

def sample_text(rng, n):
    return rng.skewed(n, TEXT_ALPHABET)

W1K = (0, 0)          # Window_Descriptor exponent 0 mantissa 0 : 1 KiB
W128K = (7, 0)

def base_block(fr, rng, nlit=40, **kw):
    """The base compressed block: some literals, 3 sequences (new offset, repeat
    offset, overlapping match), predefined tables, raw literals."""
    lits = sample_text(rng, nlit)
    seqs = [(10, 6, 7 + 3), (8, 4, 1), (5, 12, 3 + 3)]
    return fr.compressed(lits, seqs, **kw)

# ---- A. frame headers ------------------------------------------------------
def gen_headers(cat, rng, thorough):
    C = 'hdr'
    # Frame_Content_Size widths at each threshold
    for n in (0, 1, 255, 256, 65791, 65792):
        for single in (True, False):
            widths = [w for w in ((1, 2, 4, 8) if single else (0, 2, 4, 8))
                      if (w != 1 or n <= 255) and (w != 2 or 256 <= n <= 65791)]
            for w in widths:
                for cks in (False, True):
                    fr = Frame()
                    if n == 0:
                        fr.raw(b'')
                    elif single or n <= 1024:
                        fr.rle(0x41 + n % 7, n)
                    else:
                        left = n
                        while left:
                            k = min(left, 50000); fr.rle(0x61 + left % 5, k); left -= k
                    window = None if single else (W1K if n <= 1024 else W128K)
                    cat.add_frame(C, 'fcs=%d content=%d %s cks=%d' % (w, n, 'single' if single else 'window', cks),
                                  fr, window=window, fcs_bytes=w, checksum=cks)
    # small content represented in every wider compatible variant, with a compressed block
    for n, w in ((18, 4), (18, 8), (300, 4), (300, 8), (40, 1)):
        fr = Frame(); fr.compressed(sample_text(rng, 4), [(4, n - 4, 4 + 3)])
        cat.add_frame(C, 'fcs=%d content=%d single compressed-body' % (w, n), fr, fcs_bytes=w)
    # Dictionary_ID field present with value 0 ("same meaning as no Dictionary_ID")
    for did in (1, 2, 4):
        for single in (True, False):
            fr = Frame(); base_block(fr, rng)
            cat.add_frame(C, 'did_bytes=%d did=0 %s' % (did, 'single' if single else 'window'), fr,
                          window=None if single else W1K, did_bytes=did, dict_id=0, checksum=single)
    # Window_Descriptor: every exponent 0..13, mantissas 0,1,7
    for e in range(14):
        for m in (0, 1, 7):
            fr = Frame(); base_block(fr, rng)
            cat.add_frame(C, 'window exp=%d mant=%d' % (e, m), fr, window=(e, m), checksum=(e + m) % 2 == 1)
    if thorough:
        for e in range(14):
            for m in (2, 3, 4, 5, 6):
                fr = Frame(); fr.rle(e, 5).raw(bytes([m]))
                cat.add_frame(C, 'window exp=%d mant=%d rle+raw fcs4' % (e, m), fr, window=(e, m), fcs_bytes=4)
    # Unused_bit set ("a decoder compliant with this specification version shall not interpret this bit")
    for single in (True, False):
        fr = Frame(); base_block(fr, rng)
        cat.add_frame(C, 'Unused_bit=1 %s (decoder shall not interpret it)' % ('single' if single else 'window'), fr,
                      window=None if single else W1K, unused_bit=True, checksum=single)
    # checksum over every block type
    for body in ('raw', 'rle', 'compressed', 'empty'):
        fr = Frame()
        if body == 'raw': fr.raw(sample_text(rng, 33))
        elif body == 'rle': fr.rle(0x5A, 33)
        elif body == 'compressed': base_block(fr, rng)
        else: fr.raw(b'')
        cat.add_frame(C, 'checksum body=%s window' % body, fr, window=W1K, checksum=True)

    # checksum x content length x block split: every length 0..72 and the multiples of 32 up to 160, as one raw block and as two
    # blocks (raw+raw / raw+rle) cut at every position of the last 40 bytes - the checksum is fed block by block
    lens = list(range(0, 73)) + [95, 96, 97, 127, 128, 129, 160]
    for n in lens:
        data = sample_text(rng, n)
        fr = Frame(); fr.raw(data); cat.add_frame(C, 'cks len=%d one raw block' % n, fr, window=W1K, checksum=True)
        if n >= 2 and (n % 32 == 0 or n in (31, 33, 63, 65)):
            for cut in range(max(1, n - 40), n):
                fr = Frame(); fr.raw(data[:cut]).raw(data[cut:]); cat.add_frame(C, 'cks len=%d raw %d + raw %d' % (n, cut, n - cut), fr, window=W1K, checksum=True)
            fr = Frame(); fr.raw(data[:n - 32] if n > 32 else b'').rle(0x41, 32 if n >= 32 else n); cat.add_frame(C, 'cks len=%d raw + rle tail' % n, fr, window=W1K, checksum=True)

def gen_rawlit_tail(cat, rng, thorough):
    """last block = Raw literals + a sequences section of every small size (1..40 bytes), for each literals-header width and a
    set of last-literal-run lengths around the 16/32-byte copy granularity: a decoder that references raw literals in place
    must not read past the end of the input when the bytes following them are few"""
    C = 'rawtail'
    MLBYBITS = {0: 3, 1: 35, 2: 43, 3: 51, 4: 67, 5: 99, 7: 131, 8: 259, 9: 515, 11: 2051}
    seen = set()
    for lastll in (1, 15, 16, 17, 31, 32, 33, 48, 64, 65, 97):
        for sf in (None, 2, 3):
            for k in range(1, 17):
                for b1 in (0, 1, 2, 3, 4, 5, 7, 8, 9, 11):
                    for b2 in ((b1,) if not thorough else (b1, 0, 11)):
                        seqs = [(33 if i < k - 1 else lastll, MLBYBITS[b1 if i % 2 == 0 else b2], 1 + 3 if i == 0 else 1) for i in range(k)]
                        nl = sum(q[0] for q in seqs)
                        if sf == 2 and nl >= 4096: continue
                        lits = bytes((0x41 + (i * 7) % 53) for i in range(nl))
                        fr = Frame()
                        try:
                            fr.compressed(lits, seqs, lit={'type': 'raw', 'size_format': sf})
                        except AssertionError:
                            continue
                        payload = fr.blocks[-1][2]
                        lh = 3 if sf == 3 else (1 if (sf is None and nl < 32) else 2)
                        seqsec = len(payload) - lh - nl
                        key = (lastll, lh, seqsec)
                        if seqsec > 40 or key in seen: continue
                        seen.add(key)
                        cat.add_frame(C, 'lastll=%d lh=%d seqsec=%d k=%d' % (lastll, lh, seqsec, k), fr, window=(6, 0), checksum=False)

def gen_laps(cat, rng, thorough):
    """window 1 KiB, k run-length blocks of 1 KiB each (a streaming decoder's output ring of window + 2 blocks + 64 bytes goes round once, twice, three
    times), then one compressed block whose single match reaches back 1 / 700 / 1024 bytes: after several laps the retained history is still exactly the
    last window, for valid frames and (through the substitutions of C03) for offsets beyond it"""
    C = 'laps'
    for k in (3, 4, 6, 7, 9, 10):
        for off in (1, 700, 1023, 1024):
            fr = Frame()
            for b in range(k):
                fr.rle(0x30 + b, 1024)
            lits = bytes((0x61 + (i * 5) % 23) for i in range(24))
            try:
                fr.compressed(lits, [(8, 16, off + 3)], lit={'type': 'raw', 'size_format': None})
            except AssertionError:
                continue
            cat.add_frame(C, 'rle blocks=%d then match offset=%d' % (k, off), fr, window=W1K, checksum=False)

def gen_bit_pressure(cat, rng, thorough):
    """One sequence may carry up to 31 + 16 + 16 extra bits and its three state updates up to 9 + 9 + 8 more; a decoder that refills a 64-bit (or 32-bit)
    bit container between those reads has thresholds in between.  For every combination of (offset, match-length, literals-length) extra-bit counts out
    of a small grid - totals 9 .. 39 - a block of six such sequences, all extra bits set, with all three tables at their maximal accuracy and the used
    codes at probability 'less than one' (every state update reads the full table log) or, second variant, with the predefined tables."""
    C = 'bits'
    LLC = {0: 3, 4: 24, 8: 27, 10: 29, 11: 30, 12: 31}
    MLC = {0: 5, 4: 40, 8: 44, 9: 45, 10: 46, 11: 47}
    for ofb in (9, 13, 16):
        for mlb in sorted(MLC):
            for llb in sorted(LLC):
                if not thorough and (mlb in (4, 9) or llb in (4, 10)) and ofb != 16:
                    continue
                lc, mc = LLC[llb], MLC[mlb]
                ll = LL_BASE[lc] + (1 << LL_BITS[lc]) - 1 if LL_BITS[lc] else LL_BASE[lc]
                ml = ML_BASE[mc] + (1 << ML_BITS[mc]) - 1 if ML_BITS[mc] else ML_BASE[mc]
                ofv = (1 << ofb) + (1 << ofb) - 1                      # all extra bits set; offset = ofv - 3
                for variant in ('maxlog', 'predef'):
                    if variant == 'predef' and (lc > 35 or mc > 52 or ofb > 28):
                        continue
                    fr = Frame()
                    need = ofv + 16
                    while need > 0:
                        fr.rle(0x41 + (need % 7), min(need, 131072)); need -= 131072
                    nseq = 6
                    seqs = [(ll, ml, ofv)] * nseq
                    lits = b'q' * (ll * nseq + 5)
                    if variant == 'maxlog':
                        modes = {'ll': ('fse', {'al': 9, 'extra': [0 if lc != 0 else 1], 'minus_one': (lc,)}),
                                 'ml': ('fse', {'al': 9, 'extra': [0 if mc != 0 else 1], 'minus_one': (mc,)}),
                                 'of': ('fse', {'al': 8, 'extra': [0], 'minus_one': (ofb,)})}
                    else:
                        modes = {}
                    try:
                        fr.compressed(lits, seqs, lit={'type': 'rle'}, modes=modes)
                    except AssertionError:
                        continue
                    cat.add_frame(C, 'extra bits of=%d ml=%d ll=%d (total %d) x %d sequences, tables %s' % (ofb, mlb, llb, ofb + mlb + llb, nseq, variant), fr,
                                  window=window_for(fr.produced() + 16), checksum=False)

# ---- B. block lists ---------------------------------------------------------
def _add_block(fr, kind, rng, n=24):
    if kind == 'raw': fr.raw(sample_text(rng, n))
    elif kind == 'rle': fr.rle(0x30 + rng.below(10), n)
    else: base_block(fr, rng, nlit=n + 10)

def compressed_block_of_csize(fr, rng, target, with_seq):
    """compressed block (raw literals) whose Block_Size is exactly `target`"""
    for nlit in range(target - 12, target):
        probe = Frame(); probe.history = bytearray(fr.history); probe.dict_len = fr.dict_len
        lits = sample_text(LCG(nlit), nlit)
        seqs = [(nlit - 2, 5, 1 + 3)] if with_seq else []
        probe.compressed(lits, seqs, lit={'type': 'raw', 'size_format': 3})
        if probe.blocks[-1][1] == target:
            fr.compressed(lits, seqs, lit={'type': 'raw', 'size_format': 3})
            return
    raise AssertionError('cannot reach csize %d' % target)

def gen_blocks(cat, rng, thorough):
    C = 'blk'
    kinds = ('raw', 'rle', 'comp')
    import itertools
    for n in (1, 2, 3):
        for combo in itertools.product(kinds, repeat=n):
            fr = Frame()
            for k in combo:
                _add_block(fr, k, rng)
            cat.add_frame(C, 'list=' + '+'.join(combo), fr, window=W1K, checksum=(n == 2))
            if n <= 2:                                      # empty last raw block
                fr2 = Frame()
                for k in combo:
                    _add_block(fr2, k, rng)
                fr2.raw(b'')
                cat.add_frame(C, 'list=' + '+'.join(combo) + '+raw0(last)', fr2, window=W1K, checksum=True)
    fr = Frame(); fr.raw(b''); cat.add_frame(C, 'list=raw0 only window', fr, window=W1K)
    fr = Frame(); fr.raw(b''); cat.add_frame(C, 'list=raw0 only single fcs1', fr)
    fr = Frame(); fr.rle(0x77, 0); cat.add_frame(C, 'list=rle0 only window', fr, window=W1K)
    fr = Frame(); fr.rle(0x77, 0).raw(b'xyz').rle(0x78, 0); cat.add_frame(C, 'list=rle0+raw+rle0', fr, window=W1K, checksum=True)
    fr = Frame(); fr.raw(b'').raw(b'').raw(b'abc'); cat.add_frame(C, 'list=raw0+raw0+raw', fr, window=W1K)
    # compressed block with 0 sequences / with 0 literals and 0 sequences
    fr = Frame(); fr.compressed(sample_text(rng, 20), []); cat.add_frame(C, 'comp nbseq=0 lits=20 window', fr, window=W1K)
    fr = Frame(); fr.compressed(b'r' * 20, [], lit={'type': 'rle'}); cat.add_frame(C, 'comp nbseq=0 rle-lits=20 single', fr)
    fr = Frame(); fr.compressed(b'', []); cat.add_frame(C, 'comp nbseq=0 lits=0 only window', fr, window=W1K)
    fr = Frame(); fr.compressed(b'', []); cat.add_frame(C, 'comp nbseq=0 lits=0 only window cks', fr, window=W1K, checksum=True)
    for follow in kinds:
        fr = Frame(); fr.compressed(b'', []); _add_block(fr, follow, rng)
        cat.add_frame(C, 'comp nbseq=0 lits=0 then ' + follow, fr, window=W1K)
        fr = Frame(); _add_block(fr, follow, rng); fr.compressed(b'', []); _add_block(fr, follow, rng)
        cat.add_frame(C, follow + ' then comp nbseq=0 lits=0 then ' + follow, fr, window=W1K, checksum=True)
    for sf in (1, 2, 3):
        fr = Frame(); fr.compressed(b'', [], lit={'type': 'raw', 'size_format': sf}).raw(b'tail')
        cat.add_frame(C, 'comp nbseq=0 lits=0 litsizefmt=%d then raw' % sf, fr, window=W1K)
    # Block_Maximum_Size with a 1 KiB window (and single-segment content == block max)
    for n in (1024, 1023):
        fr = Frame(); fr.raw(sample_text(rng, n)); cat.add_frame(C, 'max1k raw regen=%d' % n, fr, window=W1K)
        fr = Frame(); fr.rle(0x11, n); cat.add_frame(C, 'max1k rle regen=%d' % n, fr, window=W1K)
        fr = Frame(); fr.rle(0x12, n).rle(0x13, n); cat.add_frame(C, 'max1k rle+rle regen=%d each' % n, fr, window=W1K)
        fr = Frame(); fr.compressed(sample_text(rng, n - 24), [(n - 24, 24, 9 + 3)])
        cat.add_frame(C, 'max1k comp regen=%d lits+match' % n, fr, window=W1K)
        fr = Frame(); fr.compressed(bytes([0x2A]) * n, [], lit={'type': 'rle'})
        cat.add_frame(C, 'max1k comp regen=%d rle-literals nbseq=0' % n, fr, window=W1K)
        fr = Frame(); fr.compressed(b'ab', [(2, n - 2, 2 + 3)])
        cat.add_frame(C, 'max1k comp regen=%d one long match' % n, fr, window=W1K)
        fr = Frame(); fr.compressed(b'ab', [(2, n - 2, 2 + 3)])
        cat.add_frame(C, 'max1k comp regen=%d one long match single' % n, fr)
        for ws in (False, True):
            fr = Frame(); compressed_block_of_csize(fr, rng, n, ws)
            cat.add_frame(C, 'max1k comp Block_Size=%d %s' % (n, 'nbseq=1' if ws else 'nbseq=0'), fr, window=W1K)
    fr = Frame(); fr.raw(sample_text(rng, 1024)).compressed(sample_text(rng, 1000), [(1000, 24, 1024 + 3)]).rle(1, 1024)
    cat.add_frame(C, 'max1k raw+comp+rle all regen=1024', fr, window=W1K, checksum=True)
    # Block_Maximum_Size = 128 KiB
    for n in (131072, 131071):
        fr = Frame(); fr.rle(0x21, n); cat.add_frame(C, 'max128k rle regen=%d' % n, fr, window=W128K)
        fr = Frame(); fr.rle(0x21, n); cat.add_frame(C, 'max128k rle regen=%d single' % n, fr)
        fr = Frame(); fr.rle(0x21, n).rle(0x22, 1); cat.add_frame(C, 'max128k rle regen=%d then rle 1' % n, fr, window=W128K)
        fr = Frame(); fr.raw(LCG(n).skewed(n, b'ab')); cat.add_frame(C, 'max128k raw regen=%d' % n, fr, window=W128K, checksum=True)
        fr = Frame(); fr.compressed(bytes([0x2B]) * n, [], lit={'type': 'rle'})
        cat.add_frame(C, 'max128k comp regen=%d rle-literals nbseq=0' % n, fr, window=W128K)
        fr = Frame(); fr.compressed(b'0123456789abcdef', [(16, n - 16, 16 + 3)])
        cat.add_frame(C, 'max128k comp regen=%d lits16+long match' % n, fr, window=W128K)
        fr = Frame(); compressed_block_of_csize(fr, rng, n, False)
        cat.add_frame(C, 'max128k comp Block_Size=%d raw-literals nbseq=0' % n, fr, window=W128K)
    fr = Frame(); compressed_block_of_csize(fr, rng, 131072, True)
    cat.add_frame(C, 'max128k comp Block_Size=131072 raw-literals nbseq=1', fr, window=W128K)
    # large window does not raise the block maximum: three full blocks in an 8 MiB window
    fr = Frame(); fr.rle(1, 131072).compressed(b'z', [(1, 131071, 1)]).rle(2, 131072)
    cat.add_frame(C, 'max128k window=8MiB rle+comp+rle all regen=131072', fr, window=(13, 0))

# ---- C. literals sections ---------------------------------------------------
W4K = (2, 0)
W16K = (4, 0)
W32K = (5, 0)

def window_for(n):
    """smallest power-of-two window (exponent, 0) holding n bytes"""
    e = 0
    while (1 << (10 + e)) < n:
        e += 1
    return (e, 0)

# hand-written Huffman trees (full weights lists)
def tree_depth11():
    """12 symbols with code lengths 1,2,...,10,11,11 : Max_Number_of_Bits = 11"""
    return [11, 10, 9, 8, 7, 6, 5, 4, 3, 2, 1, 1]

def tree_depth11_wide():
    """depth-11 tree with 64 symbols at 11 bits, and the short codes on high symbol values"""
    w = [1] * 64 + [0] * 20 + [7, 0, 8, 0, 9, 0, 10, 11]
    return w

def tree_two_symbols(a, b):
    w = [0] * (max(a, b) + 1)
    w[a] = 1; w[b] = 1
    return w

def tree_sparse():
    """many zero weights: only every 9th symbol up to 120 is present"""
    syms = list(range(3, 121, 9))                     # 14 symbols
    freqs = {s: 1 + (i * 7) % 13 for i, s in enumerate(syms)}
    return huf_weights_from_freqs(freqs)

def tree_with_255():
    freqs = {s: 40 - i for i, s in enumerate((32, 101, 116, 97, 200, 254, 255))}
    return huf_weights_from_freqs(freqs)

def tree_129_direct():
    """symbols 0..128 all present: 128 transmitted weights, the most a direct description can hold"""
    freqs = {s: 1 + (s * 37) % 50 for s in range(129)}
    return huf_weights_from_freqs(freqs)

def tree_256():
    freqs = {s: 1 + ((s * 73) % 97) ** 2 for s in range(256)}
    return huf_weights_from_freqs(freqs)

def literals_for_tree(rng, weights, n, cover=True):
    """n literal bytes using the symbols of a tree (each at least once if cover and room)"""
    syms = [s for s, w in enumerate(weights) if w]
    order = sorted(syms, key=lambda s: -weights[s])
    data = bytearray(rng.skewed(n, order))
    if cover:
        for i, s in enumerate(syms):
            if i < n:
                data[(i * 7919) % n if n > len(syms) * 2 else i] = s
    return bytes(data)

def gen_literals(cat, rng, thorough):
    C = 'lit'
    # Raw / RLE literals in the three size formats (also: small size in a larger format)
    for t in ('raw', 'rle'):
        for sf, sizes in ((1, (0, 1, 15, 16, 31)), (2, (0, 1, 27, 31, 32, 4095)), (3, (0, 1, 27, 4095, 4096, 70000))):
            for n in sizes:
                if t == 'rle' and n == 0:
                    continue
                lits = sample_text(rng, n) if t == 'raw' else bytes([0x40 + sf]) * n
                for nseq in (0, 1):
                    if nseq and n < 4:
                        continue
                    seqs = [(n // 2, 5, 2 + 3)] if nseq else []
                    fr = Frame(); fr.compressed(lits, seqs, lit={'type': t, 'size_format': sf})
                    cat.add_frame(C, 'lit=%s hdrbytes=%d size=%d nbseq=%d' % (t, sf, n, nseq), fr, window=window_for(n + 8))
    # Huffman-compressed: 1 stream / 4 streams x size formats x tree description kind
    for tree in ('direct', 'fse'):
        for streams, sf, sizes in ((1, 0, (1, 2, 5, 64, 300, 1023)),
                                   (4, 1, (6, 7, 8, 9, 10, 11, 64, 300, 1023)),
                                   (4, 2, (6, 64, 1023, 1024, 5000, 16383)),
                                   (4, 3, (6, 64, 1024, 16384, 40000))):
            for n in sizes:
                if n > 20000 and not (thorough or tree == 'fse'):
                    continue
                lits = sample_text(rng, n)
                fr = Frame()
                fr.compressed(lits, [], lit={'type': 'huf', 'streams': streams, 'size_format': sf, 'tree': tree,
                                             'extra_symbols': b'ab' if n < 3 else b''})
                cat.add_frame(C, 'lit=huf%d sizefmt=%d tree=%s size=%d nbseq=0' % (streams, sf, tree, n), fr,
                              window=window_for(n + 300))
                if n in (64, 1023, 5000):
                    fr = Frame()
                    fr.compressed(lits, [(10, 4, 3 + 3), (n // 2, 9, 1)],
                                  lit={'type': 'huf', 'streams': streams, 'size_format': sf, 'tree': tree})
                    cat.add_frame(C, 'lit=huf%d sizefmt=%d tree=%s size=%d nbseq=2' % (streams, sf, tree, n), fr,
                                  window=window_for(n + 300))
    # Special trees
    trees = [('depth11', tree_depth11()), ('depth11wide', tree_depth11_wide()),
             ('2sym(0,1)', tree_two_symbols(0, 1)), ('2sym(97,98)', tree_two_symbols(97, 98)),
             ('2sym(0,255)', tree_two_symbols(0, 255)), ('2sym(254,255)', tree_two_symbols(254, 255)),
             ('2sym(0,128)', tree_two_symbols(0, 128)),
             ('sparse', tree_sparse()), ('sym255', tree_with_255()), ('129syms', tree_129_direct()),
             ('256syms', tree_256())]
    for tname, w in trees:
        kinds = []
        if len(w) <= 129:
            kinds.append(('direct', {}))
        if len(set(w[:-1])) >= 2 and len(w) >= 3:
            kinds.append(('fse', {}))
            kinds.append(('fse', {'accuracy_log': 6}))
        for tk, fse in kinds:
            for streams in (1, 4):
                n = 400 if len(w) > 100 else 120
                lits = literals_for_tree(rng, w, n)
                fr = Frame()
                fr.compressed(lits, [(20, 5, 11 + 3)], lit={'type': 'huf', 'streams': streams, 'tree': tk, 'weights': w, 'fse': fse})
                cat.add_frame(C, 'lit=huf%d tree=%s%s %s size=%d' % (streams, tk, ('(al=%d)' % fse['accuracy_log']) if fse else '', tname, n),
                              fr, window=W1K)
    # FSE-compressed weights: "less than 1" probabilities, zero-run styles, final-state choice
    w = tree_with_255()
    lits = literals_for_tree(rng, w, 100)
    for style in ('chain', 'split', 'pairs'):
        for pick in (0, 1, 5):
            fr = Frame(); fr.compressed(lits, [], lit={'type': 'huf', 'tree': 'fse', 'weights': w, 'fse': {'zero_style': style, 'pick': pick}})
            cat.add_frame(C, 'lit=huf1 tree=fse sym255 weights-fse zero=%s finalstate=%d' % (style, pick), fr, window=W1K)
    w = tree_depth11()
    lits = literals_for_tree(rng, w, 90)
    for al in (5, 6):
        cnt = collections.Counter(w[:-1])
        rare = [s for s in cnt if cnt[s] == 1][:3]
        fr = Frame(); fr.compressed(lits, [], lit={'type': 'huf', 'tree': 'fse', 'weights': w, 'fse': {'accuracy_log': al, 'minus_one': rare}})
        cat.add_frame(C, 'lit=huf1 tree=fse depth11 weights-fse al=%d minus1=%d' % (al, len(rare)), fr, window=W1K)
    w = tree_256()
    lits = literals_for_tree(rng, w, 700)
    for al in (5, 6):
        fr = Frame(); fr.compressed(lits, [], lit={'type': 'huf', 'streams': 4, 'tree': 'fse', 'weights': w, 'fse': {'accuracy_log': al}})
        cat.add_frame(C, 'lit=huf4 tree=fse 256syms weights-fse al=%d' % al, fr, window=W1K)
    # Treeless: reuse the previous block's Huffman tree
    for s1 in (1, 4):
        for s2 in (1, 4):
            for tree in ('direct', 'fse'):
                a = sample_text(rng, 200); b = bytes(x for x in sample_text(rng, 150) if x in set(a))
                fr = Frame()
                fr.compressed(a, [], lit={'type': 'huf', 'streams': s1, 'tree': tree})
                fr.compressed(b, [(3, 7, 30 + 3)], lit={'type': 'treeless', 'streams': s2})
                cat.add_frame(C, 'lit=huf%d(tree=%s) then lit=treeless%d' % (s1, tree, s2), fr, window=W1K)
    for between in ('raw-block', 'rle-block', 'comp-rawlits', 'comp-rlelits', 'comp-empty'):
        a = sample_text(rng, 120); b = bytes(x for x in sample_text(rng, 90) if x in set(a))
        fr = Frame(); fr.compressed(a, [], lit={'type': 'huf'})
        if between == 'raw-block': fr.raw(b'RAW')
        elif between == 'rle-block': fr.rle(7, 9)
        elif between == 'comp-rawlits': fr.compressed(b'raw literals', [])
        elif between == 'comp-rlelits': fr.compressed(b'qqqqqq', [], lit={'type': 'rle'})
        else: fr.compressed(b'', [])
        fr.compressed(b, [], lit={'type': 'treeless'})
        cat.add_frame(C, 'lit=huf1 then %s then lit=treeless1' % between, fr, window=W1K, checksum=True)
    a = sample_text(rng, 100); sa = set(a)
    fr = Frame(); fr.compressed(a, [], lit={'type': 'huf'})
    for i in range(3):
        fr.compressed(bytes(x for x in sample_text(rng, 60) if x in sa), [(5, 5, 50 + 3)], lit={'type': 'treeless', 'streams': (1, 4, 1)[i]})
    cat.add_frame(C, 'lit=huf1 then 3x treeless (1,4,1 streams)', fr, window=W1K)
    # a new tree replaces the previous one; treeless then refers to the newest
    a = literals_for_tree(rng, tree_depth11(), 80)
    b = sample_text(rng, 100); c = bytes(x for x in sample_text(rng, 70) if x in set(b))
    fr = Frame()
    fr.compressed(a, [], lit={'type': 'huf', 'weights': tree_depth11()})
    fr.compressed(b, [], lit={'type': 'huf', 'tree': 'fse'})
    fr.compressed(c, [], lit={'type': 'treeless', 'streams': 4})
    cat.add_frame(C, 'lit=huf1(depth11) then huf1(new tree) then treeless4', fr, window=W1K)
    # treeless with the special trees
    for tname, w in (('depth11', tree_depth11()), ('2sym(0,255)', tree_two_symbols(0, 255)), ('256syms', tree_256())):
        a = literals_for_tree(rng, w, 300); b = literals_for_tree(rng, w, 200, cover=False)
        fr = Frame()
        fr.compressed(a, [], lit={'type': 'huf', 'streams': 4, 'weights': w, 'tree': 'direct' if len(w) <= 129 and tname != '2sym(0,255)' else 'fse'})
        fr.compressed(b, [(100, 30, 250 + 3)], lit={'type': 'treeless', 'streams': 1})
        cat.add_frame(C, 'lit=huf4 %s then treeless1' % tname, fr, window=W1K)

# ---- D. sequences sections --------------------------------------------------
PREFIX_LEN = 64

def prefixed_frame(rng, n=PREFIX_LEN, dictionary=None):
    """a frame whose first block is a raw block giving some history"""
    fr = Frame(dictionary)
    fr.raw(sample_text(rng, n))
    return fr

def mode_seqs(rle_kinds, variant=0):
    """6 sequences; the kinds listed in rle_kinds use a single code"""
    lls = [3] * 6 if 'll' in rle_kinds else [0, 1, 3, 17, 5, 40]
    mls = [4] * 6 if 'ml' in rle_kinds else [3, 4, 10, 36, 7, 70]
    ofs = [9, 8, 15, 12, 8, 11] if 'of' in rle_kinds else [4 + 3, 1, 20 + 3, 2, 9 + 3, 1 + 3]
    if variant:
        lls = lls[variant:] + lls[:variant]; mls = mls[-variant:] + mls[:-variant]
    if lls[0] == 0 and 'of' not in rle_kinds:
        ofs = [ofs[2]] + ofs[1:]                     # first seq has ll == 0: give it a new offset
    return list(zip(lls, mls, ofs))

def mode_name(modes):
    return 'seq=ll:%s,of:%s,ml:%s' % tuple(modes.get(k, ('predef',))[0] for k in ('ll', 'of', 'ml'))

def lits_for(seqs, rng, tail=3):
    return sample_text(rng, sum(s[0] for s in seqs) + tail)

def gen_seq_nbseq(cat, rng, thorough):
    C = 'seq'
    for n, form in ((0, 1), (0, 2), (1, 1), (1, 2), (2, 2), (127, 1), (127, 2), (128, 2), (255, 2), (256, 2), (300, 2)):
        fr = prefixed_frame(rng)
        seqs = [((i % 3), 3 + (i % 5), (4, 1, 2, 12 + 3)[i % 4]) for i in range(n)]
        if seqs and seqs[0][0] == 0:
            seqs[0] = (1,) + seqs[0][1:]
        fr.compressed(lits_for(seqs, rng), seqs, nbseq_form=form)
        cat.add_frame(C, 'nbseq=%d form=%dbyte predef' % (n, form), fr, window=window_for(fr.produced()))
    for form in (1, 2):                                    # 0 sequences, several literal types, then more blocks
        for lt in ('raw', 'rle', 'huf'):
            fr = Frame()
            lits = b'k' * 30 if lt == 'rle' else sample_text(rng, 60)
            fr.compressed(lits, [], lit={'type': lt}, nbseq_form=form)
            base_block(fr, rng)
            cat.add_frame(C, 'nbseq=0 form=%dbyte lit=%s then comp' % (form, lt), fr, window=W1K)
    # counts around the 2-byte / 3-byte boundary: all three tables in RLE mode, empty bitstream
    big = [0x7EFF, 0x7F00, 0x7F01] + ([0x7F00 + 255, 0x7F00 + 256, 43000] if thorough else [])
    for n in big:
        fr = Frame(); fr.raw(b'abcd')
        fr.compressed(b'', [(0, 3, 1)] * n, modes={'ll': ('rle',), 'of': ('rle',), 'ml': ('rle',)})
        cat.add_frame(C, 'nbseq=%d form=%dbyte seq=ll:rle,of:rle,ml:rle (ll0 rep2)' % (n, 2 if n < 0x7F00 else 3), fr, window=W128K)
    n = 0x7F00
    fr = Frame(); fr.raw(b'abcd')
    fr.compressed(b'x' * n, [(1, 3, 2)] * n, lit={'type': 'rle'}, modes={'ll': ('rle',), 'ml': ('rle',)})
    cat.add_frame(C, 'nbseq=%d form=3byte seq=ll:rle,of:predef,ml:rle' % n, fr, window=(7, 1))
    if thorough:
        seqs = [((i % 3), 3, (4, 1, 2, 12 + 3)[i % 4]) for i in range(n)]
        seqs[0] = (1, 3, 4)
        fr = Frame(); fr.raw(sample_text(rng, 16))
        fr.compressed(lits_for(seqs, rng), seqs, lit={'type': 'huf', 'streams': 4})
        cat.add_frame(C, 'nbseq=%d form=3byte predef huf4-literals' % n, fr, window=(7, 7))

def gen_seq_modes(cat, rng, thorough):
    C = 'seq'
    import itertools
    fse = ('fse', {})
    M = {'predef': ('predef',), 'rle': ('rle',), 'fse': fse, 'repeat': ('repeat',)}
    # first block: every combination of Predefined / RLE / FSE_Compressed
    for combo in itertools.product(('predef', 'rle', 'fse'), repeat=3):
        modes = dict(zip(('ll', 'of', 'ml'), (M[c] for c in combo)))
        rk = [k for k in modes if modes[k][0] == 'rle']
        seqs = mode_seqs(rk)
        fr = prefixed_frame(rng); fr.compressed(lits_for(seqs, rng), seqs, modes=modes)
        cat.add_frame(C, mode_name(modes), fr, window=W1K)
        # single sequence in that mode
        fr = prefixed_frame(rng); fr.compressed(lits_for(seqs[1:2], rng), seqs[1:2], modes=modes)
        cat.add_frame(C, mode_name(modes) + ' nbseq=1', fr, window=W1K)
    # second block: Repeat_Mode for one kind after each defining mode
    for kind in ('ll', 'of', 'ml'):
        for first in ('predef', 'rle', 'fse'):
            for others2 in ('predef', 'fse'):
                m1 = {kind: M[first]}
                m2 = {k: M[others2] for k in ('ll', 'of', 'ml')}
                m2[kind] = M['repeat']
                seqs = mode_seqs([kind] if first == 'rle' else [])
                fr = prefixed_frame(rng)
                fr.compressed(lits_for(seqs, rng), seqs, modes=m1)
                fr.compressed(lits_for(seqs, rng), seqs, modes=m2)
                cat.add_frame(C, 'block1 %s:%s ; block2 %s' % (kind, first, mode_name(m2)), fr, window=W1K)
    # pairs and triples in Repeat_Mode
    for first in ('predef', 'rle', 'fse'):
        for rep_kinds in (('ll', 'of'), ('ll', 'ml'), ('of', 'ml'), ('ll', 'of', 'ml')):
            m1 = {k: M[first] for k in ('ll', 'of', 'ml')}
            m2 = {k: M['repeat'] for k in rep_kinds}
            seqs = mode_seqs(['ll', 'of', 'ml'] if first == 'rle' else [])
            fr = prefixed_frame(rng)
            fr.compressed(lits_for(seqs, rng), seqs, modes=m1)
            fr.compressed(lits_for(seqs, rng), seqs[:4], modes=m2)
            cat.add_frame(C, 'block1 all:%s ; block2 %s' % (first, mode_name(m2)), fr, window=W1K)
    # Repeat_Mode across blocks that do not define tables
    allfse = {k: fse for k in ('ll', 'of', 'ml')}
    allrep = {k: M['repeat'] for k in ('ll', 'of', 'ml')}
    for between in ('raw-block', 'rle-block', 'comp-nbseq0-1byte', 'comp-nbseq0-2byte', 'comp-empty', 'two-blocks'):
        for first in ('fse', 'rle'):
            seqs = mode_seqs(['ll', 'of', 'ml'] if first == 'rle' else [])
            fr = prefixed_frame(rng)
            fr.compressed(lits_for(seqs, rng), seqs, modes={k: M[first] for k in ('ll', 'of', 'ml')})
            if between == 'raw-block': fr.raw(b'between')
            elif between == 'rle-block': fr.rle(0x2D, 12)
            elif between == 'comp-nbseq0-1byte': fr.compressed(b'only literals', [], nbseq_form=1)
            elif between == 'comp-nbseq0-2byte': fr.compressed(b'only literals', [], nbseq_form=2)
            elif between == 'comp-empty': fr.compressed(b'', [])
            else: fr.compressed(b'lits', []).raw(b'raw')
            fr.compressed(lits_for(seqs, rng), seqs, modes=allrep)
            cat.add_frame(C, 'block1 all:%s ; %s ; then all:repeat' % (first, between), fr, window=W1K, checksum=True)
    # chains: fse -> repeat -> repeat ; fse -> new fse -> repeat ; fse -> predef -> repeat(=predef)
    seqs = mode_seqs([]); seqs_b = mode_seqs([], variant=2)
    fr = prefixed_frame(rng)
    for i in range(4):
        fr.compressed(lits_for(seqs, rng), seqs, modes=allfse if i == 0 else allrep)
    cat.add_frame(C, 'chain all:fse ; 3x all:repeat', fr, window=W1K)
    fr = prefixed_frame(rng)
    fr.compressed(lits_for(seqs, rng), seqs, modes=allfse)
    fr.compressed(lits_for(seqs_b, rng), seqs_b, modes={k: ('fse', {'al': 7}) for k in ('ll', 'of', 'ml')})
    fr.compressed(lits_for(seqs_b, rng), seqs_b, modes=allrep)
    cat.add_frame(C, 'chain all:fse ; all:fse(al7) ; all:repeat', fr, window=W1K)
    fr = prefixed_frame(rng)
    fr.compressed(lits_for(seqs, rng), seqs[:3], modes=allfse)
    fr.compressed(lits_for(seqs, rng), seqs, modes={})
    fr.compressed(lits_for(seqs_b, rng), seqs_b, modes=allrep)
    cat.add_frame(C, 'chain all:fse ; all:predef ; all:repeat(of predef)', fr, window=W1K)
    fr = prefixed_frame(rng)
    fr.compressed(lits_for(seqs, rng), seqs, modes={'ll': fse})
    fr.compressed(lits_for(seqs, rng), seqs, modes={'ll': M['repeat'], 'of': fse})
    fr.compressed(lits_for(seqs, rng), seqs, modes={'ll': M['repeat'], 'of': M['repeat'], 'ml': fse})
    fr.compressed(lits_for(seqs, rng), seqs, modes=allrep)
    cat.add_frame(C, 'chain ll:fse ; +of:fse ; +ml:fse ; all:repeat', fr, window=W1K)
    # choice of the final FSE states (free for the encoder)
    for pick in range(1, 6 if not thorough else 16):
        for name, modes in (('predef', {}), ('fse', allfse)):
            fr = prefixed_frame(rng); fr.compressed(lits_for(seqs, rng), seqs, modes=modes, pick=pick)
            cat.add_frame(C, 'all:%s finalstate-choice=%d' % (name, pick), fr, window=W1K)

def codes_seqs(kind, codes, n=8):
    """n sequences whose `kind` codes cycle through `codes` (other fields simple);
    codes with a large baseline are used only once so the block stays below 128 KiB.
    Returns (seqs, needed_history)."""
    seqs = []
    need = 8
    order = list(codes)
    cheap = [c for c in codes if kind == 'of' or (LL_BASE[c] if kind == 'll' else ML_BASE[c]) <= 64]
    while len(order) < n and cheap:
        order.append(cheap[len(order) % len(cheap)])
    for i, c in enumerate(order):
        ll, ml, ofv = 2, 4, 4 + 3
        if kind == 'll':
            ll = LL_BASE[c] + (i % (1 << LL_BITS[c]) if LL_BITS[c] else 0)
        elif kind == 'ml':
            ml = ML_BASE[c] + (i % (1 << ML_BITS[c]) if ML_BITS[c] else 0)
        else:
            ofv = (1 << c) + ((i * 5) % (1 << c) if c else 0)
            if ofv > 3:
                need = max(need, ofv - 3)
        seqs.append((ll, ml, ofv))
    return seqs, need

def fse_shape_frame(rng, kind, codes, opts, n=8):
    seqs, need = codes_seqs(kind, codes, n)
    fr = Frame()
    hist = max(need, 16)
    left = hist
    while left:
        k = min(left, 100000); fr.rle(0x55, k); left -= k
    fr.raw(sample_text(rng, 12))
    nlit = sum(s[0] for s in seqs) + 3
    if nlit > 1500:
        fr.compressed(b'L' * nlit, seqs, lit={'type': 'rle'}, modes={kind: ('fse', opts)})
    else:
        fr.compressed(sample_text(rng, nlit), seqs, modes={kind: ('fse', opts)})
    return fr, window_for(max(fr.produced(), max(b[3] for b in fr.blocks)) + 16)

def gen_seq_tables(cat, rng, thorough):
    C = 'fse'
    maxsym = {'ll': 35, 'of': 28, 'ml': 52}
    for kind in ('ll', 'of', 'ml'):
        top = maxsym[kind] if kind != 'of' else 14
        sets = [[0, 1], [0, 2], [0, 3], [0, 4], [0, 5], [0, 6], [0, 7], [0, 8], [0, 10], [0, 11], [0, 13],
                [1, 2], [2, 3], [3, 4], [4, 5], [5, 9], [6, 7], [7, 14], [1, 3, 7], [2, 6, 13], [0, 1, 2, 3, 4, 5, 6, 7]]
        if kind != 'of':
            sets += [[0, top], [top - 1, top], [9, 20, top], [0, 16, 24, 31], list(range(0, top + 1, 3))]
        # accuracy logs, zero-probability runs between / before the used codes
        for codes in sets:
            for al in sorted(set((5, 6, MAX_AL[kind]))):
                if len(codes) > (1 << al):
                    continue
                for style in ('chain', 'split', 'pairs'):
                    if style != 'chain' and not (al == 6 or thorough):
                        continue
                    fr, win = fse_shape_frame(rng, kind, codes, {'al': al, 'zero_style': style})
                    cat.add_frame(C, '%s:fse al=%d codes=%s zero=%s' % (kind, al, ','.join(map(str, codes)), style), fr, window=win)
        # "less than 1" probabilities
        for codes, minus in (([0, 1, 2], [2]), ([0, 1, 2], [0]), ([0, 1, 2], [0, 1]), ([1, 4, 9], [4, 9]),
                             ([0, 3, 5, 6, 11], [3, 6]), ([2, 3, 4, 5, 6, 7, 8, 9], [2, 4, 6, 8, 9])):
            for al in sorted(set((5, 7, MAX_AL[kind]))):
                fr, win = fse_shape_frame(rng, kind, codes, {'al': al, 'minus_one': minus})
                cat.add_frame(C, '%s:fse al=%d codes=%s minus1=%s' % (kind, al, ','.join(map(str, codes)), ','.join(map(str, minus))), fr, window=win)
        # every cell of a 32-state table is a "less than 1" symbol
        if kind != 'of':
            fr, win = fse_shape_frame(rng, kind, [0, 1, 2, 5, 9, 31], {'al': 5, 'extra': list(range(32)), 'minus_one': list(range(32))})
            cat.add_frame(C, '%s:fse al=5 32 symbols all minus1' % kind, fr, window=win)
        # symbols with a probability that are never used, up to the largest symbol
        full = list(range(maxsym[kind] + 1))
        for al, minus in ((MAX_AL[kind], []), (MAX_AL[kind], full[10:]), (6, full[5:]), (7, full[::2])):
            if al == 6 and len(full) > 60:
                continue
            fr, win = fse_shape_frame(rng, kind, [0, 1, 2, 3], {'al': al, 'extra': full, 'minus_one': minus})
            cat.add_frame(C, '%s:fse al=%d all %d symbols present, %d as minus1, 4 used' % (kind, al, len(full), len(minus)), fr, window=win)
        # one dominant symbol: states that consume 0 bits
        for al in (5, MAX_AL[kind]):
            size = 1 << al
            for dom in (size // 2 + 1, size - 3, size - 2):
                codes = [0, 1, 2]
                fr, win = fse_shape_frame(rng, kind, [0, 0, 0, 1, 0, 2, 0, 0], {'al': al, 'force': {0: dom, 1: 1} if dom == size - 2 else {0: dom}, 'minus_one': [2] if dom == size - 2 else []})
                cat.add_frame(C, '%s:fse al=%d dominant symbol prob=%d/%d' % (kind, al, dom, size), fr, window=win)
    # largest offset code the reference decoder supports (31) given a probability but never used
    fr, win = fse_shape_frame(rng, 'of', [1, 2, 5], {'al': 6, 'extra': [31]})
    cat.add_frame(C, 'of:fse al=6 codes=1,2,5 plus unused code 31 (decoder may refuse: N>22 optional)', fr, window=win)
    fr, win = fse_shape_frame(rng, 'of', [1, 2, 5], {'al': 6, 'extra': [22, 28]})
    cat.add_frame(C, 'of:fse al=6 codes=1,2,5 plus unused codes 22,28', fr, window=win)
    # pseudo-random normalized distributions
    count = 40 if not thorough else 400
    for i in range(count):
        kind = ('ll', 'of', 'ml')[i % 3]
        al = 5 + rng.below(MAX_AL[kind] - 4)
        nsym = 2 + rng.below(min(12, (1 << al) - 1))
        hi = 14 if kind == 'of' else maxsym[kind]
        pool = list(range(hi + 1))
        codes = sorted(set(pool[rng.below(len(pool))] for _ in range(nsym)))
        if len(codes) < 2:
            codes = [0, 1 + rng.below(hi)]
        # random partition of the table among the codes
        size = 1 << al
        norm = [0] * (codes[-1] + 1)
        left = size - len(codes)
        for c in codes:
            norm[c] = 1
        for _ in range(8):
            c = codes[rng.below(len(codes))]
            k = rng.below(left + 1) if left else 0
            norm[c] += k; left -= k
        norm[codes[0]] += left
        for c in codes:
            if norm[c] == 1 and rng.below(2):
                norm[c] = -1
        fr, win = fse_shape_frame(rng, kind, codes, {'al': al, 'norm': norm, 'zero_style': ('chain', 'chain', 'split', 'pairs')[rng.below(4)]}, n=12)
        cat.add_frame(C, '%s:fse random#%d al=%d norm=%s' % (kind, i, al, ','.join(map(str, norm))), fr, window=win)

# ---- E. lengths at every code boundary --------------------------------------
def gen_seq_lengths(cat, rng, thorough):
    C = 'len'
    # literals lengths
    values = set(range(0, 17))
    for c in range(16, 36):
        values.update((LL_BASE[c] - 1, LL_BASE[c], LL_BASE[c] + 1, LL_BASE[c] + (1 << LL_BITS[c]) - 1))
    values.update((65538, 100000, 131064))
    values = sorted(v for v in values if v <= 131064)
    for ll in values:
        for mode in (('predef',),) + ((('fse', {'al': 9, 'extra': [0, 35]}),) if thorough or ll in (15, 16, 63, 64, 65535, 65536) else ()):
            fr = Frame()
            lits = sample_text(rng, ll + 2) if ll < 600 else b'l' * (ll + 2)
            first = (ll, 3, 1) if ll else (0, 3, 1)
            if ll == 0:
                fr.raw(b'history!')
            fr.compressed(lits, [first, (1, 3, 1 + 3)], lit={'type': 'raw' if ll < 600 else 'rle'}, modes={'ll': mode})
            cat.add_frame(C, 'll=%d (code %d) ll:%s' % (ll, ll_code(ll)[0], mode[0]), fr, window=window_for(fr.produced() + 16))
    # match lengths
    values = set(range(3, 36))
    for c in range(32, 53):
        values.update((ML_BASE[c] - 1, ML_BASE[c], ML_BASE[c] + 1, ML_BASE[c] + (1 << ML_BITS[c]) - 1))
    values.update((65538, 65539, 65540, 100000, 131070))
    values = sorted(v for v in values if v <= 131070)
    for ml in values:
        for mode in (('predef',),) + ((('fse', {'al': 9, 'extra': [0, 52]}),) if thorough or ml in (34, 35, 36, 65538, 65539) else ()):
            fr = Frame()
            fr.compressed(b'ab', [(2, ml, 2 + 3)], modes={'ml': mode})
            cat.add_frame(C, 'ml=%d (code %d) ml:%s offset=2' % (ml, ml_code(ml)[0], mode[0]), fr, window=window_for(fr.produced() + 16))
    # the largest match a block can hold: whole 128 KiB block is one match
    fr = Frame(); fr.raw(b'abc')
    fr.compressed(b'', [(0, 131072, 3 + 3)])
    cat.add_frame(C, 'ml=131072 (code 52) ll=0 offset=3 whole block', fr, window=(7, 1))
    fr = Frame(); fr.raw(b'abc')
    fr.compressed(b'', [(0, 65538, 3 + 3), (0, 65534, 1)])
    cat.add_frame(C, 'ml=65538+65534 ll=0,0 (second uses rep2) whole block', fr, window=(7, 1))
    # long literals and long match in one sequence
    fr = Frame(); fr.compressed(b'q' * 65536, [(65536, 65536, 1 + 3)], lit={'type': 'rle'})
    cat.add_frame(C, 'll=65536 ml=65536 single sequence fills 128 KiB', fr, window=W128K)

# ---- F. offsets ---------------------------------------------------------------
def gen_seq_offsets(cat, rng, thorough):
    C = 'off'
    setup = [(4, 5, 20 + 3), (3, 4, 30 + 3), (2, 6, 40 + 3)]          # leaves rep = [40, 30, 20]
    # the three repeat codes, literals length > 0 and == 0, after explicit offsets
    for ll in (5, 0):
        for ofv in (1, 2, 3):
            for second in (None, 1, 2, 3):
                seqs = setup + [(ll, 4, ofv)] + ([(ll, 5, second)] if second else [])
                fr = prefixed_frame(rng); fr.compressed(lits_for(seqs, rng), seqs)
                what = {(5, 1): 'rep1', (5, 2): 'rep2', (5, 3): 'rep3', (0, 1): 'll0:rep2', (0, 2): 'll0:rep3', (0, 3): 'll0:rep1-1'}
                cat.add_frame(C, 'rep after 40,30,20: %s%s' % (what[(ll, ofv)], (' then ' + what[(ll, second)]) if second else ''), fr, window=W1K)
    # starting values 1,4,8 used by the very first sequence of the frame
    for ll, ofv, name in ((3, 1, 'rep1=1'), (5, 2, 'rep2=4'), (9, 3, 'rep3=8'), (0, 1, 'll0:rep2=4'), (0, 2, 'll0:rep3=8')):
        fr = Frame()
        if ll == 0:
            fr.raw(sample_text(rng, 8))
        seqs = [(ll, 6, ofv), (2, 3, 1)]
        fr.compressed(lits_for(seqs, rng), seqs)
        cat.add_frame(C, 'initial repeat offsets: first sequence %s' % name, fr, window=W1K)
    for ll, ofv, name in ((3, 1, 'rep1=1'), (5, 2, 'rep2=4'), (9, 3, 'rep3=8')):
        fr = Frame(); seqs = [(ll, 6, ofv)]
        fr.compressed(lits_for(seqs, rng, 0), seqs)
        cat.add_frame(C, 'initial repeat offsets: single-segment first sequence %s' % name, fr)
    # Repeated_Offset1 - 1 with small values
    for r1 in (2, 3, 9):
        seqs = [(10, 4, r1 + 3), (0, 5, 3), (0, 3, 1), (1, 3, 1)]
        fr = Frame(); fr.compressed(lits_for(seqs, rng), seqs)
        cat.add_frame(C, 'll0 ofv3 with rep1=%d -> offset %d' % (r1, r1 - 1), fr, window=W1K)
    # repeat offsets carried from block to block
    for between in ('none', 'raw-block', 'rle-block', 'comp-nbseq0'):
        for ll, ofv in ((2, 1), (2, 2), (2, 3), (0, 1), (0, 2), (0, 3)):
            fr = prefixed_frame(rng); fr.compressed(lits_for(setup, rng), setup)
            if between == 'raw-block': fr.raw(b'in between')
            elif between == 'rle-block': fr.rle(0x5F, 10)
            elif between == 'comp-nbseq0': fr.compressed(b'literals only', [])
            seqs = [(ll, 7, ofv), (1, 3, 2)]
            fr.compressed(lits_for(seqs, rng), seqs)
            cat.add_frame(C, 'rep carried over (%s): block2 first seq ll=%d ofv=%d' % (between, ll, ofv), fr, window=W1K)
    # new offsets 1, 2, 3 and overlapping matches
    for off in (1, 2, 3, 4, 5, 7, 8, 9, 15, 16, 17, 31, 32, 33):
        for ml in sorted(set((3, 4, off + 1 if off > 3 else 9, 2 * off + 1, 40, 300))):
            fr = Frame(); seqs = [(off + 1, ml, off + 3)]
            fr.compressed(lits_for(seqs, rng, 1), seqs)
            cat.add_frame(C, 'new offset=%d ml=%d%s' % (off, ml, ' overlap' if off < ml else ''), fr, window=W1K)
    # offset == total output so far (first byte of the frame)
    for pos in (1, 2, 17, 255, 1000):
        fr = Frame(); seqs = [(pos, 40, pos + 3)]
        fr.compressed(lits_for(seqs, rng, 2), seqs)
        cat.add_frame(C, 'offset=%d == output so far, one block' % pos, fr, window=window_for(pos + 50))
        cat.add_frame(C, 'offset=%d == output so far, one block, single-segment' % pos, fr)
    fr = Frame(); fr.raw(sample_text(rng, 300)).rle(9, 300)
    fr.compressed(b'abc', [(3, 10, 603 + 3), (0, 4, 613 + 3 + 0)])
    cat.add_frame(C, 'offset=603 == output so far, third block', fr, window=W1K)
    # offset == Window_Size
    for win in ((0, 0), (0, 1), (0, 7), (1, 0), (3, 5)):
        wsize = window_descriptor(*win)[1]
        for extra in (0, 1, 500):
            fr = Frame()
            left = wsize
            first = True
            while left:
                k = min(left, wsize, BLOCK_MAX)
                if first:
                    fr.raw(sample_text(rng, min(k, 200))); k = min(k, 200); first = False
                else:
                    fr.rle(0x30 + (left % 7), k)
                left -= k
            if extra:
                fr.raw(sample_text(rng, extra))
            seqs = [(0, 9, wsize + 3), (4, 5, wsize - 1 + 3), (1, 3, 1)]
            fr.compressed(lits_for(seqs, rng), seqs)
            cat.add_frame(C, 'offset=%d == Window_Size (exp=%d mant=%d) at output position %d' % (wsize, win[0], win[1], wsize + extra), fr, window=win)
    # offsets above 2^16 (history built with RLE blocks)
    for win, pre, offs in (((7, 0), 131072, (65533, 65534, 65535, 65536, 65537, 70000, 100000, 131071, 131072)),
                           ((7, 1), 131072 + 16384, (131073, 147456)),
                           ((8, 0), 262144, (131072, 200000, 262143, 262144)),
                           ((8, 7), 491520, (491520,)),
                           ((10, 0), 1 << 20, ((1 << 20) - 1, 1 << 20))):
        if win[0] >= 10 and not thorough:
            continue
        for off in offs:
            fr = Frame()
            fr.raw(sample_text(rng, 100))
            left = pre - 100
            i = 0
            while left:
                k = min(left, BLOCK_MAX); fr.rle(0x41 + i, k); left -= k; i += 1
            seqs = [(3, 20, off + 3), (2, 4, 1), (0, 6, (off - 50) + 3)]
            fr.compressed(lits_for(seqs, rng), seqs)
            cat.add_frame(C, 'offset=%d (code %d) window exp=%d mant=%d' % (off, of_code(off + 3)[0], win[0], win[1]), fr, window=win)
    if thorough:
        for e, off in ((12, (1 << 22)), (12, (1 << 22) - 3), (13, (1 << 23) - 4)):
            fr = Frame(); fr.raw(sample_text(rng, 100))
            left = (1 << (10 + e)) - 100
            i = 0
            while left:
                k = min(left, BLOCK_MAX); fr.rle(0x41 + i % 50, k); left -= k; i += 1
            seqs = [(3, 20, off + 3), (2, 4, 1)]
            fr.compressed(lits_for(seqs, rng), seqs)
            cat.add_frame(C, 'offset=%d (code %d) window exp=%d' % (off, of_code(off + 3)[0], e), fr, window=(e, 0))
    # every offset code 0..17 through RLE / FSE / predefined offset tables
    for c in range(0, 18):
        ofv = (1 << c) + ((1 << c) // 3 if c > 1 else 0)
        need = max(ofv - 3, 8)
        for mode in ('predef', 'rle', 'fse'):
            fr = Frame(); fr.raw(sample_text(rng, 50))
            left = need
            while left > 0:
                k = min(left, BLOCK_MAX); fr.rle(0x42, k); left -= k
            seqs = [(2, 5, ofv), (3, 4, ofv)]
            fr.compressed(lits_for(seqs, rng), seqs, modes={'of': (mode, {'al': 5})})
            cat.add_frame(C, 'offset code %d (Offset_Value %d) twice, of:%s' % (c, ofv, mode), fr, window=window_for(fr.produced() + 8))

# ---- G. skippable frames and concatenations -----------------------------------
def small_frame(rng, kind, **hdr):
    """(bytes, content) of a small zstd frame"""
    fr = Frame()
    if kind == 'raw': fr.raw(sample_text(rng, 20))
    elif kind == 'rle': fr.rle(0x23, 17)
    elif kind == 'empty': fr.raw(b'')
    elif kind == 'multi': fr.raw(sample_text(rng, 30)); base_block(fr, rng); fr.rle(0x24, 5)
    else: fr.raw(sample_text(rng, 12)); base_block(fr, rng)
    hdr.setdefault('window', W1K)
    return fr.serialize(**hdr), fr.content()

def gen_skippable(cat, rng, thorough):
    C = 'skip'
    for v in range(16):
        for n in (0, 1, 100):
            sk = skippable_frame(v, rng.bytes(n))
            cat.add(C, 'skippable magic=0x%08X size=%d alone' % (0x184D2A50 + v, n), sk, b'')
            f1, c1 = small_frame(rng, ('comp', 'raw', 'rle')[v % 3], checksum=(n == 1))
            order = (v + n) % 3
            if order == 0:
                cat.add(C, 'skippable magic=0x%08X size=%d then zstd' % (0x184D2A50 + v, n), sk + f1, c1)
            elif order == 1:
                cat.add(C, 'zstd then skippable magic=0x%08X size=%d' % (0x184D2A50 + v, n), f1 + sk, c1)
            else:
                cat.add(C, 'skippable magic=0x%08X size=%d then zstd then same skippable' % (0x184D2A50 + v, n), sk + f1 + sk, c1)
    # skippable user data that looks like frames
    f1, c1 = small_frame(rng, 'comp')
    cat.add(C, 'skippable containing a zstd frame, then zstd', skippable_frame(3, f1) + f1, c1)
    cat.add(C, 'skippable containing a skippable header, then zstd', skippable_frame(4, skippable_frame(5, b'xx')[:8]) + f1, c1)
    cat.add(C, 'two skippables then zstd then two skippables', skippable_frame(0, b'') + skippable_frame(15, b'a') + f1 + skippable_frame(7, b'') + skippable_frame(8, b'bcd'), c1)
    cat.add(C, 'three skippables only', skippable_frame(1, b'1') + skippable_frame(2, b'') + skippable_frame(3, b'333'), b'')
    # concatenations of 2 and 3 frames
    import itertools
    kinds = ('comp', 'raw', 'rle', 'empty', 'multi')
    for combo in itertools.product(kinds, repeat=2):
        parts = [small_frame(rng, k, checksum=(i == 0)) for i, k in enumerate(combo)]
        cat.add(C, 'concat ' + '+'.join(combo), b''.join(p[0] for p in parts), b''.join(p[1] for p in parts))
    for i, combo in enumerate(itertools.product(kinds, repeat=3)):
        if not thorough and i % 4:
            continue
        hdrs = ({'window': None}, {'window': (i % 14, i % 8), 'fcs_bytes': (0, 4, 8)[i % 3]}, {'window': W1K, 'checksum': True})
        parts = [small_frame(rng, k, **hdrs[(i + j) % 3]) for j, k in enumerate(combo)]
        cat.add(C, 'concat ' + '+'.join(combo) + ' mixed headers #%d' % i, b''.join(p[0] for p in parts), b''.join(p[1] for p in parts))
    for i, combo in enumerate(itertools.product(('comp', 'empty'), repeat=3)):
        parts = [small_frame(rng, k) for k in combo]
        sk = skippable_frame(i, b'sep' * i)
        cat.add(C, 'concat with skippable separators ' + '+'.join(combo), sk.join(p[0] for p in parts), b''.join(p[1] for p in parts))
    # second frame must not see the first frame's history / tables / repeat offsets
    fr1 = Frame(); fr1.raw(sample_text(rng, 100)); fr1.compressed(lits_for(mode_seqs([]), rng), mode_seqs([]), lit={'type': 'huf'}, modes={k: ('fse', {}) for k in ('ll', 'of', 'ml')})
    fr2 = Frame(); seqs = [(9, 6, 3), (3, 4, 2)]; fr2.compressed(lits_for(seqs, rng), seqs)
    cat.add(C, 'concat: frame2 starts again from repeat offsets 1,4,8', fr1.serialize(window=W1K) + fr2.serialize(window=W1K), fr1.content() + fr2.content())

# ---- H. frames using dictionaries ----------------------------------------------
def seqs_from_tables(tables, rng, n, dict_len, rep, first_rep=True):
    """n sequences using only codes present in the given FSE tables.  Offsets may
    reach into the dictionary (dict_len bytes in front of the frame)."""
    ll_syms = [c for c in tables['ll'].symbols() if LL_BASE[c] <= 24] or [min(tables['ll'].symbols())]
    ml_syms = [c for c in tables['ml'].symbols() if ML_BASE[c] <= 40] or [min(tables['ml'].symbols())]
    of_syms = tables['of'].symbols()
    rep = list(rep)
    pos = 0
    seqs = []
    for i in range(n):
        lc = ll_syms[rng.below(len(ll_syms))]
        mc = ml_syms[rng.below(len(ml_syms))]
        ll = LL_BASE[lc] + (rng.below(1 << LL_BITS[lc]) if LL_BITS[lc] else 0)
        ml = ML_BASE[mc] + (rng.below(1 << ML_BITS[mc]) if ML_BITS[mc] else 0)
        pos += ll
        avail = pos + dict_len
        cands = []
        for c in of_syms:
            if c >= 2 and (1 << c) - 3 <= avail:
                cands.append(c)
            elif c == 0:
                cands.append(c)
            elif c == 1:
                cands.append(c)
        assert cands, 'no usable offset code'
        c = cands[0] if (i == 0 and first_rep and cands[0] < 2) else cands[rng.below(len(cands))]
        if c == 0:
            ofv = 1
        elif c == 1:
            ofv = 2 + rng.below(2)
            if ll == 0 and ofv == 3 and rep[0] == 1:
                ofv = 2
        else:
            lo, hi = (1 << c), min((2 << c) - 1, avail + 3)
            ofv = max(lo, 4) if lo > hi else lo + rng.below(hi - lo + 1)
            ofv = max(ofv, 4)
        trial = list(rep)
        off = resolve_offset(trial, ll, ofv)
        if off > avail:                                   # repeat offset not reachable yet: fall back
            ofv = 1 + 3 if 2 in of_syms else ofv
            trial = list(rep); off = resolve_offset(trial, ll, ofv)
            assert off <= avail
        rep = trial
        seqs.append((ll, ml, ofv))
        pos += ml
    return seqs

def gen_dict_frames(cat, rng, thorough):
    C = 'dict'
    import dictgen
    dicts = [(name, d) for name, d, flags in dictgen.dictionary_catalogue() if flags & 1]
    for name, d in dicts:
        dl = len(d.content)
        tag = 'dict[%s]' % name
        if d.dict_id == 0:
            # raw-content dictionary: only the content is used
            variants = [('match at distance output+dict_len (first dictionary byte)', lambda p: p + dl, 8),
                        ('match at last dictionary byte running into the output', lambda p: p + 1, 20),
                        ('match spanning the dictionary/output boundary', lambda p: p + 4, 12)]
            for vname, offf, ml in variants:
                for ll in (0, 5):
                    fr = Frame(d)
                    seqs = [(ll, min(ml, max(3, dl)) if offf(0) == dl else ml, offf(ll) + 3), (2, 4, 1)]
                    fr.compressed(lits_for(seqs, rng), seqs)
                    cat.add_frame(C, '%s %s ll=%d' % (tag, vname, ll), fr, window=W1K)
            fr = Frame(d); fr.raw(sample_text(rng, 50))
            seqs = [(3, 9, 53 + dl + 3), (0, 5, 1), (1, 3, 3)]
            fr.compressed(lits_for(seqs, rng), seqs)
            cat.add_frame(C, '%s second block reaches first dictionary byte; then initial rep 4 and 8' % tag, fr, window=W1K, checksum=True)
            fr = Frame(d); seqs = [(0, max(3, min(dl, 700)), dl + 3)]
            fr.compressed(b'', seqs)
            cat.add_frame(C, '%s whole frame is one match copying the dictionary start' % tag, fr, window=W1K)
            fr = Frame(d); seqs = [(0, dl + 30, dl + 3)]
            fr.compressed(b'', seqs)
            cat.add_frame(C, '%s match longer than the dictionary (wraps into own output) single-segment' % tag, fr)
            continue
        # ---- structured dictionary ----
        allrep = {k: ('repeat',) for k in ('ll', 'of', 'ml')}
        nseq = 6
        # (a) everything from the dictionary: treeless literals + Repeat_Mode x3 + repeat offsets
        for round_ in range(1 if not thorough else 5):
            for streams in (1, 4):
                seqs = seqs_from_tables(d.tables, rng, nseq + 5 * round_, dl, d.rep, first_rep=(round_ % 2 == 0))
                nlit = sum(s[0] for s in seqs) + 8
                lits = literals_for_tree(rng, d.weights, nlit, cover=False)
                fr = Frame(d)
                fr.compressed(lits, seqs, lit={'type': 'treeless', 'streams': streams}, modes=allrep)
                cat.add_frame(C, '%s lit=treeless%d seq=ll:repeat,of:repeat,ml:repeat%s' % (tag, streams, (' #%d' % round_) if round_ else ''),
                              fr, window=window_for(fr.produced()), checksum=(streams == 4))
        # (b) one table from the dictionary at a time
        for kind in ('ll', 'of', 'ml'):
            seqs = seqs_from_tables(d.tables, rng, nseq, dl, d.rep, first_rep=False)
            fr = Frame(d)
            fr.compressed(lits_for(seqs, rng), seqs, modes={kind: ('repeat',)})
            m = {kind: ('repeat',)}
            cat.add_frame(C, '%s lit=raw %s' % (tag, mode_name(m)), fr, window=W1K)
        # (c) only the Huffman table from the dictionary
        lits = literals_for_tree(rng, d.weights, 60, cover=False)
        fr = Frame(d); fr.compressed(lits, [(10, 5, 1), (0, 4, 1), (3, 3, 3)], lit={'type': 'treeless'})
        cat.add_frame(C, '%s lit=treeless1 seq=predef first sequences rep1,ll0:rep2,rep3 from dictionary' % tag, fr, window=W1K)
        # (d) dictionary tables still in force in the second block / after raw block
        seqs = seqs_from_tables(d.tables, rng, 4, dl, d.rep)
        fr = Frame(d); fr.raw(sample_text(rng, 40))
        fr.compressed(literals_for_tree(rng, d.weights, sum(s[0] for s in seqs) + 2, cover=False), seqs, lit={'type': 'treeless'}, modes=allrep)
        cat.add_frame(C, '%s raw block first, then lit=treeless1 all:repeat' % tag, fr, window=W1K)
        # (e) repeat offsets from the dictionary, each code, ll>0 and ll==0
        for ll, ofv in ((2, 1), (2, 2), (2, 3), (0, 1), (0, 2), (0, 3)):
            if ll == 0 and ofv == 3 and d.rep[0] == 1:
                continue
            seqs = [(ll, 5, ofv), (1, 3, 1)]
            fr = Frame(d); fr.compressed(lits_for(seqs, rng), seqs)
            cat.add_frame(C, '%s first sequence ll=%d Offset_Value=%d (dictionary repeat offsets %s)' % (tag, ll, ofv, ','.join(map(str, d.rep))), fr, window=W1K)
        # (f) matches into the dictionary content
        for vname, offf, ml in (('first dictionary byte', lambda p: p + dl, min(8, dl)), ('last dictionary byte', lambda p: p + 1, 16), ('boundary', lambda p: p + 3, 10)):
            fr = Frame(d); seqs = [(4, ml, offf(4) + 3), (0, 3, offf(4 + ml) + 3)]
            fr.compressed(lits_for(seqs, rng), seqs)
            cat.add_frame(C, '%s match reaching %s (ll=4 and ll=0)' % (tag, vname), fr, window=W1K)
    # Dictionary_ID field widths
    byname = dict(dicts)
    for name, d in dicts:
        if d.dict_id == 0 or 'structured base id=' not in name:
            continue
        natural = 1 if d.dict_id < 256 else 2 if d.dict_id < 65536 else 4
        for w in (0, 1, 2, 4):
            if w and w < natural:
                continue
            seqs = seqs_from_tables(d.tables, rng, 3, len(d.content), d.rep)
            fr = Frame(d)
            fr.compressed(literals_for_tree(rng, d.weights, sum(s[0] for s in seqs) + 2, cover=False), seqs, lit={'type': 'treeless'}, modes={k: ('repeat',) for k in ('ll', 'of', 'ml')})
            for single in (False, True):
                cat.add_frame(C, 'dict[%s] Dictionary_ID field %d bytes %s' % (name, w, 'single' if single else 'window'),
                              fr, window=None if single else W1K, did_bytes=w, dict_id=(d.dict_id if w else 0))
    # dictionary content reachable beyond Window_Size while output <= Window_Size
    for name, d in dicts:
        dl = len(d.content)
        if dl < 3000:
            continue
        fr = Frame(d); fr.raw(sample_text(rng, 990))
        seqs = [(24, 10, 1014 + dl + 3), (0, 5, 2000 + 3)]
        fr.compressed(lits_for(seqs, rng, 0), seqs)
        cat.add_frame(C, 'dict[%s] offset %d (first dictionary byte) at output 1014, offset 2000 at output==Window_Size 1024' % (name, 1014 + dl), fr, window=W1K)

# ---- I. two features at a time, random trees -------------------------------------
def gen_pairs(cat, rng, thorough):
    C = 'mix'
    allk = ('ll', 'of', 'ml')
    lit_variants = [
        ('lit=raw hdr1', {'type': 'raw'}, None), ('lit=raw hdr3', {'type': 'raw', 'size_format': 3}, None),
        ('lit=rle hdr2', {'type': 'rle', 'size_format': 2}, 'rle'),
        ('lit=huf1 direct', {'type': 'huf', 'tree': 'direct'}, None), ('lit=huf1 fse', {'type': 'huf', 'tree': 'fse'}, None),
        ('lit=huf4 sizefmt=1', {'type': 'huf', 'streams': 4, 'size_format': 1}, None),
        ('lit=huf4 sizefmt=2 fse', {'type': 'huf', 'streams': 4, 'size_format': 2, 'tree': 'fse'}, None),
        ('lit=huf4 sizefmt=3', {'type': 'huf', 'streams': 4, 'size_format': 3}, None),
        ('lit=huf1 depth11', {'type': 'huf', 'weights': tree_depth11()}, tree_depth11()),
        ('lit=huf4 2sym(0,255)', {'type': 'huf', 'streams': 4, 'tree': 'fse', 'weights': tree_two_symbols(0, 255)}, tree_two_symbols(0, 255)),
    ]
    seq_variants = [
        ('nbseq=0 1byte', None, {}, 1), ('nbseq=0 2byte', None, {}, 2),
        ('seq=predef', [], {}, None), ('seq=predef nbseq-2byte', [], {}, 2),
        ('seq=all:rle', list(allk), {k: ('rle',) for k in allk}, None),
        ('seq=all:fse al5', [], {k: ('fse', {'al': 5}) for k in allk}, None),
        ('seq=all:fse maxal', [], {k: ('fse', {'al': MAX_AL[k]}) for k in allk}, None),
        ('seq=all:fse minus1', [], {'ll': ('fse', {'minus_one': [17]}), 'of': ('fse', {'minus_one': [3]}), 'ml': ('fse', {'minus_one': [33]})}, None),
        ('seq=ll:rle,of:fse,ml:predef', ['ll'], {'ll': ('rle',), 'of': ('fse', {})}, None),
    ]
    hdr_variants = [
        ('single', {'window': None}), ('window1K', {'window': W1K}), ('window1K cks', {'window': W1K, 'checksum': True}),
        ('window exp3 mant5 fcs4', {'window': (3, 5), 'fcs_bytes': 4}), ('window1K fcs8 cks', {'window': W1K, 'fcs_bytes': 8, 'checksum': True}),
    ]
    skipped = 0
    def emit(lv, sv, hv, seed):
        nonlocal skipped
        r = LCG(seed)
        seqs = [] if sv[1] is None else mode_seqs(sv[1], variant=seed % 3)
        nlit = sum(x[0] for x in seqs) + (150 if not seqs else 5)
        if lv[2] == 'rle':
            lits = b'R' * nlit
        elif lv[2] is not None:
            lits = literals_for_tree(r, lv[2], nlit, cover=False)
        else:
            lits = sample_text(r, nlit)
        fr = Frame(); fr.raw(sample_text(r, 64))
        fr.compressed(lits, seqs, lit=lv[1], modes=sv[2], nbseq_form=sv[3])
        try:
            cat.add_frame(C, '%s ; %s ; %s%s' % (lv[0], sv[0], hv[0], (' #%d' % seed) if seed else ''), fr, **hv[1])
        except AssertionError as e:
            if 'Block_Maximum_Size' not in str(e):
                raise
            skipped += 1
    base_l, base_s, base_h = lit_variants[0], seq_variants[2], hdr_variants[1]
    if not thorough:
        for lv in lit_variants:
            for sv in seq_variants:
                emit(lv, sv, base_h, 0)
            for hv in hdr_variants:
                if hv is not base_h:
                    emit(lv, base_s, hv, 0)
        for sv in seq_variants:
            for hv in hdr_variants:
                if hv is not base_h and sv is not base_s:
                    emit(base_l, sv, hv, 0)
    else:
        for seed in (0, 1, 2):
            for lv in lit_variants:
                for sv in seq_variants:
                    for hv in hdr_variants:
                        emit(lv, sv, hv, seed)
    # second block reusing everything from the first (treeless + Repeat_Mode)
    for lv in lit_variants[3:]:
        for sv in seq_variants[4:]:
            seqs = mode_seqs(sv[1])
            fr = Frame(); fr.raw(sample_text(rng, 64))
            for blk in range(2):
                nlit = sum(x[0] for x in seqs) + 5
                lits = literals_for_tree(rng, lv[2], nlit, cover=(blk == 0)) if lv[2] is not None else sample_text(rng, nlit)
                if blk == 0:
                    fr.compressed(lits, seqs, lit=lv[1], modes=sv[2])
                    first = set(lits)
                else:
                    lits = bytes(b for b in lits if b in first)
                    lits += bytes([lits[0]]) * (nlit - len(lits))
                    fr.compressed(lits, seqs, lit={'type': 'treeless', 'streams': lv[1].get('streams', 1)}, modes={k: ('repeat',) for k in allk})
            cat.add_frame(C, 'block1 %s ; %s ; block2 treeless + all:repeat' % (lv[0], sv[0]), fr, window=W1K, checksum=True)
    if skipped:
        sys.stderr.write('framegen: mix: %d combinations skipped (Block_Size would exceed Block_Maximum_Size of a single-segment frame)\n' % skipped)

def gen_random_trees(cat, rng, thorough):
    C = 'huf'
    count = 60 if not thorough else 600
    for i in range(count):
        nsym = 2 + rng.below((4, 12, 40, 129, 256)[i % 5] - 1)
        hi = (128, 255)[(i // 5) % 2]
        pool = list(range(hi + 1))
        syms = set()
        while len(syms) < min(nsym, hi + 1):
            syms.add(pool[rng.below(len(pool))])
        skew = 1 + rng.below(4)
        freqs = {s: 1 + rng.below(1 << (1 + rng.below(4 * skew))) for s in syms}
        weights = huf_weights_from_freqs(freqs, max_bits=(11, 11, 9, 7)[rng.below(4)] if len(syms) <= 100 else 11)
        direct_ok = len(weights) <= 129
        fse_ok = len(weights) >= 3 and len(set(weights[:-1])) >= 2
        tree = 'direct' if direct_ok and (not fse_ok or i % 2 == 0) else 'fse'
        if tree == 'fse' and not fse_ok:
            continue
        streams = (1, 4)[(i // 2) % 2]
        n = 8 + rng.below(500)
        lits = literals_for_tree(rng, weights, n)
        opts = {}
        if tree == 'fse':
            opts = {'zero_style': ('chain', 'split', 'pairs')[i % 3], 'pick': rng.below(4)}
            if len(set(weights[:-1])) <= 20 and rng.below(2):
                opts['accuracy_log'] = 5 + rng.below(2)
        try:
            fr = Frame()
            fr.compressed(lits, [(5, 4, 2 + 3)], lit={'type': 'huf', 'streams': streams, 'tree': tree, 'weights': weights, 'fse': opts})
        except AssertionError as e:
            if 'must fit in 127 bytes' in str(e) or 'accuracy log too small' in str(e):
                continue
            raise
        depth = max(weights)
        cat.add_frame(C, 'random tree #%d symbols=%d last=%d depth=%d tree=%s streams=%d literals=%d' %
                      (i, len(syms), len(weights) - 1, depth, tree, streams, n), fr, window=W1K)

# --------------------------------------------------------------------------
# main
# --------------------------------------------------------------------------
GENERATORS = [gen_headers, gen_blocks, gen_literals, gen_seq_nbseq, gen_seq_modes, gen_seq_tables,
              gen_seq_lengths, gen_seq_offsets, gen_skippable, gen_dict_frames, gen_pairs, gen_random_trees, gen_rawlit_tail, gen_laps, gen_bit_pressure]

def build_catalogue(tier='quick'):
    cat = Catalogue()
    for i, g in enumerate(GENERATORS):
        g(cat, LCG(0xC0FFEE + i), tier == 'thorough')
    return cat

def main():
    ap = argparse.ArgumentParser(description='generate a catalogue of valid Zstandard frames from the specification')
    ap.add_argument('--out', required=True)
    ap.add_argument('--tier', choices=('quick', 'thorough'), default='quick')
    a = ap.parse_args()
    import os
    sys.path.insert(0, os.path.dirname(os.path.abspath(__file__)))
    cat = build_catalogue(a.tier)
    cat.write(a.out)
    total = 0
    for c, n in cat.per_category.items():
        sys.stderr.write('framegen: %-5s %5d records\n' % (c, n)); total += n
    sizes = sorted(len(r[1]) for r in cat.records)
    sys.stderr.write('framegen: total %d records (%s tier); frame bytes min %d median %d max %d\n'
                     % (total, a.tier, sizes[0], sizes[len(sizes) // 2], sizes[-1]))

if __name__ == '__main__':
    main()
