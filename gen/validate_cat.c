/* validate_cat.c - check a framegen.py catalogue against the reference decoder R
 * (ref/edu_decoder.c, written from the specification, shares no code with libzstd).
 *
 *   validate_cat <catalogue>            frame catalogue (framegen.py --out)
 *   validate_cat --dicts <catalogue>    dictionary catalogue (dictgen.py --out)
 *
 * R decodes ONE zstd frame per call and does not know skippable frames, so the
 * walk over concatenated / skippable frames is done here.
 * gcc -O1 -I/verif/ref validate_cat.c /verif/ref/edu_decoder.c -o /tmp/validate_cat */
#include <stdio.h>
#include <stdlib.h>
#include <string.h>
#include <stdint.h>
#include "edu_decoder.h"

static uint32_t rd32(const unsigned char* p) { return p[0] | (p[1] << 8) | (p[2] << 16) | ((uint32_t)p[3] << 24); }

typedef struct { unsigned char* p; size_t n; } buf_t;

static int read_field(FILE* f, buf_t* b) {
    unsigned char h[4];
    if (fread(h, 1, 4, f) != 4) return 0;
    b->n = rd32(h);
    b->p = malloc(b->n + 1);
    if (b->n && fread(b->p, 1, b->n, f) != b->n) { fprintf(stderr, "truncated catalogue\n"); exit(2); }
    b->p[b->n] = 0;
    return 1;
}

/* returns 0 on success, else fills msg */
static int check_record(const buf_t* frame, const buf_t* content, const buf_t* dictb, char* msg, size_t msglen) {
    dictionary_t* volatile dict = NULL;
    unsigned char* volatile out = NULL;
    volatile int rc = 0;
    if (setjmp(r_jmp)) {
        snprintf(msg, msglen, "R error: %s", r_errmsg ? r_errmsg : "?");
        rc = 1;
        goto done;
    }
    dict = R_create_dictionary();
    if (dictb->n) R_parse_dictionary(dict, dictb->p, dictb->n);
    {
        size_t cap = content->n + 64;
        size_t pos = 0, produced = 0;
        int nframes = 0;
        out = malloc(cap);
        while (pos < frame->n) {
            if (frame->n - pos < 4) { snprintf(msg, msglen, "trailing garbage at %zu", pos); rc = 1; goto done; }
            uint32_t magic = rd32(frame->p + pos);
            if ((magic & 0xFFFFFFF0u) == 0x184D2A50u) {
                if (frame->n - pos < 8) { snprintf(msg, msglen, "truncated skippable header"); rc = 1; goto done; }
                uint32_t sz = rd32(frame->p + pos + 4);
                if (frame->n - pos - 8 < sz) { snprintf(msg, msglen, "truncated skippable frame"); rc = 1; goto done; }
                pos += 8 + (size_t)sz;
                continue;
            }
            size_t got = R_decompress_with_dict(out + produced, cap - produced, frame->p + pos, frame->n - pos, dict);
            produced += got;
            pos += r_consumed;
            nframes++;
        }
        if (produced != content->n) { snprintf(msg, msglen, "size mismatch: R produced %zu, expected %zu", produced, content->n); rc = 1; goto done; }
        if (content->n && memcmp(out, content->p, content->n) != 0) {
            size_t i = 0; while (out[i] == content->p[i]) i++;
            snprintf(msg, msglen, "content mismatch at byte %zu", i); rc = 1; goto done;
        }
    }
done:
    free((void*)out);
    if (dict) R_free_dictionary(dict);
    return rc;
}

static int do_dicts(const char* path) {
    FILE* f = fopen(path, "rb");
    if (!f) { perror(path); return 2; }
    buf_t name, d; unsigned char fl[4];
    int n = 0, bad = 0;
    while (read_field(f, &name)) {
        if (!read_field(f, &d) || fread(fl, 1, 4, f) != 4) { fprintf(stderr, "truncated\n"); return 2; }
        uint32_t flags = rd32(fl);
        dictionary_t* volatile dict = NULL;
        volatile int accepted = 1;
        if (setjmp(r_jmp)) accepted = 0;
        else { dict = R_create_dictionary(); R_parse_dictionary(dict, d.p, d.n); }
        /* R is lax on repeat offsets (it does not refuse 0, and compares with the whole
         * dictionary size), so only "must accept but R refuses" is a failure here. */
        if ((flags & 1) && !accepted) { printf("FAIL %s : must-accept dictionary refused by R (%s)\n", name.p, r_errmsg); bad++; }
        else if ((flags & 2) && accepted) printf("note %s : must-refuse dictionary accepted by R (R does not validate repeat offsets strictly)\n", name.p);
        n++;
        free(name.p); free(d.p);
    }
    printf("validated %d dictionaries, %d failures\n", n, bad);
    return bad != 0;
}

int main(int argc, char** argv) {
    if (argc >= 3 && !strcmp(argv[1], "--dicts")) return do_dicts(argv[2]);
    if (argc < 2) { fprintf(stderr, "usage: %s [--dicts] catalogue\n", argv[0]); return 2; }
    FILE* f = fopen(argv[1], "rb");
    if (!f) { perror(argv[1]); return 2; }
    buf_t name, frame, content, dict;
    int n = 0, failures = 0;
    char msg[256];
    while (read_field(f, &name)) {
        if (!read_field(f, &frame) || !read_field(f, &content) || !read_field(f, &dict)) { fprintf(stderr, "truncated record\n"); return 2; }
        if (check_record(&frame, &content, &dict, msg, sizeof msg)) {
            printf("FAIL %s : %s\n", name.p, msg);
            failures++;
        }
        n++;
        free(name.p); free(frame.p); free(content.p); free(dict.p);
    }
    printf("validated %d records, %d failures\n", n, failures);
    return failures != 0;
}
