#!/bin/bash
# usage: tools/confirm_seed.sh <id> : re-confirm a seeded change in its scratch worktree: patch applies = worktree diff,
# pinned suite passes with it, demonstration fails with it and passes without it.  Writes /tmp/seeded/<id>/confirm.json
id=$1; wt=/tmp/wt/$id; sd=/tmp/seeded/$id; log=$sd/confirm.log; : > $log
run_demo() { ( cd $sd; grep -v '^\s*#' RUN.txt | grep -v '^\s*$' > $sd/.run.sh; timeout 900 bash $sd/.run.sh ) > $sd/.demo.out 2>&1; rc=$?; tail -5 $sd/.demo.out >> $log
  if grep -q "FAIL" $sd/.demo.out || grep -q "exit=[1-9]" $sd/.demo.out || [ $rc -ne 0 ]; then echo fail; else echo pass; fi; }
git -C $wt checkout -- . 2>/dev/null; git -C $wt clean -fdq -e '*.o' 2>/dev/null
git -C $wt apply $sd/patch.diff || { echo '{"id":"'$id'","applies":false}' > $sd/confirm.json; exit 1; }
echo "== suite with change" >> $log
make -C $wt -j4 check > $sd/confirm_make_check.log 2>&1; suite=$?
echo "== demo with change" >> $log; with=$(run_demo)
git -C $wt apply -R $sd/patch.diff
echo "== demo without change" >> $log; without=$(run_demo)
git -C $wt apply $sd/patch.diff
echo "{\"id\":\"$id\",\"applies\":true,\"suite_exit\":$suite,\"demo_with_change\":\"$with\",\"demo_without_change\":\"$without\"}" > $sd/confirm.json
cat $sd/confirm.json
