#!/usr/bin/env python3
"""Regenerates MANIFEST.json from the table below; a property is claimed iff checks/<id>.py exists."""
import json, os
V = os.path.dirname(os.path.dirname(os.path.abspath(__file__)))
T = {
 'C01': ('exploration', 'bounded-exhaustive enumeration of (entry point, parameter vector, input shape) with a deviation budget; every case is executed on the real compressor and decoder under ASan/UBSan',
         'inputs outside the shape grammar / windows other than 2^10, 2^11, 2^17 are not enumerated; oracle decoder is the library\'s own (C05 uses the independent one)', 'deviation-bounded exhaustive enumeration (choice-tree explorer E1)', '3/C01'),
 'C02': ('model_checking', 'explicit-state search over snapshots of the real streaming compressor / decompressor: every call (in-slice, out-capacity, directive) from every reachable state up to a depth (compressor) or to fixpoint (decoder)',
         'state keys are projections of the context validated by full-snapshot comparison; windowLog 10, block 1 KiB configuration', 'explicit-state BFS/DFS on memcpy snapshots of static contexts (E3)', '3/C02'),
 'C03': ('fault_enumeration', 'every single-byte substitution and every truncation of each seed frame/dictionary, plus exhaustive short tails, through every decode entry point under ASan/UBSan with guard-placed buffers',
         'Hamming distance > 2 from a seed and inputs > 1 KiB are not enumerated', 'exhaustive single-fault enumeration over seeds (E1)', '3/C03'),
 'C04': ('exploration', 'a finite catalogue of specification-derived frames is pushed through every decode path and decoder build variant and compared with the vendored independent decoder',
         'frames outside the catalogue grammar; x86-64 only', 'exhaustive catalogue x path x variant enumeration, differential against reference decoder', '3/C04'),
 'C05': ('exploration', 'every frame produced by the bounded-exhaustive compressor enumerations is parsed by the instrumented independent decoder and judged against the conformance rules',
         'same enumeration bounds as C01/C02; the reference decoder is doc/educational_decoder (vendored)', 'deviation-bounded exhaustive enumeration + independent reference decoder', '3/C05'),
 'C06': ('exploration', 'full sweep of destination capacities for each (input, parameter vector) with exactly-sized ASan allocations; inspectors checked on every concatenation of catalogue frames',
         'bound claim for inputs > 256 KiB rests on the per-block argument', 'exhaustive capacity sweep (E1)', '3/C06'),
 'C07': ('model_checking', 'all prior-history sequences up to a depth on the same context (real API calls) followed by a subject compression; output compared byte-for-byte with the fresh-context run; MT under every schedule of the bound',
         'histories deeper than the bound; state keyed by the operation history', 'history-replay state search (E3) + scheduler (E2)', '3/C07'),
 'C08': ('exploration', 'dictionary catalogue x supply modes x strategies x inputs, full product on structured dictionaries; every single-byte corruption of dictionary headers for memory safety',
         'dictionaries > 64 KiB not enumerated; far-into-the-frame unit up to 1.1 MB of input', 'exhaustive product enumeration (E1)', '3/C08'),
 'C09': ('fault_enumeration', 'every proper prefix of every seed frame through every decoder, every bit flip of stored checksums, every content-size rewrite, wrong pledges over call histories',
         'frames > 1 KiB; checksum flips on four kinds of decoder context (fresh, after verification was switched off and a full / parameter reset, static); pledged sizes also with 1-2 workers under every schedule of the bound (scheduler E2)', 'exhaustive truncation / field-fault enumeration (E1)', '3/C09'),
 'C10': ('model_checking', 'progress and flush-decodability oracles on every transition of the C02 state graphs; hint-following decoder over every catalogue frame',
         'as C02; multithreaded drivers (D2, D12, D15) under the deterministic scheduler; readers with 1..64-byte buffers besides exact hint-following', 'explicit-state search on snapshots (E3) + preemption-bounded scheduler exploration (E2)', '3/C10'),
 'C11': ('model_checking', 'real zstdmt code under a deterministic scheduler: every schedule with at most P preemptions / D deviations of several drivers; oracle: termination, decodes to input (library + reference decoder), one output, ASan clean, and no data race (ThreadSanitizer evaluated inside every explored schedule, happens-before from the modelled primitives only); seam harnesses for the serial section and the pools without preemption bound',
         'sequential consistency between synchronisation points; <= 4 workers; small-job build (ZSTDMT_JOBSIZE_MIN=1024); seam 2 (round input buffer) stubs out the block compression of a job and judges by ghost stamps', 'preemption-bounded stateless exploration of the implementation under a deterministic scheduler (E2), state-cached exhaustive exploration of the serial-section / pool seams, race detection inside each explored schedule', '3/C11'),
 'C12': ('model_checking', 'real pool.c under the deterministic scheduler for every client program of a small grammar and every schedule in the bound; exactly-once / join / resize / free oracles, no deadlock, no use-after-free, no unsynchronised access (sched-tsan unit)',
         'threads <= 3, queue <= 2, programs <= 6 operations; at most one job per program posts with the blocking call', 'preemption-bounded stateless exploration of the implementation under a deterministic scheduler (E2), race detection inside each explored schedule', '3/C12'),
 'C13': ('fault_enumeration', 'for each API scenario every allocation index is failed once (and every pair for short scenarios) through ZSTD_customMem; oracle: no crash, error returned, allocator live set empty, retry succeeds',
         'scenario catalogue is finite; MT scenarios: every allocation index on the zero-deviation schedule, and every (schedule, index) with <= 1 preemption and <= 1-2 deviations', 'exhaustive fault-index enumeration (E1 + counting allocator), crossed with preemption-bounded schedule exploration (E2) for the multithreaded scenarios', '3/C13'),
 'C14': ('exploration', 'static contexts of exactly the estimated size between guard pages, over all level pairs / cParams deviations / window descriptors; sizeof vs counting allocator',
         'windowLog > 23 not run; frame sequences (2-3 frames of 8 kinds) on one static / heap DStream; static dictionaries with a process-heap oracle; wear unit: 300 jobs then a large one on a static context of the estimated size', 'exhaustive grid enumeration (E1)', '3/C14'),
 'C15': ('model_checking', 'all histories of frames on one context up to a depth with index rebasing forced every few KiB; each frame round-trips, conforms and equals the fresh-context output',
         'index limits lowered by build-time knobs (frequent-correction build and index-limit build); no real > 4 GiB run', 'history-replay state search (E3)', '3/C15'),
 'C16': ('model_checking', 'every parameter x value-grid x stage x object combination and every operation sequence up to depth 3 against a reference table transcribed from zstd.h',
         'reference table is hand-transcribed from the header documentation; dictionaries: reference model {none, sticky A, sticky B, one-shot prefix} over all histories of <= 4 of 9 operations, probe frame compared with a fresh context', 'exhaustive closed-grid state search against a reference model (E3)', '3/C16'),
 'C17': ('exploration', 'valid parses (generated, extracted, re-split at every position near block edges) and every single-field corruption of them through ZSTD_compressSequences',
         '10 source shapes', 'exhaustive enumeration of parses and single faults (E1)', '3/C17'),
 'C18': ('exploration', 'sample-set grammar x capacities x algorithms x tuning parameters within 2 deviations of a base; threaded optimisers under the scheduler',
         'sample sets from a grammar only', 'deviation-bounded exhaustive enumeration (E1, E2)', '3/C18'),
 'C19': ('fault_enumeration', 'for each CLI invocation the process tree is killed at every file-system-relevant system call (thorough: every system call); user data must be recoverable after each',
         'process kill, not power loss; write failures: every data-writing call fails once with ENOSPC while the process lives on (exit status and recoverability judged)', 'exhaustive crash-point and write-failure enumeration under ptrace (E4)', '3/C19'),
 'C20': ('model_checking', 'closed state graph of the seekable reader: from every reachable state every (offset, length); every single-byte corruption of each archive',
         'reader graph: contents <= 28 bytes; plus seek tables of 10 922..36 000 entries and 300 KB archives with multi-block frames (enumerated, not graph-closed)', 'explicit-state search to fixpoint (E3)', '3/C20'),
}
checks, na = [], []
for pid in sorted(T):
    lvl, text, note, tech, ref = T[pid]
    if os.path.exists('%s/checks/%s.py' % (V, pid)):
        checks.append(dict(property_id=pid, quick_cmd='./vcheck run %s --tier quick' % pid, thorough_cmd='./vcheck run %s --tier thorough' % pid,
                           evidence_file='evidence/%s.json' % pid, replay_cmd_template='./vcheck replay {path}', engine='vcheck',
                           level_claimed=dict(category=lvl, text=text, design_ref='DESIGN.md §' + ref), level_note=note, technique=tech))
    else:
        na.append(dict(property_id=pid, reason='check not built yet (planned: %s); nothing is claimed for this property until its check exists and has run to completion' % tech))
hooks = json.load(open(V + '/tools/hooks.json'))
m = dict(version=1, setup_cmd='./vcheck setup', hooks=hooks,
         engines=[dict(name='vcheck', path='vcheck', serves_properties=[c['property_id'] for c in checks],
                       kind_free_text='python driver: rebuilds libzstd variants from /repo, runs C harnesses built on the choice-tree explorer (engine/vx.h), deterministic scheduler (engine/vsched.c), snapshot search and ptrace kill-point enumerator; writes evidence')],
         checks=checks, not_applicable=na,
         notes='All checks rebuild from /repo\'s working tree into /verif/build (git-ignored). VERIF_DEADLINE_S overrides the per-check time budget.')
json.dump(m, open(V + '/MANIFEST.json', 'w'), indent=1)
print('claimed:', [c['property_id'] for c in checks])
