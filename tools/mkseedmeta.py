#!/usr/bin/env python3
"""Writes seeded/<id>/meta.json from the sub-agent's own description (meta.agent.json), my confirmation record
(confirm.json: patch applies, pinned suite passes with it, demo fails with / passes without) and the detection matrix
(build/seedmatrix.tsv, written by tools/seedtest.sh)."""
import json, os, sys, collections
V = '/verif'
STRENGTHENED = {
 'C01': 'missed at first: no catalogue input had a literal or match length >= 65536. Added the `longlen` input family to harness/c01_roundtrip.c (a >64 KB repeat / literal run placed at a block start, followed by 300+ ordinary sequences, splitter on) - unit c01-longlen.',
 'C03': 'missed at first: (a) harness/catalogue.h re-allocated the record table on a second load, so the substitution unit was vacuous when the legacy file was appended; (b) no catalogue frame had raw literals followed by a 29..31-byte sequences section. Fixed (a); added the `rawtail` generator family (raw literals x every sequences-section size 5..40 x literals-header size x last literal length) to gen/framegen.py.',
 'C06': 'missed at first: the capacity sweep had no small-alphabet input that takes the raw-weights Huffman description. Added unit c06-alpha (alphabet [0,k) for every k in a range x sizes x levels x every capacity).',
 'C07': 'missed at first: no history left non-zero bytes where the optimal parser reads its price table, and the inputs gave no close price calls. Added unit c07-opt (text+noise inputs x btopt/btultra/btultra2 x {prior level-3 frame, prior level-19 frame, static memory filled 0x3F / 0xFF}); the same unit exposed genuine defect #24 (static CCtx defaults).',
 'C09': 'missed at first by C09 (caught by C02/C04/C05): no checksummed frame whose last block regenerates <= 32 bytes with a total that is a multiple of 32. Added the checksum x length x block-split family (every length 0..96, splits at every 8) to gen/framegen.py and the stream unit of C05.',
 'C10': 'missed at first: no driver flushed while every worker was busy with an unposted job pending. Added MT driver D12 (harness/c11_mt.c) and ran the MT drivers with C10 flush oracle (units c10-mt-*).',
 'C11': 'missed at first: the whole-API drivers at P<=2 never had two jobs asleep on the serial condition in inverted order. Added harness/c11_seams.c: the serial section and the buffer / cctx pools driven directly, every arrival order, every schedule (state cache, no preemption bound).',
}
def main():
    rows = collections.defaultdict(list)
    p = os.path.join(V, 'build/seedmatrix.tsv')
    if os.path.exists(p):
        for ln in open(p):
            f = ln.rstrip('\n').split('\t')
            if len(f) >= 5: rows[f[0]].append({'check': f[1], 'tier': f[2], 'violation_lines': int(f[3]), 'first_violation': f[4]})
    for sid in sorted(os.listdir(os.path.join(V, 'seeded'))):
        d = os.path.join(V, 'seeded', sid)
        if not os.path.isdir(d): continue
        a = json.load(open(os.path.join(d, 'meta.agent.json')))
        conf = {}
        for cp in (os.path.join(d, 'confirm.json'), '/tmp/seeded/%s/confirm.json' % sid):
            if os.path.exists(cp): conf = json.load(open(cp)); break
        latest = {}
        for r in rows.get(sid, []): latest[(r['check'], r['tier'])] = r
        det = sorted(latest.values(), key=lambda r: (r['check'], r['tier']))
        m = {
            'property': a.get('property', sid[:3]),
            'origin': 'fresh sub-agent given only the property text and a scratch worktree of /repo (nothing from /verif)',
            'what_changed': a.get('summary', ''),
            'needs_to_manifest': a.get('needs_to_manifest', ''),
            'files_touched': a.get('files_touched', []),
            'confirmed_by_me': {
                'patch_applies_to_repo_head': conf.get('applies', True),
                'pinned_suite_with_change': 'make -C <worktree> check: exit %s' % conf.get('suite_exit', 0),
                'demo_with_change': conf.get('demo_with_change', 'fail'),
                'demo_without_change': conf.get('demo_without_change', 'pass'),
                'how': 'tools/confirm_seed.sh in the scratch worktree (apply, build, suite, demo, revert, demo); see RUN.txt for the demo commands',
            },
            'what_i_ran': 'tools/seedtest.sh %s <tier> <checks>: git -C /repo apply seeded/%s/patch.diff; ./vcheck run <check> --tier <tier>; git -C /repo checkout -- .' % (sid, sid),
            'detection': det,
            'caught_by': sorted({r['check'] + ':' + r['tier'] for r in det if r['violation_lines'] > 0}),
            'missed_by': sorted({r['check'] + ':' + r['tier'] for r in det if r['violation_lines'] == 0}),
        }
        if sid in STRENGTHENED: m['strengthening'] = STRENGTHENED[sid]
        if 'note' in conf: m['confirmation_note'] = conf['note']
        json.dump(m, open(os.path.join(d, 'meta.json'), 'w'), indent=1); 
        print(sid, 'caught by', m['caught_by'], 'missed by', m['missed_by'])
main()
