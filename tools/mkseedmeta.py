#!/usr/bin/env python3
"""Writes seeded/<id>/meta.json from the sub-agent's own description (meta.agent.json), my confirmation record
(confirm.json: patch applies, pinned suite passes with it, demo fails with / passes without) and the detection matrix
(build/seedmatrix.tsv, written by tools/seedtest.sh)."""
import json, os, sys, collections
V = '/verif'
STRENGTHENED = {
 'C01': 'missed at first: no catalogue input had a literal or match length >= 65536. Added the `longlen` input family to harness/c01_roundtrip.c (a >64 KB repeat / literal run placed at a block start, followed by 300+ ordinary sequences, splitter on) - unit c01-longlen.',
 'C03': 'missed at first: (a) harness/catalogue.h re-allocated the record table on a second load, so the substitution unit was vacuous when the legacy file was appended; (b) no catalogue frame had raw literals followed by a 29..31-byte sequences section. Fixed (a); added the `rawtail` generator family (raw literals x every sequences-section size 5..40 x literals-header size x last literal length) to gen/framegen.py.',
 'C06': 'missed at first: the capacity sweep had no small-alphabet input that takes the raw-weights Huffman description. Added unit c06-alpha (alphabet [0,k) for every k in a range x sizes x levels x every capacity).',
 'C07': 'missed at first: no history left non-zero bytes where the optimal parser reads its price table, and the inputs gave no close price calls. Added unit c07-opt (text+noise inputs x btopt/btultra/btultra2 x {prior level-3 frame, prior level-19 frame, static memory filled 0x3F / 0xFF}); the same unit exposed genuine defect #24 (static CCtx defaults).',
 'C09': 'missed at first by C09 (caught by C02/C04/C05): no checksummed frame whose last block regenerates <= 32 bytes with a total that is a multiple of 32. Added the checksum x length x block-split family (every length 0..96, splits at every 8) to gen/framegen.py and the stream unit of C05.',
 'C10': 'missed at first: no driver flushed while every worker was busy with an unposted job pending. Added MT driver D12 (harness/c11_mt.c) and ran the MT drivers with C10 flush oracle (units c10-mt-*).',
 'C11': 'missed at first: the whole-API drivers at P<=2 never had two jobs asleep on the serial condition in inverted order. Added harness/c11_seams.c: the serial section and the buffer / cctx pools driven directly, every arrival order, every schedule (state cache, no preemption bound).',
}
STRENGTHENED.update({
 'C01-r2': 'missed at first (no two consecutive blocks whose literal alphabets differ in their top symbol). Added the block-type family `c01-blocks` / `c05-blocks`: each of the first 2-3 blocks one of 9 characters, 8 entry points incl. CDict / loadDictionary.',
 'C05-r2': 'missed at first (no dictionary entry point met a first block that is a single-byte run). Caught by the same block-type family, run in conformance mode (`c05-blocks`); C08 got two run-block shapes as well.',
 'C07-r2': 'missed at first (no multithreaded subject). Added unit `c07-mt` (sched-asan build, 1 KiB jobs, deterministic schedule): workers x LDM x call pattern x checksum x 7 prior histories on the same context.',
 'C11-r2': 'missed at first (every driver set windowLog explicitly). Added driver D13: level changed between 1 MiB jobs with the level-derived window, repeats 700 000 bytes back, judged by R.',
 'C15-r2': 'missed at first (C02 caught it). Added streaming with a flush after every 1792-byte chunk and the ring-resonant record shape to `c15-histories`.',
 'C17-r2': 'missed at first (no source had a block that becomes RLE). Added two source kinds whose every other block is a single-byte run.',
 'C18-r2': 'missed at first (the samples lived in a larger buffer, a 1-2 byte over-read met no redzone). The trainers now get allocations of exactly the samples / sizes length.',
 'C01-r3': 'missed at first (targetCBlockSize only split blocks of > 1340 compressed bytes; blocks were 1 KiB). Added block-size classes to the block-type family: 8 KiB blocks with / without targetCBlockSize, and 128 KiB blocks whose second block is 50 KiB of literal-free copies followed by new text.',
 'C02-r3': 'missed at first (decoder graphs only on records <= 160 B, never past the output ring). Added unit `c02-ring`: window 1 KiB, full blocks, a short block of c bytes, then a block with a match almost a window back and Huffman literals; streaming decode under 5 slicings against the one-shot result.',
 'C03-r3': 'missed at first (legacy seeds were the few frames of the test golden data). Added hand-built v0.5 / v0.6 / v0.7 frames with blocks at, one over and twice the window-limited block size.',
 'C05-r3': 'missed at first (no sequence-level entry in C05). C05 now runs the C17 enumeration judged by R (`c05-sequences`), and C17 got a variant with one explicitly delimited block above the block-size limit (refusal or a conformant frame).',
 'C06-r3': 'missed at first (capacity sweep only for single-call entries). Added entries that close the frame by a call of its own: stable-output streaming flush + end, and buffer-less continue + end(NULL,0), every total capacity.',
 'C07-r3': 'missed at first (no rsyncable subject, ample output only). `c07-mt` now has rsyncable (3 MiB input, 256 KiB jobs) and three output-room classes; the reference is a fresh context with ample room.',
 'C09-r3': 'missed at first by C09 (C16 caught it). Checksum bit flips are now also decoded on contexts that are nominally at defaults: verification switched off then full reset / parameter reset, heap and static.',
 'C10-r3': 'missed at first (only exact hint-following was walked). Added readers with a 1 / 2 / 3 / 5 / 16 / 64-byte buffer: content, every given byte taken, completion exactly at the frame end.',
 'C11-r3': 'missed at first by the output oracle. Caught by the new race detection: driver D14 (overlap = one job, half-size first job, one job of input per call) in the sched-tsan build reports the caller write racing the worker read.',
 'C13-r3': 'missed at first (after a refused allocation only the failed job was retried). After reset the context now first does a smaller, different job, then the retry.',
 'C14-r3': 'missed at first (no history longer than 3 calls). Added unit `c14-wear`: 300 small jobs, then one large job, on static contexts of exactly the estimated size.',
 'C15-r3': 'missed at first in the time budget (caught when the unit ran to completion). Added the repeated-record shape and denser LDM hashing; sources are exact-size allocations.',
 'C17-r3': 'missed at first (no literal run of 65536). Added the long-length family `c17-longlen`: literal run of 65535..65538 followed by a repcode match, own parse and ZSTD_generateSequences output.',
 'C20-r3': 'missed at first (archives had <= 28 frames). Added unit `c20-bigtable`: 10922..36000 one-byte frames, every accessor of every frame, reads around the load-buffer boundaries.',
 'C01-r4': 'missed at first (the raw-literals fallback needs a literal entropy inside a narrow band). Added the literal-entropy sweep `c01-litband`: block A Huffman-friendly, blocks B and C one nearly flat distribution whose hot fraction is swept in 41 steps, three block sizes.',
 'C02-r4': 'missed at first (no stable-buffer mode in the histories). Added unit `c02-stable`: every history of <= 3 continue / flush calls on a growing stable input buffer, then end, with and without a stable output buffer.',
 'C04-r4': 'missed at first (literal sections of the catalogue were too short and too uniform for the four streams to drift apart). Added compressor records with 2.5 / 12 KB of Huffman literals whose one quarter uses three frequent symbols.',
 'C05-r4': 'missed at first by C05 (C08 caught it). The dictionary entries of the block-type family now take a raw dictionary or structured ones with IDs 255 / 256 / 65535 / 65536; the frame must carry that ID.',
 'C07-r4': 'missed at first, and on two further attempts (prior frame with the dictionary\'s table geometry; unsanitized build, where it only showed through memory recycled inside a worker process and could not be replayed). Decided by a custom allocator whose blocks arrive filled with small plausible indices, i.e. looking like a recycled index table: the digested-dictionary variant of `c07-opt` then differs from a fresh context, reproducibly.',
 'C08-r4': 'missed at first (dictionaries were always loaded as ZSTD_dct_auto). Added unit `c08-rawcontent`: every structured dictionary declared raw content x {CDict, loadDictionary, refPrefix} x 4 attachment strategies x 3 levels: no ID in the frame, decodes with the bytes as raw content, R agrees.',
 'C10-r4': 'missed at first by C10 (the rsyncable subject of C07 hung on it). Added MT driver D15: rsyncable with real synchronisation points (256 KiB jobs, 2.5 MiB), end / flush with and without payload; the livelock horizon fires.',
 'C11-r4': 'NOT CAUGHT. Driver D16 (LDM, 3-4 workers, 24 jobs, window 4 KiB so that the round buffer wraps) was added and explored in the race-detecting build: exhaustive at P=1, D=1 (4 303 schedules), 470 387 schedules at P=2, D=2 in 600 s; the required schedule (one LDM step four sections behind the caller right after a wrap) was not reached.',
 'C14-r4': 'missed at first (a static DDict carries no allocator, so a counting ZSTD_customMem sees nothing). `c14-dicts` now compares the process heap (mallinfo2) around the static init calls and also hands over non-zeroed caller memory.',
 'C15-r4': 'missed at first (the frequent-correction build keeps the index low, so the pre-emptive reset at frame start is never taken). Added build variant `ovf-limit` (lowered limit, no frequent correction) and unit `c15-marathon`: 3 x 300 KB + 5..10 x 20 KB of warm-up so that the index ends between the "too close" mark and the limit, then every (shape, size, strategy, api).',
 'C16-r4': 'missed at first (C16 only modelled parameters, not dictionaries). Added unit `c16-dicts`: reference model of the dictionary a context holds over all histories of <= 4 operations (load / ref / prefix / frame / failing frame / three resets), probe frame compared with a fresh context holding the model\'s dictionary; both CCtx and DCtx.',
 'C17-r4': 'missed at first (producers behaved the same for every block). Added producers that serve the first 1-3 blocks with exactly 1..4 matches each and then fail (fallback on), and a source whose every block starts with a repcode-1 copy followed by a run (needs the right second repcode).',
 'C18-r4': 'missed at first (both determinism runs started from the same buffer content and no capacity left a remainder below d). The two runs now start from different buffer contents; capacities 1027 and 16389 added.',
 'C19-r4': 'missed at first (kill points model crashes, not failing calls). Added a third phase: in every scenario every data-writing call fails once with ENOSPC while the process lives on (ptrace: call skipped, result rewritten); oracle: non-zero exit status and recoverable data.',
 'C20-r4': 'missed at first (frames never exceeded one block). Added unit `c20-bigframes`: 300 KB of content, three maxFrameSize values, checksum on / off, input offered whole or in pieces, output room 1000 bytes or ample; every frame and 8 ranges read back.',
 'C02-r5': 'missed at first. Added a fourth input texture to the streaming-compressor histories: period 4 with a zero byte, the last byte of every KiB replaced, so that a repcode match starts exactly on the first byte of a new segment of the input ring while the byte in front of the segment in memory differs from the real previous byte.',
 'C03-r5': 'missed at first (single-byte substitutions do not produce offsets beyond two laps of the output ring). Added the `laps` catalogue family (3..10 run-length blocks through a 1 KiB window, then a match) and C03-only invalid seeds of the same shape with offsets 1025..9000.',
 'C07-r5': 'missed at first (no subject had two full 128 KiB blocks). Added unit `c07-big`: 400 KB subjects x 5 levels x 3 entry points x heap / static after priors that leave large per-frame counters behind.',
 'C11-r5': 'missed at first (no driver kept the consumer slower than the workers). Added driver D17: 12 jobs offered with one byte of output room per call, then end.',
 'C15-r5': 'missed at first by C15 (the multithreaded unit of C07 catches it). That unit now also runs as `c15-mt-reuse`.',
 'C17-r5': 'missed at first: my own corruption table listed "offset 0 with a match length" as acceptable. In explicit-delimiter mode it is a malformed delimiter and must be refused (zstd does refuse it).',
})

STRENGTHENED.update({
 'C11-r4': 'missed in rounds 4 and 5 (the whole-API drivers judged the wrap by the output; random content gives the matcher nothing to read in the overwritten section). Caught since round 6 by the seam harness harness/c11_ring.c (unit c11-seam2): real caller logic + pool + serial step, block compression stubbed out, ghost stamps on every byte of the round buffer; reported at P<=1, D<=1 in 10 s.',
 'C04-r6': 'missed at first (no catalogue record put 31..38 extra bits between two refills of the bit container). Added the `bits` family to gen/framegen.py: blocks of six sequences with (offset, match-length, literals-length) extra-bit counts over a grid (totals 9 .. 39), tables at maximal accuracy with the used codes at probability "less than one", and the same with the predefined tables.',
 'C07-r6': 'missed at first (subjects of <= 400 KB with default table sizes never fill a row of the row finder, so a history-dependent row placement does not show). Added a 900 KB archive-like subject compressed with the row finder, hashLog 10 and a 16 KiB window to c07-big, and an input with match-less stretches of > 2 KiB followed by repeats of what was skipped to c07-histories.',
 'C08-r6': 'missed at first (inputs were at most a few KB, so no offset code beyond what a first block can need). Added unit c08-far (3 / 5 / 9 raw 128 KiB blocks, then a block copying from the dictionary and from the first blocks, x structured dictionaries x 3 supplies x levels 1 / 3 / 5) and two offset tables "every code 0..17 / 0..18 present, nothing above" to gen/dictgen.py.',
 'C09-r6': 'C09\'s check does not drive the seekable reader; the change is caught as built by C20 (c20-corrupt). The first C09 run against this worktree reported the unrelated pledged-size defect of the then unrepaired base (defect #25, found through this agent\'s side observation and fixed in /repo ce871a7); the row kept here is the run on the repaired base.',
 'C12-r6': 'missed as built (780 168 schedules, no alarm: jobs of the grammar posted only with tryAdd, and a blocked external poster is woken late but always woken). The grammar now allows one job per program that posts its child with the blocking call, on pools that keep >= 2 threads (deadlock-free on an ideal pool): deadlock found.',
 'C13-r6': 'missed at first (multithreaded scenarios ran on the default schedule only, where job N-1 has always taken its serial turn before job N allocates). Added units c13-mtsched (P<=1, D<=1) and c13-mtsched-d2 (P<=1, D<=2 for the two-worker scenario; thorough: all): the preempted worker is overtaken by the other one, whose allocation is refused: deadlock found.',
 'C14-r6': 'missed at first by C14 (a static stream only ever decoded one frame). Added unit c14-dseq: every sequence of 2-3 frames out of 8 kinds with differently distributed buffer needs on one static (estimateDStreamSize) or heap stream, 3 input slicings, 2 output rooms.',
 'C16-r6': 'missed at first (the struct setters ZSTD_CCtx_setCParams / setFParams / setParams were not in the operation alphabet). Added operation structSetter to c16-grid: valid struct with the opposite frame flags and the parameter under test replaced by lo / hi / lo-1 / hi+1; refused => nothing changed, accepted => every member reads back.',
})

STRENGTHENED.update({
 'C01-r7': 'the same change as the round-1 C15 seed (cycle log from hashLog), given here for C01: it needs index rebasing, which C01\'s builds never reach; caught by C15 (frequent-correction build), as in round 1.',
 'C05-r7': 'widened before the first run (a miss was predicted from reading the patch: no block of the family was "almost a run"). Added block character 10 to the block-type family of C01 / C05: a run with three stray bytes whose bits are subsets of those of the run byte, away from the block start.',
 'C10-r7': 'widened before the first run (predicted miss: every walk started from a fresh or fully drained context). The hint-following walk of c10-dstream / c02-dstream now also starts after another frame was decoded with every input byte given and one byte of output room per call (3 calls / until the input is used up) and abandoned by ZSTD_initDStream.',
 'C18-r7': 'widened before the first run (predicted miss: corpora of a few KB never fill the legacy trainer\'s 10 000-entry segment table). Added unit c18-manyseg: 14 000 distinct repeated 20-byte words (2.7 MB corpus) through trainFromBuffer_legacy and trainFromBuffer.',
 'C19-r7': 'widened before the first run (predicted miss: the mixed multi-file scenarios had the damaged file last). Added scenarios with the truncated / corrupted file first.',
})

def main():
    rows = collections.defaultdict(list)
    p = os.path.join(V, 'build/seedmatrix.tsv')
    if os.path.exists(p):
        for ln in open(p):
            f = ln.rstrip('\n').split('\t')
            if len(f) >= 5: rows[f[0]].append({'check': f[1], 'tier': f[2], 'violation_lines': int(f[3]), 'first_violation': f[4]})
    for sid in sorted(os.listdir(os.path.join(V, 'seeded'))):
        d = os.path.join(V, 'seeded', sid)
        if not os.path.isdir(d): continue
        if not os.path.exists(os.path.join(d, 'meta.agent.json')): continue
        a = json.load(open(os.path.join(d, 'meta.agent.json')))
        conf = {}
        for cp in (os.path.join(d, 'confirm.json'), '/tmp/seeded/%s/confirm.json' % sid):
            if os.path.exists(cp): conf = json.load(open(cp)); break
        latest = {}
        for r in rows.get(sid, []): latest[(r['check'], r['tier'])] = r
        det = sorted(latest.values(), key=lambda r: (r['check'], r['tier']))
        m = {
            'property': sid[:3], 'round': int(sid[5:]) if '-r' in sid else 1,
            'origin': 'fresh sub-agent given only the property text and a scratch worktree of /repo (nothing from /verif)',
            'what_changed': a.get('summary', ''),
            'needs_to_manifest': a.get('needs_to_manifest', ''),
            'files_touched': a.get('files_touched', []),
            'confirmed_by_me': {
                'patch_applies_to_repo_head': conf.get('applies', True),
                'pinned_suite_with_change': 'make -C <worktree> check: exit %s' % conf.get('suite_exit', 0),
                'demo_with_change': conf.get('demo_with_change', 'fail'),
                'demo_without_change': conf.get('demo_without_change', 'pass'),
                'how': 'tools/confirm_seed.sh (round 1) / tools/confirm_seed2.sh (later rounds) in the scratch worktree: patch applies to a clean tree, make check exit status, demo with the change, demo without it',
            },
            'what_i_ran': ('tools/seedtest.sh %s <tier> <checks>: git -C /repo apply seeded/%s/patch.diff; ./vcheck run <check> --tier <tier>; git -C /repo checkout -- .' % (sid, sid)) if '-r' not in sid else
                          ('tools/seedrun.sh seeded/%s <scratch worktree of /repo HEAD with the patch applied> <tier> <checks>: VERIF_REPO=<worktree> VERIF_OUT=<scratch> ./vcheck run <check> --tier <tier> (nothing under /repo or /verif/evidence is touched)' % sid),
            'detection': det,
            'caught_by': sorted({r['check'] + ':' + r['tier'] for r in det if r['violation_lines'] > 0}),
            'missed_by': sorted({r['check'] + ':' + r['tier'] for r in det if r['violation_lines'] == 0}),
        }
        if sid in STRENGTHENED: m['strengthening'] = STRENGTHENED[sid]
        if 'note' in conf: m['confirmation_note'] = conf['note']
        json.dump(m, open(os.path.join(d, 'meta.json'), 'w'), indent=1); 
        print(sid, 'caught by', m['caught_by'], 'missed by', m['missed_by'])
main()
