#!/bin/bash
# usage: tools/seedtest.sh <seed id> <tier> <check ids...> : apply the seeded patch to /repo, run the checks, undo
id=$1; tier=$2; shift 2
cd /repo && git apply /tmp/seeded/$id/patch.diff || { echo "patch does not apply"; exit 2; }
git -C /repo diff --stat | tail -1
cd /verif
for c in "$@"; do
  out=$(./vcheck run $c --tier $tier 2>&1)
  nv=$(echo "$out" | grep -c "^VIOLATION")
  echo "seed $id -> check $c ($tier): $nv violation line(s); $(echo "$out" | tail -1 | cut -c1-150)"
  echo "$out" | grep "^VIOLATION" | head -2 | sed 's/.*# /      /' | cut -c1-200
done
git -C /repo checkout -- . ; git -C /verif checkout -- evidence 2>/dev/null
