#!/bin/bash
# usage: tools/seedtest.sh <seed id> <tier> <check ids...>
# apply seeded/<id>/patch.diff to /repo, run the named checks, undo.  One result line per check is appended to
# build/seedmatrix.tsv (seed, check, tier, violation lines, first violation text).
id=$1; tier=$2; shift 2
cd /repo && git apply /verif/seeded/$id/patch.diff || { echo "patch does not apply"; exit 2; }
git -C /repo diff --stat | tail -1
cd /verif; mkdir -p build
for c in "$@"; do
  out=$(./vcheck run $c --tier $tier 2>&1)
  nv=$(echo "$out" | grep -c "^VIOLATION")
  first=$(echo "$out" | grep "^VIOLATION" | head -1 | sed 's/.*# //' | cut -c1-160)
  echo "seed $id -> check $c ($tier): $nv violation line(s); $(echo "$out" | tail -1 | cut -c1-150)"
  echo "$out" | grep "^VIOLATION" | head -2 | sed 's/.*# /      /' | cut -c1-200
  printf "%s\t%s\t%s\t%s\t%s\n" "$id" "$c" "$tier" "$nv" "$first" >> build/seedmatrix.tsv
done
git -C /repo checkout -- . ; git -C /verif checkout -- evidence 2>/dev/null
