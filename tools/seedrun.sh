#!/bin/bash
# usage: tools/seedrun.sh <seed dir> <scratch worktree with the change applied> <tier> <check ids...>
# runs the named checks against the scratch tree (VERIF_REPO), evidence / replays / binaries go to a scratch output
# directory (VERIF_OUT) so that nothing under /verif/evidence is touched and /repo is never modified.
# One line per check is appended to build/seedmatrix.tsv (seed, check, tier, violation lines, first violation text).
sd=$1; wt=$2; tier=$3; shift 3; id=$(basename $sd)
out=/tmp/seedout/$id; mkdir -p $out /verif/build
cd /verif
for c in "$@"; do
  o=$(VERIF_REPO=$wt VERIF_OUT=$out ./vcheck run $c --tier $tier 2>&1)
  nv=$(echo "$o" | grep -c "^VIOLATION")
  first=$(echo "$o" | grep "^VIOLATION" | head -1 | sed 's/.*# //' | cut -c1-160)
  echo "seed $id -> check $c ($tier): $nv violation line(s); $(echo "$o" | tail -1 | cut -c1-150)"
  echo "$o" | grep "^VIOLATION" | head -2 | sed 's/.*# /      /' | cut -c1-200
  printf "%s\t%s\t%s\t%s\t%s\n" "$id" "$c" "$tier" "$nv" "$first" >> build/seedmatrix.tsv
done
rm -rf $out/bin $out/err
