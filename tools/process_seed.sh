#!/bin/bash
# usage: tools/process_seed.sh <round dir, e.g. /tmp/r7> <property id> <suffix, e.g. r7> [checks...]
# copies the sub-agent's deliverables to seeded/<id>-<suffix>, confirms them in the agent's worktree (patch applies to a clean tree, pinned suite passes with it,
# demo fails with / passes without) and runs the named checks (default: the property's own) against that worktree.
rd=$1; id=$2; sfx=$3; shift 3; checks=${@:-$id}
sd=/verif/seeded/$id-$sfx; mkdir -p $sd; cp -r $rd/$id/out/. $sd/
/verif/tools/confirm_seed2.sh $sd $rd/$id/wt > $rd/$id/confirm.out 2>&1
tail -1 $rd/$id/confirm.out | cut -c1-300
/verif/tools/seedrun.sh $sd $rd/$id/wt quick $checks 2>&1 | cut -c1-260
