#!/usr/bin/env python3
"""dev helper: build one vx harness the way a check does and print the executable path.
usage: tools/buildunit.py <name> <variant> <harness.c>[,more.c] [--engine engine/vsched.c] [--exclude zstdmt_compress.c]   (VERIF_REPO / VERIF_OUT honoured)"""
import sys, os, importlib.util, importlib.machinery
V = os.path.dirname(os.path.dirname(os.path.abspath(__file__)))
sys.path.insert(0, V); sys.path.insert(0, V + '/checks')
spec = importlib.util.spec_from_loader('vcheck', importlib.machinery.SourceFileLoader('vcheck', V + '/vcheck'))
vc = importlib.util.module_from_spec(spec); sys.modules['vcheck'] = vc; spec.loader.exec_module(vc)
a = sys.argv[1:]
eng = [a[a.index('--engine') + 1]] if '--engine' in a else []
exc = tuple(a[a.index('--exclude') + 1].split(',')) if '--exclude' in a else ()
print(vc.build_harness(a[0], a[1], a[2].split(','), engine_srcs=eng, exclude=exc))
