#!/bin/bash
# usage: tools/confirm_seed2.sh <seed dir> <scratch worktree> : my own confirmation of a sub-agent's change:
# patch == worktree diff and applies to a clean tree, pinned suite passes with it, run_demo.sh fails with it and passes without.
sd=$1; wt=$2; id=$(basename $sd); log=$sd/confirm.log; : > $log
git -C $wt checkout -- . ; git -C $wt apply --check $sd/patch.diff || { echo '{"id":"'$id'","applies":false}' | tee $sd/confirm.json; exit 1; }
( cd $sd; timeout 1800 bash ./run_demo.sh $wt ) > $sd/.demo_without.out 2>&1; rc0=$?
git -C $wt apply $sd/patch.diff
( cd $sd; timeout 1800 bash ./run_demo.sh $wt ) > $sd/.demo_with.out 2>&1; rc1=$?
make -C $wt -j4 check > $sd/confirm_make_check.log 2>&1; suite=$?
tail -3 $sd/.demo_without.out >> $log; tail -3 $sd/.demo_with.out >> $log
echo "{\"id\":\"$id\",\"applies\":true,\"suite_exit\":$suite,\"demo_with_change_exit\":$rc1,\"demo_without_change_exit\":$rc0,\"demo_with_change\":\"$([ $rc1 -ne 0 ] && echo fail || echo pass)\",\"demo_without_change\":\"$([ $rc0 -eq 0 ] && echo pass || echo fail)\"}" | tee $sd/confirm.json
