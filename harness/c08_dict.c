/* C08: dictionaries round-trip in every mode.  Dictionary catalogue (raw + structured with unusual tables, incl.
 * ones that must be refused) x compression supply x attach preference x dedicated search x level x decompression
 * supply x input shapes; IDs; wrong-ID refusal; every single-byte corruption of a structured dictionary for
 * memory safety on both sides. */
#include "common.h"

typedef struct { char name[120]; u8* d; size_t n; unsigned flags; unsigned id; } drec_t;
static drec_t g_d[256]; static int g_nd;
static u8 *g_src, *g_dst, *g_out, *g_scratch; static int g_mode;
#define SRCCAP (1u << 16)

static void load_dicts(const char* path) {
    FILE* f = fopen(path, "rb"); if (!f) { fprintf(stderr, "cannot open %s\n", path); exit(3); }
    for (;;) { u8 b[4]; if (fread(b, 1, 4, f) != 4) break; uint32_t nl = vf_rd32(b); char tmp[1024]; if (nl >= sizeof tmp || fread(tmp, 1, nl, f) != nl) break;
        drec_t* r = &g_d[g_nd]; size_t k = nl < 119 ? nl : 119; memcpy(r->name, tmp, k); r->name[k] = 0;
        if (fread(b, 1, 4, f) != 4) break; r->n = vf_rd32(b); r->d = (u8*)malloc(r->n ? r->n : 1);   /* exact size: a read past the dictionary meets a redzone */ if (fread(r->d, 1, r->n, f) != r->n) break;
        if (fread(b, 1, 4, f) != 4) break; r->flags = vf_rd32(b);
        r->id = (r->n >= 8 && vf_rd32(r->d) == 0xEC30A437u) ? vf_rd32(r->d + 4) : 0;
        if (++g_nd >= 256) break; }
    fclose(f);
}
static void init(void) {
    g_mode = (int)vx_opt_int("--mode", 0); load_dicts(vx_opt("--dicts", "build/dicts.bin"));
    g_src = (u8*)malloc(SRCCAP); g_dst = (u8*)malloc(ZSTD_compressBound(SRCCAP)); g_out = (u8*)malloc(SRCCAP + 64); g_scratch = (u8*)malloc(SRCCAP + 64);
}

static size_t make_input(int shape, const drec_t* D, u8* p) {
    size_t tail = D->n > 120 ? 120 : D->n; const u8* t = D->d + D->n - tail;
    switch (shape) {
    case 0: return 0;
    case 1: p[0] = D->n ? D->d[D->n - 1] : 'x'; return 1;
    case 2: memcpy(p, t, tail); fill_text(p + tail, 200, 1); memcpy(p + tail + 200, t + tail / 2, tail - tail / 2); return tail + 200 + tail - tail / 2;      /* copies of the dictionary tail */
    case 3: { size_t h = D->n > 300 ? 300 : D->n; memcpy(p, D->d + (D->n - h), h); memcpy(p + h, D->d + (D->n > 600 ? D->n - 600 : 0), h); return 2 * h; }            /* far into the content */
    case 4: for (size_t i = 0; i < 700; i++) p[i] = (u8)(200 + (i * 7 + i / 13) % 56); return 700;                                           /* symbols the tables may omit */
    case 5: fill_noise(p, 400, 3); return 400;
    case 6: fill_text(p, 5000, 4); memcpy(p + 3000, t, tail); return 5000;                                                              /* longer than the 1 KiB-window configs */
    case 8: memset(p, 'r', 1024); fill_text(p + 1024, 1500, 6); memset(p + 2524, 'q', 1024); return 3548;                                  /* first block (1 KiB-window configs) is a run of one byte, more blocks follow */
    case 9: fill_text(p, 1024, 8); memset(p + 1024, 0, 1024); fill_noise(p + 2048, 700, 5); return 2748;                                    /* run block in the middle, raw block last */
    default: memcpy(p, D->d, D->n > 4000 ? 4000 : D->n); return D->n > 4000 ? 4000 : D->n;                                              /* the dictionary itself */
    }
}
static const int LEVELS[] = {1, 3, 5, 13, 16, 19};

static void body_roundtrip(void) {
    int di = vx_choose(g_nd), cs = vx_choose(6), attach = vx_choose(4), dds = vx_choose(2), li = vx_choose(6), smallWin = vx_choose(2);
    const drec_t* D = &g_d[di]; int level = LEVELS[li];
    vx_label("dict#%d csupply%d attach%d dds%d level%d win%d ;; %s (%zu bytes, flags %u)", di, cs, attach, dds, level, smallWin, D->name, D->n, D->flags);
    if ((attach || dds) && !(cs == 1 || cs == 2 || cs == 4)) { vx_obs_u64(21); return; }          /* attach / dedicated search only matter for digested dictionaries */
    int isStructured = (D->id != 0 || (D->n >= 4 && vf_rd32(D->d) == 0xEC30A437u));
    /* ---- load on both sides ---- */
    ZSTD_CCtx* c = ZSTD_createCCtx(); ZSTD_CDict* cd = NULL; ZSTD_DDict* dd = ZSTD_createDDict(D->d, D->n);
    ZSTD_CCtx_params* P = ZSTD_createCCtxParams(); ZSTD_CCtxParams_setParameter(P, ZSTD_c_compressionLevel, level); if (dds) ZSTD_CCtxParams_setParameter(P, ZSTD_c_enableDedicatedDictSearch, 1);
    if (smallWin) ZSTD_CCtxParams_setParameter(P, ZSTD_c_windowLog, 10);
    cd = ZSTD_createCDict_advanced2(D->d, D->n, cs == 2 ? ZSTD_dlm_byRef : ZSTD_dlm_byCopy, ZSTD_dct_auto, P, ZSTD_defaultCMem);
    int cLoads = cd != NULL, dLoads = dd != NULL;
    if (D->flags & 2) {   /* specification says: must be refused */
        if (cLoads && isStructured) vx_fail("compressor loads a dictionary that must be refused: %s", D->name);
        else if (dLoads) vx_fail("decompressor loads a dictionary that must be refused: %s", D->name);
        goto done;
    }
    if (cLoads != dLoads) { vx_fail("dictionary loaded by the %s but refused by the %s: %s", cLoads ? "compressor" : "decompressor", cLoads ? "decompressor" : "compressor", D->name); goto done; }
    if (!cLoads) { if (D->flags & 1) vx_fail("specification-valid dictionary refused by both sides: %s", D->name); goto done; }
    /* ---- IDs ---- */
    unsigned idD = ZSTD_getDictID_fromDict(D->d, D->n), idC = ZSTD_getDictID_fromCDict(cd), idDD = ZSTD_getDictID_fromDDict(dd);
    if (idD != D->id || idC != D->id || idDD != D->id) { vx_fail("dictionary ID queries disagree: dict %u cdict %u ddict %u, header says %u", idD, idC, idDD, D->id); goto done; }
    for (int shape = 0; shape < 10 && !vx_failed; shape++) for (int noID = 0; noID < 2 && !vx_failed; noID++) {
        size_t n = make_input(shape, D, g_src); size_t r;
        ZSTD_CCtx_reset(c, ZSTD_reset_session_and_parameters);
        if (cs != 0 && cs != 3) { ZSTD_CCtx_setParameter(c, ZSTD_c_compressionLevel, level); if (smallWin) ZSTD_CCtx_setParameter(c, ZSTD_c_windowLog, 10); }
        if (noID) ZSTD_CCtx_setParameter(c, ZSTD_c_dictIDFlag, 0);
        if (attach) ZSTD_CCtx_setParameter(c, ZSTD_c_forceAttachDict, attach);
        switch (cs) {
        case 0: if (noID) continue; r = ZSTD_compress_usingDict(c, g_dst, ZSTD_compressBound(n), g_src, n, D->d, D->n, level); break;
        case 1: case 2: ZSTD_CCtx_refCDict(c, cd); r = ZSTD_compress2(c, g_dst, ZSTD_compressBound(n), g_src, n); break;
        case 3: if (noID) continue; r = ZSTD_compress_usingCDict(c, g_dst, ZSTD_compressBound(n), g_src, n, cd); break;
        case 4: { size_t e = ZSTD_CCtx_loadDictionary(c, D->d, D->n); if (ZSTD_isError(e)) { vx_fail("CCtx_loadDictionary refuses a dictionary createCDict accepts: %s", ZSTD_getErrorName(e)); continue; } r = ZSTD_compress2(c, g_dst, ZSTD_compressBound(n), g_src, n); break; }
        default: ZSTD_CCtx_refPrefix_advanced(c, D->d, D->n, ZSTD_dct_rawContent); r = ZSTD_compress2(c, g_dst, ZSTD_compressBound(n), g_src, n); break;
        }
        if (ZSTD_isError(r)) { vx_fail("compression with the dictionary fails (shape %d): %s", shape, ZSTD_getErrorName(r)); break; }
        /* the frame records the ID unless told not to (prefix = raw content: no ID) */
        unsigned fid = ZSTD_getDictID_fromFrame(g_dst, r), want = (cs == 5 || noID) ? 0 : D->id;
        if (fid != want) { vx_fail("frame carries dictionary ID %u, expected %u (supply %d, dictIDFlag %d)", fid, want, cs, !noID); break; }
        /* reference decoder + conformance with the dictionary (structured ones parsed by R itself; prefix = raw bytes) */
        {   refcheck_t rc; rc_init(&rc); rc.interop = 1; rc.expectDictID = (long)want;
            const u8* rd = D->d; size_t rl = D->n; static u8 rawcopy[1 << 16];
            if (cs == 5 && isStructured) { /* as raw content the magic is content too: R would parse it as structured, so hand R an equivalent raw dictionary */ rawcopy[0] = 0; memcpy(rawcopy + 1, D->d, D->n); rd = rawcopy; rl = D->n + 1; }
            if (rl >= 8 && ref_check(&rc, g_dst, r, rd, rl, g_src, n, g_scratch, SRCCAP)) { vx_fail("reference decoder with the dictionary (supply %d shape %d): %s", cs, shape, rc.err); break; }
            if (rc.sawDictRef) vx_stat_add("frames_with_matches_into_dictionary", 1);
        }
        /* ---- every decompression supply ---- */
        for (int ds = 0; ds < 7 && !vx_failed; ds++) {
            ZSTD_DCtx* d = ZSTD_createDCtx(); size_t o; ZSTD_DDict* extra[9]; int nextra = 0;
            if (cs == 5) { if (ds != 4 && ds != 0) { ZSTD_freeDCtx(d); continue; } }       /* prefix frames: decoded with the same bytes as raw content */
            switch (ds) {
            case 0: if (cs == 5) { ZSTD_DCtx_refPrefix_advanced(d, D->d, D->n, ZSTD_dct_rawContent); o = ZSTD_decompressDCtx(d, g_out, SRCCAP, g_dst, r); } else o = ZSTD_decompress_usingDict(d, g_out, SRCCAP, g_dst, r, D->d, D->n); break;
            case 1: o = ZSTD_decompress_usingDDict(d, g_out, SRCCAP, g_dst, r, dd); break;
            case 2: ZSTD_DCtx_loadDictionary(d, D->d, D->n); o = ZSTD_decompressDCtx(d, g_out, SRCCAP, g_dst, r); break;
            case 3: ZSTD_DCtx_refDDict(d, dd); o = ZSTD_decompressDCtx(d, g_out, SRCCAP, g_dst, r); break;
            case 4: ZSTD_DCtx_refPrefix_advanced(d, D->d, D->n, cs == 5 ? ZSTD_dct_rawContent : ZSTD_dct_auto); o = ZSTD_decompressDCtx(d, g_out, SRCCAP, g_dst, r); break;
            default: {  /* multi-DDict table with 2 / 9 entries: the right dictionary is found by the frame's ID */
                if (want == 0) { ZSTD_freeDCtx(d); continue; }
                int target = ds == 5 ? 2 : 9; ZSTD_DCtx_setParameter(d, ZSTD_d_refMultipleDDicts, ZSTD_rmd_refMultipleDDicts);
                for (int k = 0; k < g_nd && nextra < target - 1; k++) if (g_d[k].id && g_d[k].id != D->id && (g_d[k].flags & 1)) { ZSTD_DDict* x = ZSTD_createDDict(g_d[k].d, g_d[k].n); if (x) { extra[nextra++] = x; ZSTD_DCtx_refDDict(d, x); } }
                ZSTD_DCtx_refDDict(d, dd);
                for (int k = 0; k < nextra / 2; k++) ZSTD_DCtx_refDDict(d, extra[k]);          /* re-referencing must not displace anything */
                o = ZSTD_decompressDCtx(d, g_out, SRCCAP, g_dst, r); }
            }
            if (ZSTD_isError(o) || o != n || (n && memcmp(g_out, g_src, n))) vx_fail("round trip fails: compression supply %d, decompression supply %d, shape %d: %s", cs, ds, shape, ZSTD_isError(o) ? ZSTD_getErrorName(o) : "content differs");
            for (int k = 0; k < nextra; k++) ZSTD_freeDDict(extra[k]);
            ZSTD_freeDCtx(d);
        }
        /* a dictionary with another ID must be refused, not used */
        if (!vx_failed && want != 0) for (int k = 0; k < g_nd; k++) if (g_d[k].id && g_d[k].id != D->id && (g_d[k].flags & 1)) {
            ZSTD_DCtx* d = ZSTD_createDCtx(); size_t o = ZSTD_decompress_usingDict(d, g_out, SRCCAP, g_dst, r, g_d[k].d, g_d[k].n); ZSTD_freeDCtx(d);
            if (!ZSTD_isError(o)) vx_fail("frame naming dictionary %u decodes without error using dictionary %u", D->id, g_d[k].id);
            break;
        }
        vx_obs_u64(vx_hash(g_dst, r)); if (r < n) vx_nontrivial();
    }
    if (vx_want_sample()) vx_sample("dict#%d %s (%zu B) supply %d attach %d dds %d level %d: 10 shapes x 7 decoders", di, D->name, D->n, cs, attach, dds, level);
done:
    ZSTD_freeCCtx(c); ZSTD_freeCDict(cd); ZSTD_freeDDict(dd); ZSTD_freeCCtxParams(P);
}

/* --mode 3: a structured dictionary (it starts with the dictionary magic) that the caller declares to be RAW CONTENT stays raw content on every path: no ID in
 * the frame, no entropy tables taken from it, whatever the attachment strategy (default / attach / copy / load) */
static void body_rawcontent(void) {
    int di = vx_choose(g_nd), cs = vx_choose(3), attach = vx_choose(4), li = vx_choose(3); const drec_t* D = &g_d[di]; static const int LV[] = {1, 3, 13};
    vx_label("rawcontent dict#%d supply%d attach%d level%d ;; %s", di, cs, attach, LV[li], D->name);
    if (!(D->n >= 8 && vf_rd32(D->d) == 0xEC30A437u)) { vx_obs_u64(41); return; }
    ZSTD_CCtx* c = ZSTD_createCCtx(); ZSTD_CDict* cd = NULL; static u8 rawcopy[1 << 16];
    for (int shape = 2; shape <= 7 && !vx_failed; shape += (shape == 3 ? 3 : 1)) {
        size_t n = make_input(shape, D, g_src), r;
        ZSTD_CCtx_reset(c, ZSTD_reset_session_and_parameters); ZSTD_CCtx_setParameter(c, ZSTD_c_compressionLevel, LV[li]); if (attach) ZSTD_CCtx_setParameter(c, ZSTD_c_forceAttachDict, attach);
        if (cs == 0) { if (!cd) { ZSTD_compressionParameters cp = ZSTD_getCParams(LV[li], 0, D->n); cd = ZSTD_createCDict_advanced(D->d, D->n, ZSTD_dlm_byCopy, ZSTD_dct_rawContent, cp, ZSTD_defaultCMem); } if (!cd) { vx_fail("createCDict refuses raw content"); break; } ZSTD_CCtx_refCDict(c, cd); }
        else if (cs == 1) { size_t e = ZSTD_CCtx_loadDictionary_advanced(c, D->d, D->n, ZSTD_dlm_byRef, ZSTD_dct_rawContent); if (ZSTD_isError(e)) { vx_fail("loadDictionary refuses raw content: %s", ZSTD_getErrorName(e)); break; } }
        else ZSTD_CCtx_refPrefix_advanced(c, D->d, D->n, ZSTD_dct_rawContent);
        r = ZSTD_compress2(c, g_dst, ZSTD_compressBound(n), g_src, n);
        if (ZSTD_isError(r)) { vx_fail("compression with a raw-content dictionary that starts with the dictionary magic fails (shape %d): %s", shape, ZSTD_getErrorName(r)); break; }
        if (ZSTD_getDictID_fromFrame(g_dst, r) != 0) { vx_fail("frame compressed with a RAW CONTENT dictionary carries dictionary ID %u", ZSTD_getDictID_fromFrame(g_dst, r)); break; }
        {   ZSTD_DDict* dd = ZSTD_createDDict_advanced(D->d, D->n, ZSTD_dlm_byRef, ZSTD_dct_rawContent, ZSTD_defaultCMem); ZSTD_DCtx* d = ZSTD_createDCtx();
            size_t o = ZSTD_decompress_usingDDict(d, g_out, SRCCAP, g_dst, r, dd);
            if (ZSTD_isError(o) || o != n || memcmp(g_out, g_src, n)) vx_fail("frame made with a raw-content dictionary does not decode with the same bytes as raw content: %s", ZSTD_isError(o) ? ZSTD_getErrorName(o) : "content differs");
            ZSTD_freeDCtx(d); ZSTD_freeDDict(dd); }
        if (!vx_failed && D->n + 1 <= sizeof rawcopy) { refcheck_t rc; rc_init(&rc); rc.interop = 1; rc.expectDictID = 0; rawcopy[0] = 0; memcpy(rawcopy + 1, D->d, D->n);
            if (ref_check(&rc, g_dst, r, rawcopy, D->n + 1, g_src, n, g_scratch, SRCCAP)) vx_fail("reference decoder with the bytes as raw content: %s", rc.err); }
        vx_obs_u64(vx_hash(g_dst, r)); vx_nontrivial();
    }
    ZSTD_freeCCtx(c); ZSTD_freeCDict(cd);
}

static void body_corrupt(void) {
    /* every single-byte corruption of the first 200 bytes of a structured dictionary: both sides stay memory-safe */
    int di = vx_choose(g_nd); const drec_t* D = &g_d[di]; int li = vx_choose(3);
    vx_label("corrupt dict#%d level%d ;; %s", di, LEVELS[li * 2 + 1], D->name);
    if (!D->id) { vx_obs_u64(31); return; }
    u8* m = (u8*)malloc(D->n); long nm = 0, nloaded = 0; size_t n = make_input(2, D, g_src);
    for (size_t p = 0; p < D->n && p < 220; p++) for (int k = 0; k < 6; k++) {
        memcpy(m, D->d, D->n); m[p] = k == 0 ? (u8)(m[p] ^ 1) : k == 1 ? (u8)(m[p] ^ 0x80) : k == 2 ? 0 : k == 3 ? 0xFF : k == 4 ? (u8)(m[p] + 1) : (u8)(m[p] - 1);
        if (m[p] == D->d[p]) continue; nm++;
        ZSTD_CDict* cd = ZSTD_createCDict(m, D->n, LEVELS[li * 2 + 1]); ZSTD_DDict* dd = ZSTD_createDDict(m, D->n);
        if (cd) { nloaded++; ZSTD_CCtx* c = ZSTD_createCCtx(); size_t r = ZSTD_compress_usingCDict(c, g_dst, ZSTD_compressBound(n), g_src, n, cd); ZSTD_freeCCtx(c);
            if (!ZSTD_isError(r) && dd) { ZSTD_DCtx* d = ZSTD_createDCtx(); size_t o = ZSTD_decompress_usingDDict(d, g_out, SRCCAP, g_dst, r, dd); ZSTD_freeDCtx(d);
                if (ZSTD_isError(o) || o != n || memcmp(g_out, g_src, n)) { vx_fail("corrupted dictionary (byte %zu) loaded by both sides but the round trip fails", p); break; } }
            if (!ZSTD_isError(r) && !dd) { vx_fail("corrupted dictionary (byte %zu) loaded by the compressor, refused by the decompressor", p); break; } }
        else if (dd) { /* decoder more permissive than the encoder: allowed (the encoder validates table coverage) */ }
        { ZSTD_CCtx* c = ZSTD_createCCtx(); ZSTD_CCtx_setParameter(c, ZSTD_c_compressionLevel, LEVELS[li * 2 + 1]); size_t e = ZSTD_CCtx_loadDictionary(c, m, D->n); if (!ZSTD_isError(e)) (void)ZSTD_compress2(c, g_dst, ZSTD_compressBound(n), g_src, n); ZSTD_freeCCtx(c); }
        ZSTD_freeCDict(cd); ZSTD_freeDDict(dd);
        if (vx_failed) break;
    }
    free(m);
    vx_obs_u64((uint64_t)di * 8 + (uint64_t)li); vx_obs_u64((uint64_t)nloaded); vx_nontrivial();
    vx_stat_add("corrupted_dictionaries", nm); vx_stat_add("corrupted_dictionaries_still_loaded", nloaded);
}

/* multi-DDict table: dictionaries whose IDs hash to the same slot, placed at the end of the table, so that every
 * insertion and lookup has to probe across the wrap-around; table growth past the load factor */
static void body_hashset(void) {
    int base = -1; for (int k = 0; k < g_nd; k++) if (g_d[k].id && (g_d[k].flags & 1) && g_d[k].n > 600) { base = k; break; }
    if (base < 0) { vx_fail("no structured dictionary in the catalogue"); return; }
    int slot = vx_choose(3) == 0 ? 63 : vx_choose(2) ? 62 : 0, ncoll = 2 + vx_choose(4), nfill = vx_choose(3) * 16, order = vx_choose(3), stream = vx_choose(2);
    vx_label("hashset slot%d colliding%d filler%d order%d stream%d", slot, ncoll, nfill, order, stream);
    ZSTD_DDict* dd[64]; u8* copies[64]; unsigned ids[64]; int n = 0;
    /* IDs whose XXH64 lands on `slot` in a 64-entry table (own XXH64), then filler IDs anywhere */
    for (unsigned id = 1000; n < ncoll && id < 2000000; id++) { u8 le[4] = { (u8)id, (u8)(id >> 8), (u8)(id >> 16), (u8)(id >> 24) }; if ((vf_xxh64(le, 4, 0) & 63) == (uint64_t)slot) ids[n++] = id; }
    for (unsigned id = 5000000; n < ncoll + nfill; id += 7) ids[n++] = id;
    for (int k = 0; k < n; k++) { copies[k] = (u8*)malloc(g_d[base].n); memcpy(copies[k], g_d[base].d, g_d[base].n); copies[k][4] = (u8)ids[k]; copies[k][5] = (u8)(ids[k] >> 8); copies[k][6] = (u8)(ids[k] >> 16); copies[k][7] = (u8)(ids[k] >> 24);
        copies[k][g_d[base].n - 1 - (size_t)(k % 50)] ^= 0x55;   /* contents differ, so a wrongly selected dictionary shows */
        dd[k] = ZSTD_createDDict(copies[k], g_d[base].n); if (!dd[k]) { vx_fail("structured dictionary with another ID refused"); return; } }
    ZSTD_DCtx* d = ZSTD_createDCtx(); ZSTD_DCtx_setParameter(d, ZSTD_d_refMultipleDDicts, ZSTD_rmd_refMultipleDDicts);
    for (int k = 0; k < n; k++) { int j = order == 0 ? k : order == 1 ? n - 1 - k : (k * 7) % n; if (order == 2 && n % 7 == 0) j = k; size_t e = ZSTD_DCtx_refDDict(d, dd[j]); if (ZSTD_isError(e)) { vx_fail("refDDict fails: %s", ZSTD_getErrorName(e)); } }
    for (int k = 0; k < n && !vx_failed; k++) {
        size_t len = 300; memcpy(g_src, copies[k] + g_d[base].n - 200, 200); fill_text(g_src + 200, 100, (uint32_t)k);
        ZSTD_CCtx* c = ZSTD_createCCtx(); size_t r = ZSTD_compress_usingDict(c, g_dst, ZSTD_compressBound(len), g_src, len, copies[k], g_d[base].n, 3); ZSTD_freeCCtx(c);
        if (ZSTD_isError(r)) { vx_fail("compress_usingDict: %s", ZSTD_getErrorName(r)); break; }
        size_t o;
        if (!stream) o = ZSTD_decompressDCtx(d, g_out, SRCCAP, g_dst, r);
        else { ZSTD_inBuffer in = { g_dst, r, 0 }; ZSTD_outBuffer out = { g_out, SRCCAP, 0 }; size_t h = 1; int it = 0; while (h && !ZSTD_isError(h) && it++ < 100) { ZSTD_inBuffer one = { g_dst, in.pos + 9 > r ? r : in.pos + 9, in.pos }; h = ZSTD_decompressStream(d, &out, &one); in.pos = one.pos; } o = ZSTD_isError(h) ? h : out.pos; }
        if (ZSTD_isError(o) || o != len || memcmp(g_out, g_src, len)) vx_fail("multi-DDict table (%d dictionaries, %d colliding on slot %d): frame for dictionary #%d %s", n, ncoll, slot, k, ZSTD_isError(o) ? ZSTD_getErrorName(o) : "decodes to wrong bytes");
    }
    ZSTD_freeDCtx(d); for (int k = 0; k < n; k++) { ZSTD_freeDDict(dd[k]); free(copies[k]); }
    vx_obs_u64((uint64_t)(slot * 1000 + ncoll * 100 + nfill)); vx_nontrivial(); vx_stat_add("hashset_lookups", n);
}


/* --mode 4: far into the frame.  A dictionary's tables are vetted for what a first block can need; later blocks may need offset codes (and lengths) the tables
 * lack.  Input = k incompressible 128 KiB blocks (emitted raw: no compressed block precedes), then one block that copies from the dictionary content and from
 * the first blocks - offsets of 2^18 .. 2^20 - for every loadable structured dictionary x supply {usingDict, refCDict, loadDictionary} x levels {1, 3, 5}. */
static u8 *g_far, *g_farDst, *g_farOut, *g_farScratch;
#define FARCAP ((9u << 17) + 4096)
static void body_far(void) {
    int di = vx_choose(g_nd), cs = vx_choose(3), li = vx_choose(3), ki = vx_choose(3);
    const drec_t* D = &g_d[di]; static const int LV[] = {1, 3, 5}; static const int KB[] = {3, 5, 9}; int level = LV[li], k = KB[ki];
    vx_label("far dict#%d supply%d level%d blocks%d ;; %s", di, cs, level, k, D->name);
    if (!D->id || (D->flags & 2) || !(D->flags & 1)) { vx_obs_u64(31); return; }
    if (cs == 0 && k != 3) { vx_obs_u64(32); return; }                 /* usingDict derives a 512 KiB window from the level */
    if (!g_far) { g_far = (u8*)malloc(FARCAP); g_farDst = (u8*)malloc(ZSTD_compressBound(FARCAP)); g_farOut = (u8*)malloc(FARCAP + 64); g_farScratch = (u8*)malloc(FARCAP + 64); }
    size_t n = (size_t)k << 17; fill_noise(g_far, n, 41);
    {   const u8* dc = D->d + (D->n > 220 ? D->n - 220 : 8); size_t dl = D->n > 220 ? 200 : (D->n > 40 ? D->n - 40 : 8); u8* p = g_far + n;
        memcpy(p, dc, dl); p += dl; fill_text(p, 24, 3); p += 24; memcpy(p, g_far + 1000, 200); p += 200; fill_text(p, 30, 4); p += 30; memcpy(p, dc, dl / 2); p += dl / 2;
        memcpy(p, g_far + 131072 + 500, 150); p += 150; fill_text(p, 40, 5); p += 40; memcpy(p, g_far + 77, 90); p += 90; memcpy(p, g_far + 262144 + 10, 120); p += 120; fill_text(p, 50, 6); p += 50; n = (size_t)(p - g_far); }
    ZSTD_CCtx* c = ZSTD_createCCtx(); ZSTD_CDict* cd = NULL; size_t r;
    if (cs == 0) r = ZSTD_compress_usingDict(c, g_farDst, ZSTD_compressBound(n), g_far, n, D->d, D->n, level);
    else {
        ZSTD_CCtx_setParameter(c, ZSTD_c_compressionLevel, level); ZSTD_CCtx_setParameter(c, ZSTD_c_windowLog, 21);
        if (cs == 1) { ZSTD_CCtx_params* P = ZSTD_createCCtxParams(); ZSTD_CCtxParams_setParameter(P, ZSTD_c_compressionLevel, level); ZSTD_CCtxParams_setParameter(P, ZSTD_c_windowLog, 21);
            cd = ZSTD_createCDict_advanced2(D->d, D->n, ZSTD_dlm_byRef, ZSTD_dct_auto, P, ZSTD_defaultCMem); ZSTD_freeCCtxParams(P); if (!cd) { vx_fail("far: CDict creation failed"); ZSTD_freeCCtx(c); return; } ZSTD_CCtx_refCDict(c, cd); }
        else { size_t e = ZSTD_CCtx_loadDictionary(c, D->d, D->n); if (ZSTD_isError(e)) { vx_fail("far: loadDictionary failed: %s", ZSTD_getErrorName(e)); ZSTD_freeCCtx(c); return; } }
        r = ZSTD_compress2(c, g_farDst, ZSTD_compressBound(n), g_far, n);
    }
    if (ZSTD_isError(r)) vx_fail("compression with the dictionary fails %d blocks into the frame: %s", k, ZSTD_getErrorName(r));
    else {
        ZSTD_DCtx* d = ZSTD_createDCtx(); size_t o = ZSTD_decompress_usingDict(d, g_farOut, FARCAP, g_farDst, r, D->d, D->n); ZSTD_freeDCtx(d);
        if (ZSTD_isError(o) || o != n || memcmp(g_farOut, g_far, n)) vx_fail("round trip fails %d blocks into the frame (supply %d, level %d): %s", k, cs, level, ZSTD_isError(o) ? ZSTD_getErrorName(o) : "content differs");
        else { refcheck_t rc; rc_init(&rc); rc.interop = 1; rc.expectDictID = (long)D->id;
            if (ref_check(&rc, g_farDst, r, D->d, D->n, g_far, n, g_farScratch, FARCAP)) vx_fail("reference decoder with the dictionary, %d blocks into the frame: %s", k, rc.err);
            else { if (rc.maxOffset >= (1u << 18)) { vx_nontrivial(); vx_stat_add("far_frames_with_offsets_beyond_2^18", 1); } vx_obs_u64(vx_hash(g_farDst, r)); } }
    }
    ZSTD_freeCCtx(c); ZSTD_freeCDict(cd);
}

static void body(void) { if (g_mode == 4) { body_far(); return; } if (g_mode == 0) body_roundtrip(); else if (g_mode == 1) body_corrupt(); else if (g_mode == 3) body_rawcontent(); else body_hashset(); }
int main(int argc, char** argv) { return vx_main(argc, argv, init, body); }
