/* C18: dictionary training yields a usable dictionary or an error, never a bad one.
 * Sample-set grammar x capacity x algorithm x tuning parameters within a deviation budget of a base case; the
 * threaded optimisers run their real pool / mutex / condition code under the deterministic scheduler. */
#include "common.h"
#include "vsched.h"
#define ZDICT_STATIC_LINKING_ONLY
#include "zdict.h"

#define MAXS 64
static u8 *g_samples, *g_dict, *g_dict2, *g_c, *g_o; static size_t g_sizes[MAXS];
static int g_explore;
static int cb_pick0(int n, int kind) { (void)n; (void)kind; return 0; }
static int cb_pick(int n, int kind) { return vx_pick(n, kind == 2 ? VX_PREEMPT : VX_DEV); }
static void cb_fail(const char* what) { vx_fail("%s", what); vx_abort_exec(); }

static void init(void) { g_explore = (int)vx_opt_int("--explore", 0); g_samples = (u8*)malloc(4u << 20); g_dict = (u8*)malloc(1u << 17); g_dict2 = (u8*)malloc(1u << 17); g_c = (u8*)malloc(1u << 17); g_o = (u8*)malloc(1u << 17); }

static const int COUNTS[] = {11, 0, 1, 2, 5, 40};
static const int SSIZES[] = {1000, 0, 1, 7, 8, 9, 64};
static const size_t CAPS[] = {16384, 0, 7, 8, 255, 256, 1024, 112640, 1027, 16389};     /* the last two leave a remainder of 3 / 5 bytes after whole segments of k = 64 */
static const char* ALG[] = {"fastCover", "trainFromBuffer", "cover", "optimizeCover", "optimizeFastCover", "legacy", "finalizeDictionary", "addEntropyTables"};

/* content classes: 0 shared 32-byte motif + noise, 1 one symbol, 2 two symbols, 3 all samples identical */
/* content class 4: NW distinct 20-byte words, each repeated 6 times with 6-10 bytes of noise in between, cut into `count` equal samples: more than 10 000
 * repeated segments that do not merge, so the legacy trainer's segment table (10 000 entries at this capacity) fills up */
static size_t build_many_segments(int count, int nw) {
    uint32_t s = 0x9E3779B1u; size_t total = 0; static u8* words; if (!words) words = (u8*)malloc(20 * 20000);
#define MR() (s = s * 1664525u + 1013904223u, s >> 8)
    for (int i = 0; i < nw * 20; i++) words[i] = (u8)MR();
    for (int r = 0; r < 6; r++) for (int w = 0; w < nw; w++) { int noise = 6 + (int)(MR() % 5); memcpy(g_samples + total, words + (size_t)w * 20, 20); total += 20; for (int i = 0; i < noise; i++) g_samples[total++] = (u8)MR(); }
#undef MR
    size_t each = total / (size_t)count; for (int i = 0; i < count; i++) g_sizes[i] = each; g_sizes[count - 1] = total - each * (size_t)(count - 1);
    return total;
}

static size_t build_samples(int count, int ssize, int content, int varySizes) {
    static const u8 motif[32] = "the quick brown fox jumps over  "; size_t total = 0; uint32_t s = 99;
    for (int i = 0; i < count; i++) {
        size_t n = (size_t)ssize; if (varySizes == 1 && ssize > 8) n = (size_t)ssize - (size_t)(i * 37 % (ssize / 2));
        /* size profiles 2 / 3: the part of the corpus the optimisers train on (the first 75 % of the samples) totals 7 / 3 bytes - one below the smallest d-mer / far below -
         * while the corpus as a whole is large */
        if (varySizes >= 2) { int nt = count * 3 / 4, tot = varySizes == 2 ? 7 : 3; if (i < nt) n = (i < tot - 1 && i < nt - 1) ? 1 : (i == (tot - 1 < nt - 1 ? tot - 1 : nt - 1)) ? (size_t)(tot - i) : 0; }
        g_sizes[i] = n; u8* p = g_samples + total;
        for (size_t k = 0; k < n; k++) {
            s = s * 1103515245u + 12345u;
            switch (content) {
            case 0: p[k] = ((k / 32) % 3 == (size_t)(i % 3)) ? motif[k % 32] : (u8)('a' + ((s >> 16) % 26)); break;
            case 1: p[k] = 'x'; break;
            case 2: p[k] = (u8)('0' + ((s >> 20) & 1)); break;
            default: p[k] = (u8)("identical sample content, again and again. "[k % 43]); break;
            }
        }
        total += n;
    }
    return total;
}

static void body(void) {
    int ci = vx_deviate(6), si = vx_deviate(7), content = vx_deviate(4), vary = vx_deviate(4), capi = vx_deviate(10), alg = vx_choose(8);
    int count = COUNTS[ci], ssize = SSIZES[si]; size_t cap = CAPS[capi];
    /* tuning parameters at {typical, min-1, min, > corpus} */
    static const unsigned KS[] = {64, 0, 1, 5000000}, DS[] = {8, 0, 6, 16, 5}, FS[] = {12, 0, 1, 31, 32}, ACC[] = {1, 0, 10, 11}, STEPS[] = {4, 1, 0};
    unsigned k = KS[vx_deviate(4)], d = DS[vx_deviate(5)], f = FS[vx_deviate(5)], accel = ACC[vx_deviate(4)], steps = STEPS[vx_deviate(3)];
    static const double SPLIT[] = {0.75, 0.0, 1.0, 0.01, 1.5}; double split = SPLIT[vx_deviate(5)]; unsigned shrink = (unsigned)vx_deviate(2); static const unsigned TH[] = {1, 0, 2}; unsigned threads = TH[vx_deviate(3)];
    int level = vx_deviate(3); level = level == 0 ? 3 : level == 1 ? 19 : -5; unsigned forcedID = vx_deviate(2) ? 77777u : 0;
    if (f == 31 && (alg == 0 || alg == 4)) f = 24;       /* 2^31 counters = 8 GiB: memory, not the algorithm */
    int manyseg = (int)vx_opt_int("--manyseg", 0);
    if (manyseg) { count = 64; content = 4; ssize = manyseg; cap = 110 * 1024; if (alg != 5 && alg != 1) { vx_obs_u64(9); return; } }
    vx_label("%s count=%d size=%d content=%d vary=%d cap=%zu k=%u d=%u f=%u accel=%u steps=%u split=%.2f shrink=%u threads=%u level=%d id=%u", ALG[alg], count, ssize, content, vary, cap, k, d, f, accel, steps, split, shrink, threads, level, forcedID);
    size_t total = manyseg ? build_many_segments(count, manyseg) : build_samples(count, ssize, content, vary);
    /* the trainers get an allocation of exactly the samples' size (and a sizes array of exactly `count` entries), so a read past either end meets a redzone */
    u8* const samples = (u8*)malloc(total ? total : 1); memcpy(samples, g_samples, total);
    size_t* const sizes = (size_t*)malloc(sizeof(size_t) * (size_t)(count ? count : 1)); memcpy(sizes, g_sizes, sizeof(size_t) * (size_t)count);
    ZDICT_params_t zp; memset(&zp, 0, sizeof zp); zp.compressionLevel = level; zp.dictID = forcedID;
    size_t res[2] = {0, 0};
    for (int run = 0; run < 2; run++) {
        u8* dst = run ? g_dict2 : g_dict; const u8 fillByte = run ? 0x3C : 0xCD; memset(dst, fillByte, cap + 16);      /* the two runs start from different buffer contents: the result may not depend on them */
        vs_config_t cfg; memset(&cfg, 0, sizeof cfg); cfg.pick = (g_explore && run == 0) ? cb_pick : cb_pick0; cfg.fail = cb_fail; cfg.horizon = 2000000;
        vs_begin(&cfg);
        size_t r;
        switch (alg) {
        case 0: { ZDICT_fastCover_params_t p; memset(&p, 0, sizeof p); p.k = k; p.d = d; p.f = f; p.accel = accel; p.steps = steps; p.nbThreads = threads; p.splitPoint = split; p.shrinkDict = shrink; p.zParams = zp; r = ZDICT_trainFromBuffer_fastCover(dst, cap, samples, sizes, (unsigned)count, p); break; }
        case 1: r = ZDICT_trainFromBuffer(dst, cap, samples, sizes, (unsigned)count); break;
        case 2: { ZDICT_cover_params_t p; memset(&p, 0, sizeof p); p.k = k; p.d = d; p.steps = steps; p.nbThreads = threads; p.splitPoint = split; p.shrinkDict = shrink; p.zParams = zp; r = ZDICT_trainFromBuffer_cover(dst, cap, samples, sizes, (unsigned)count, p); break; }
        case 3: { ZDICT_cover_params_t p; memset(&p, 0, sizeof p); p.k = k == 64 ? 0 : k; p.d = d == 8 ? 0 : d; p.steps = steps; p.nbThreads = threads; p.splitPoint = split; p.shrinkDict = shrink; p.zParams = zp; r = ZDICT_optimizeTrainFromBuffer_cover(dst, cap, samples, sizes, (unsigned)count, &p); break; }
        case 4: { ZDICT_fastCover_params_t p; memset(&p, 0, sizeof p); p.k = k == 64 ? 0 : k; p.d = d == 8 ? 0 : d; p.f = f; p.accel = accel; p.steps = steps; p.nbThreads = threads; p.splitPoint = split; p.shrinkDict = shrink; p.zParams = zp; r = ZDICT_optimizeTrainFromBuffer_fastCover(dst, cap, samples, sizes, (unsigned)count, &p); break; }
        case 5: { ZDICT_legacy_params_t p; memset(&p, 0, sizeof p); p.selectivityLevel = k == 64 ? 0 : 9; p.zParams = zp; r = ZDICT_trainFromBuffer_legacy(dst, cap, samples, sizes, (unsigned)count, p); break; }
        case 6: { size_t clen = total < 2000 ? total : 2000; r = ZDICT_finalizeDictionary(dst, cap, samples, clen, samples, sizes, (unsigned)count, zp); break; }
        default: { size_t clen = total < 300 ? total : 300; if (cap < clen || clen < 8) { r = (size_t)-ZSTD_error_dstSize_tooSmall; break; }   /* the caller-supplied content must itself be a usable raw dictionary (>= 8 bytes) */ memcpy(dst + cap - clen, samples, clen); r = ZDICT_addEntropyTablesFromBuffer(dst, clen, cap, samples, sizes, (unsigned)count); break; }
        }
        vs_end();
        res[run] = r;
        if (vx_failed) goto out;
        if (!ZDICT_isError(r)) {
            if (r > cap) { vx_fail("%s returned %zu > capacity %zu", ALG[alg], r, cap); goto out; }
            for (size_t g = 0; g < 16; g++) if (dst[cap + g] != fillByte) { vx_fail("%s wrote beyond the dictionary capacity", ALG[alg]); goto out; }
        }
        if (manyseg) { res[1] = res[0]; memcpy(g_dict2, g_dict, cap); break; }      /* 2.7 MB corpus: one run */
        if (threads > 1 && !g_explore) break;          /* determinism is only claimed for single-threaded runs */
        if (threads > 1) break;
    }
    size_t r = res[0];
    if (threads <= 1) {
        if (ZDICT_isError(res[0]) != ZDICT_isError(res[1]) || (!ZDICT_isError(r) && (res[0] != res[1] || memcmp(g_dict, g_dict2, r)))) { vx_fail("%s: two single-threaded runs with the same input give different results", ALG[alg]); goto out; }
    }
    if (ZDICT_isError(r) || r == 0) { vx_obs_u64(ZDICT_isError(r) ? 1 : 2); vx_stat_add("refusals", 1); goto out; }
    /* ---- a produced dictionary must be usable ---- */
    ZSTD_CDict* cd = ZSTD_createCDict(g_dict, r, 3); ZSTD_DDict* dd = ZSTD_createDDict(g_dict, r);
    if (!cd || !dd) { vx_fail("%s produced a %zu-byte dictionary that the %s refuses to load", ALG[alg], r, cd ? "decompressor" : "compressor"); ZSTD_freeCDict(cd); ZSTD_freeDDict(dd); goto out; }
    unsigned id1 = ZDICT_getDictID(g_dict, r), id2 = ZSTD_getDictID_fromDict(g_dict, r), id3 = ZSTD_getDictID_fromCDict(cd), id4 = ZSTD_getDictID_fromDDict(dd);
    if (id1 == 0 || id1 != id2 || id2 != id3 || id3 != id4) vx_fail("%s: dictionary ID queries give %u / %u / %u / %u (must be equal and non-zero)", ALG[alg], id1, id2, id3, id4);
    else if (forcedID && alg != 1 && alg != 7 && id1 != forcedID) vx_fail("%s: requested dictionary ID %u, got %u", ALG[alg], forcedID, id1);
    size_t off = 0; ZSTD_CCtx* c = ZSTD_createCCtx(); ZSTD_DCtx* dc = ZSTD_createDCtx();
    for (int i = 0; i < count && !vx_failed; i++) {
        size_t cs = ZSTD_compress_usingCDict(c, g_c, 1u << 17, samples + off, sizes[i], cd);
        if (ZSTD_isError(cs)) { vx_fail("%s: sample %d does not compress with the trained dictionary: %s", ALG[alg], i, ZSTD_getErrorName(cs)); break; }
        size_t ds = ZSTD_decompress_usingDDict(dc, g_o, 1u << 17, g_c, cs, dd);
        if (ZSTD_isError(ds) || ds != sizes[i] || memcmp(g_o, samples + off, ds)) { vx_fail("%s: sample %d does not round trip with the trained dictionary", ALG[alg], i); break; }
        off += sizes[i];
    }
    ZSTD_freeCCtx(c); ZSTD_freeDCtx(dc); ZSTD_freeCDict(cd); ZSTD_freeDDict(dd);
    vx_obs_u64(vx_hash(g_dict, r)); vx_nontrivial(); vx_stat_add("dictionaries_produced", 1); vx_stat_max("threads_max", vs_nthreads());
    if (vx_want_sample()) vx_sample("%s count=%d size=%d content=%d cap=%zu k=%u d=%u threads=%u -> %zu-byte dictionary, ID %u", ALG[alg], count, ssize, content, cap, k, d, threads, r, id1);
out:
    free(samples); free(sizes);
}

int main(int argc, char** argv) { return vx_main(argc, argv, init, body); }
