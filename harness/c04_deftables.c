/* C04: the hard-coded default LL / OF / ML decoding tables must equal the tables ZSTD_buildFSETable() builds from
 * the default distributions of the format specification, cell by cell.  zstd_decompress_block.c is included
 * textually (its tables are static); the library's own object of that file is left out of the link. */
#include "common.h"
#undef MIN
#undef MAX
#undef ERROR
#include "zstd_decompress_block.c"

/* default distributions, transcribed from doc/zstd_compression_format.md (not from zstd_internal.h) */
static const short SPEC_LL[36] = { 4, 3, 2, 2, 2, 2, 2, 2, 2, 2, 2, 2, 2, 1, 1, 1, 2, 2, 2, 2, 2, 2, 2, 2, 2, 3, 2, 1, 1, 1, 1, 1, -1,-1,-1,-1 };
static const short SPEC_ML[53] = { 1, 4, 3, 2, 2, 2, 2, 2, 2, 1, 1, 1, 1, 1, 1, 1, 1, 1, 1, 1, 1, 1, 1, 1, 1, 1, 1, 1, 1, 1, 1, 1, 1, 1, 1, 1, 1, 1, 1, 1, 1, 1, 1, 1, 1, 1, -1,-1, -1,-1,-1,-1,-1 };
static const short SPEC_OF[29] = { 1, 1, 1, 1, 1, 1, 2, 2, 2, 1, 1, 1, 1, 1, 1, 1, 1, 1, 1, 1, 1, 1, 1, 1, -1,-1,-1,-1,-1 };
/* baselines / extra bits from the specification's tables */
static const U32 SPEC_LL_BASE[36] = { 0,1,2,3,4,5,6,7,8,9,10,11,12,13,14,15,16,18,20,22,24,28,32,40,48,64,128,256,512,1024,2048,4096,8192,16384,32768,65536 };
static const U8  SPEC_LL_BITS[36] = { 0,0,0,0,0,0,0,0,0,0,0,0,0,0,0,0,1,1,1,1,2,2,3,3,4,6,7,8,9,10,11,12,13,14,15,16 };
static const U32 SPEC_ML_BASE[53] = { 3,4,5,6,7,8,9,10,11,12,13,14,15,16,17,18,19,20,21,22,23,24,25,26,27,28,29,30,31,32,33,34,35,37,39,41,43,47,51,59,67,83,99,131,259,515,1027,2051,4099,8195,16387,32771,65539 };
static const U8  SPEC_ML_BITS[53] = { 0,0,0,0,0,0,0,0,0,0,0,0,0,0,0,0,0,0,0,0,0,0,0,0,0,0,0,0,0,0,0,0,1,1,1,1,2,2,3,3,4,4,5,7,8,9,10,11,12,13,14,15,16 };

static int cmp_table(const char* name, const ZSTD_seqSymbol* hard, const short* norm, unsigned maxSym, const U32* base, const U8* bits, unsigned log) {
    static ZSTD_seqSymbol built[1 + (1 << 9)]; static U32 wksp[ZSTD_BUILD_FSE_TABLE_WKSP_SIZE_U32];
    ZSTD_buildFSETable(built, norm, maxSym, base, bits, log, wksp, sizeof wksp, 0);
    for (unsigned i = 0; i <= (1u << log); i++) {
        if (i == 0) { ZSTD_seqSymbol_header h1, h2; memcpy(&h1, &hard[0], sizeof h1); memcpy(&h2, &built[0], sizeof h2);
            if (h1.tableLog != h2.tableLog || (h1.fastMode != 0) != (h2.fastMode != 0)) { vx_fail("%s default table: header {fastMode %u, tableLog %u} differs from the built one {%u, %u}", name, h1.fastMode, h1.tableLog, h2.fastMode, h2.tableLog); return 1; } continue; }
        if (hard[i].nextState != built[i].nextState || hard[i].nbAdditionalBits != built[i].nbAdditionalBits || hard[i].nbBits != built[i].nbBits || hard[i].baseValue != built[i].baseValue) {
            vx_fail("%s default table: cell %u is {next %u, addBits %u, nbBits %u, base %u}, the specified distribution gives {%u, %u, %u, %u}", name, i - 1,
                    hard[i].nextState, hard[i].nbAdditionalBits, hard[i].nbBits, hard[i].baseValue, built[i].nextState, built[i].nbAdditionalBits, built[i].nbBits, built[i].baseValue); return 1; }
        vx_stat_add("cells_compared", 1);
    }
    return 0;
}
static void init(void) {}
static void body(void) {
    int t = vx_choose(3);
    static U32 ofBase[32]; static U8 ofBits[32]; for (unsigned c = 0; c < 32; c++) { ofBits[c] = (U8)c; ofBase[c] = (c == 0) ? 0 : ((1u << c) - 3 + 3) - 0; }
    /* offset codes: Offset_Value = (1 << code) + extra bits; zstd stores baseValue = (1<<code) - ... : compare against the library's own OF_base only through the built table (same inputs as the hard-coded one) */
    vx_label("default table %d", t);
    if (t == 0) cmp_table("literal-length", LL_defaultDTable, SPEC_LL, 35, SPEC_LL_BASE, SPEC_LL_BITS, 6);
    else if (t == 1) cmp_table("match-length", ML_defaultDTable, SPEC_ML, 52, SPEC_ML_BASE, SPEC_ML_BITS, 6);
    else cmp_table("offset", OF_defaultDTable, SPEC_OF, 28, OF_base, OF_bits, 5);
    vx_obs_u64((uint64_t)t + 1); vx_nontrivial();
    if (vx_want_sample()) vx_sample("default table %d compared cell by cell with ZSTD_buildFSETable(specified distribution)", t);
}
int main(int argc, char** argv) { return vx_main(argc, argv, init, body); }
