/* C07: compressed output is a pure function of input, parameters, dictionary and calls.
 * For every prior history H (depth <= 2) on the same context, every subject (input, parameters, call sequence)
 * must produce the bytes a fresh context produces.  Sources sit right after a PROT_NONE page. */
#include "common.h"
#include <sys/mman.h>
ZSTD_compressionParameters ZSTD_getCParamsFromCDict(const ZSTD_CDict* cdict);      /* library-internal accessor (not static) */

#define BIG (1000u << 10)
#define MTBIG (3u << 20)
static u8 *g_pool, *g_dst, *g_ref, *g_hsrc, *g_hdst; static u8* g_srcPage;   /* g_srcPage: start of a readable region preceded by a guard page */
static ZSTD_Sequence* g_seqs; static void* g_static; static size_t g_staticSize;
static int g_depth; static ZSTD_threadPool* g_tp;

static void init(void) {
    g_depth = (int)vx_opt_int("--depth", 2);
    u8* m = (u8*)mmap(NULL, (1u << 20) + 8192, PROT_READ | PROT_WRITE, MAP_PRIVATE | MAP_ANONYMOUS, -1, 0);
    mprotect(m, 4096, PROT_NONE); g_srcPage = m + 4096;
    g_pool = (u8*)malloc(1u << 20); g_dst = (u8*)malloc(ZSTD_compressBound(BIG) + 64); g_ref = (u8*)malloc(ZSTD_compressBound(BIG) + 64);
    g_hsrc = (u8*)malloc(BIG); g_hdst = (u8*)malloc(ZSTD_compressBound(BIG) + 64); g_seqs = (ZSTD_Sequence*)malloc(sizeof(ZSTD_Sequence) * 40000);
    fill_text(g_hsrc, BIG, 31); fill_noise(g_hsrc + 100000, 30000, 2); memcpy(g_hsrc + 400000, g_hsrc + 5000, 150000);
    g_staticSize = 24u << 20; g_static = malloc(g_staticSize);
}

/* ---- subject ---- */
typedef struct { int shape, vec, calls, align; } subj_t;
static size_t subject_input(int shape, u8* p) {
    switch (shape) {
    case 0: fill_text(p, 5000, 7); return 5000;
    case 1: fill_noise(p, 3000, 1); memcpy(p + 1500, p + 100, 700); return 3000;
    case 2: memset(p, 'q', 9000); p[4000] = 'r'; return 9000;
    case 3: fill_text(p, 70000, 9); memcpy(p + 40000, p + 300, 20000); return 70000;
    case 4: fill_text(p, 1, 1); return 1;
    case 6: fill_text(p, 1200, 3); fill_noise(p + 1200, 4300, 9); memcpy(p + 5500, p + 3600, 900); fill_text(p + 6400, 600, 4); fill_noise(p + 7000, 2600, 10); memcpy(p + 9600, p + 8100, 1200); return 10800;   /* match-less stretches of > 2 KiB (the finders switch to skipping), then repeats of what was skipped over */
    default: for (int i = 0; i < 20000; i++) p[i] = (u8)((i * 7 + (i >> 5)) & 0x3f); return 20000;
    }
}
enum { NVEC = 14 };
static void subject_params(ZSTD_CCtx* c, int vec) {
    static const int strat[] = {1, 2, 3, 4, 5, 6, 7, 8, 9};
    if (vec < 9) { ZSTD_CCtx_setParameter(c, ZSTD_c_strategy, strat[vec]); ZSTD_CCtx_setParameter(c, ZSTD_c_windowLog, 12); ZSTD_CCtx_setParameter(c, ZSTD_c_hashLog, 9); ZSTD_CCtx_setParameter(c, ZSTD_c_chainLog, 9); ZSTD_CCtx_setParameter(c, ZSTD_c_searchLog, 3); ZSTD_CCtx_setParameter(c, ZSTD_c_minMatch, vec >= 5 ? 3 : 4); }
    else if (vec == 9) { ZSTD_CCtx_setParameter(c, ZSTD_c_compressionLevel, 5); ZSTD_CCtx_setParameter(c, ZSTD_c_useRowMatchFinder, ZSTD_ps_enable); ZSTD_CCtx_setParameter(c, ZSTD_c_windowLog, 12); }
    else if (vec == 10) { ZSTD_CCtx_setParameter(c, ZSTD_c_compressionLevel, 3); ZSTD_CCtx_setParameter(c, ZSTD_c_enableLongDistanceMatching, ZSTD_ps_enable); ZSTD_CCtx_setParameter(c, ZSTD_c_windowLog, 14); ZSTD_CCtx_setParameter(c, ZSTD_c_ldmHashLog, 8); }
    else if (vec == 11) { ZSTD_CCtx_setParameter(c, ZSTD_c_compressionLevel, 7); ZSTD_CCtx_setParameter(c, ZSTD_c_useRowMatchFinder, ZSTD_ps_enable); ZSTD_CCtx_setParameter(c, ZSTD_c_checksumFlag, 1); ZSTD_CCtx_setParameter(c, ZSTD_c_targetCBlockSize, 1340); }
    else if (vec == 12) { ZSTD_CCtx_setParameter(c, ZSTD_c_compressionLevel, 19); ZSTD_CCtx_setParameter(c, ZSTD_c_windowLog, 13); }
    else { ZSTD_CCtx_setParameter(c, ZSTD_c_compressionLevel, 1); ZSTD_CCtx_refPrefix(c, g_hsrc + 1000, 3000); }     /* with a dictionary (prefix) */
}
/* run the subject's call sequence; returns bytes produced or an error code */
static size_t subject_run(ZSTD_CCtx* c, const subj_t* s, const u8* src, size_t n, u8* dst, size_t dstCap) {
    subject_params(c, s->vec);
    if (s->calls == 0) return ZSTD_compress2(c, dst, dstCap, src, n);
    ZSTD_outBuffer out = { dst, dstCap, 0 }; size_t pos = 0, chunk = s->calls == 1 ? 700 : 3333; int step = 0;
    for (;;) {
        size_t end = pos + chunk > n ? n : pos + chunk; ZSTD_inBuffer in = { src, end, pos };
        ZSTD_EndDirective dir = end == n ? ZSTD_e_end : (s->calls == 3 && (step % 3) == 1) ? ZSTD_e_flush : ZSTD_e_continue;
        size_t cap = s->calls == 2 ? 7 : (1u << 20); size_t r;
        do { ZSTD_outBuffer o2 = { (u8*)out.dst + out.pos, cap > out.size - out.pos ? out.size - out.pos : cap, 0 }; r = ZSTD_compressStream2(c, &o2, &in, dir); out.pos += o2.pos; if (ZSTD_isError(r)) return r; } while ((dir != ZSTD_e_continue && r != 0) || (dir == ZSTD_e_continue && in.pos < in.size));
        pos = in.pos; step++; if (end == n) break;
    }
    return out.pos;
}

/* ---- prior histories ---- */
enum { NHOPS = 17 };
static const char* HOPN[] = {"frame-l1", "frame-l19-w17-200K", "stream-row-ldm", "aborted+reset", "failed(dstTooSmall)+reset", "stableIn-continue+reset", "stableOut-frame", "generateSequences",
                             "midframe-level-change", "pledged-frame", "prefix-frame", "loadDictionary-frame", "mt2-frame", "seq-producer-frame", "shared-pool-frame", "frame-w10", "params-reset"};
static size_t prod_fn(void* st, ZSTD_Sequence* out, size_t cap, const void* src, size_t n, const void* d, size_t dl, int lvl, size_t w) { (void)st; (void)src; (void)d; (void)dl; (void)lvl; (void)w; if (cap < 1) return ZSTD_SEQUENCE_PRODUCER_ERROR; out[0].offset = 0; out[0].matchLength = 0; out[0].litLength = (unsigned)n; out[0].rep = 0; return 1; }
static int history_op(ZSTD_CCtx* c, int op, int isStatic) {
    size_t r = 0; ZSTD_inBuffer in; ZSTD_outBuffer out;
    switch (op) {
    case 0: ZSTD_CCtx_setParameter(c, ZSTD_c_compressionLevel, 1); r = ZSTD_compress2(c, g_hdst, 1u << 20, g_hsrc, 30000); break;
    case 1: ZSTD_CCtx_setParameter(c, ZSTD_c_compressionLevel, 19); ZSTD_CCtx_setParameter(c, ZSTD_c_windowLog, 17); r = ZSTD_compress2(c, g_hdst, 1u << 20, g_hsrc, vx_thorough ? 200000 : 40000); break;
    case 2: ZSTD_CCtx_setParameter(c, ZSTD_c_compressionLevel, 6); ZSTD_CCtx_setParameter(c, ZSTD_c_useRowMatchFinder, ZSTD_ps_enable); ZSTD_CCtx_setParameter(c, ZSTD_c_enableLongDistanceMatching, ZSTD_ps_enable); ZSTD_CCtx_setParameter(c, ZSTD_c_windowLog, 16);
            in = (ZSTD_inBuffer){ g_hsrc, 90000, 0 }; out = (ZSTD_outBuffer){ g_hdst, 1u << 20, 0 }; ZSTD_compressStream2(c, &out, &in, ZSTD_e_continue); r = ZSTD_compressStream2(c, &out, &in, ZSTD_e_end); break;
    case 3: ZSTD_CCtx_setParameter(c, ZSTD_c_compressionLevel, 3); in = (ZSTD_inBuffer){ g_hsrc, 3000, 0 }; out = (ZSTD_outBuffer){ g_hdst, 1u << 20, 0 }; ZSTD_compressStream2(c, &out, &in, ZSTD_e_continue); ZSTD_CCtx_reset(c, ZSTD_reset_session_only); break;
    case 4: ZSTD_CCtx_setParameter(c, ZSTD_c_compressionLevel, 3); r = ZSTD_compress2(c, g_hdst, 10, g_hsrc, 30000); ZSTD_CCtx_reset(c, ZSTD_reset_session_only); r = 0; break;
    case 5: ZSTD_CCtx_setParameter(c, ZSTD_c_stableInBuffer, 1); in = (ZSTD_inBuffer){ g_hsrc, 1000, 0 }; out = (ZSTD_outBuffer){ g_hdst, 1u << 20, 0 }; ZSTD_compressStream2(c, &out, &in, ZSTD_e_continue); ZSTD_CCtx_reset(c, ZSTD_reset_session_only); break;
    case 6: ZSTD_CCtx_setParameter(c, ZSTD_c_stableOutBuffer, 1); in = (ZSTD_inBuffer){ g_hsrc, 20000, 0 }; out = (ZSTD_outBuffer){ g_hdst, 1u << 20, 0 }; r = ZSTD_compressStream2(c, &out, &in, ZSTD_e_end); break;
    case 7: ZSTD_CCtx_setParameter(c, ZSTD_c_compressionLevel, 3); r = ZSTD_generateSequences(c, g_seqs, 40000, g_hsrc, 20000); if (ZSTD_isError(r)) r = 0; break;
    case 8: ZSTD_CCtx_setParameter(c, ZSTD_c_compressionLevel, 2); in = (ZSTD_inBuffer){ g_hsrc, 5000, 0 }; out = (ZSTD_outBuffer){ g_hdst, 1u << 20, 0 }; ZSTD_compressStream2(c, &out, &in, ZSTD_e_continue);
            ZSTD_CCtx_setParameter(c, ZSTD_c_compressionLevel, 9); in.size = 12000; r = ZSTD_compressStream2(c, &out, &in, ZSTD_e_end); break;
    case 9: ZSTD_CCtx_setPledgedSrcSize(c, 8000); in = (ZSTD_inBuffer){ g_hsrc, 8000, 0 }; out = (ZSTD_outBuffer){ g_hdst, 1u << 20, 0 }; ZSTD_compressStream2(c, &out, &in, ZSTD_e_continue); r = ZSTD_compressStream2(c, &out, &in, ZSTD_e_end); break;
    case 10: ZSTD_CCtx_refPrefix(c, g_hsrc + 50000, 8000); r = ZSTD_compress2(c, g_hdst, 1u << 20, g_hsrc, 30000); break;
    case 11: if (isStatic) return 1; ZSTD_CCtx_loadDictionary(c, g_hsrc + 20000, 10000); r = ZSTD_compress2(c, g_hdst, 1u << 20, g_hsrc, 30000); break;
    case 12: if (isStatic) return 1; ZSTD_CCtx_setParameter(c, ZSTD_c_nbWorkers, 2); r = ZSTD_compress2(c, g_hdst, ZSTD_compressBound(BIG), g_hsrc, 600000); break;
    case 13: ZSTD_registerSequenceProducer(c, NULL, prod_fn); ZSTD_CCtx_setParameter(c, ZSTD_c_enableSeqProducerFallback, 1); r = ZSTD_compress2(c, g_hdst, 1u << 20, g_hsrc, 30000); ZSTD_registerSequenceProducer(c, NULL, NULL); break;
    case 14: if (isStatic) return 1; { if (!g_tp) g_tp = ZSTD_createThreadPool(2);    /* the shared pool outlives every context that ever referenced it */
               ZSTD_threadPool* tp = g_tp; ZSTD_CCtx_refThreadPool(c, tp); ZSTD_CCtx_setParameter(c, ZSTD_c_nbWorkers, 1); r = ZSTD_compress2(c, g_hdst, ZSTD_compressBound(BIG), g_hsrc, 600000);
               ZSTD_CCtx_refThreadPool(c, NULL); ZSTD_CCtx_reset(c, ZSTD_reset_session_and_parameters); } break;
    case 15: ZSTD_CCtx_setParameter(c, ZSTD_c_compressionLevel, 4); ZSTD_CCtx_setParameter(c, ZSTD_c_windowLog, 10); r = ZSTD_compress2(c, g_hdst, 1u << 20, g_hsrc, 60000); break;
    default: ZSTD_CCtx_reset(c, ZSTD_reset_session_and_parameters); break;
    }
    if (ZSTD_isError(r)) return 1;      /* parameters left by an earlier operation make this one unsupported (e.g. sequence producer + LDM): not a history of interest */
    return 0;
}

/* optimal-parser subjects: many text-like inputs x the three opt strategies, after histories that leave different
 * bytes in the workspace, and on caller-provided memory pre-filled with different patterns */
/* a heap whose blocks arrive filled with a chosen byte: what a context finds in freshly allocated memory is the allocator's business, the output may not depend on it */
static u8 g_dirtyFill;
static void* dirty_alloc(void* o, size_t n) { (void)o; void* p = malloc(n); if (!p) return p;
    if (g_dirtyFill == 1) { uint32_t* w = (uint32_t*)p; for (size_t i = 0; i < n / 4; i++) w[i] = 2 + (uint32_t)((i * 2654435761u) >> 12) % 3000; }      /* looks like a recycled table: small plausible indices */
    else memset(p, g_dirtyFill, n);
    return p; }
static void dirty_free(void* o, void* p) { (void)o; free(p); }
static void body_opt(void) {
    int seed = vx_choose((int)vx_opt_int("--ninputs", 40)), lv = vx_choose(3), strat = lv == 0 ? 16 : lv == 1 ? 18 : 19, prior = vx_choose(8), size = vx_choose(2), useCDict = vx_choose(2);
    size_t n = size ? 20000 : 6000; u8* src = g_srcPage; uint32_t s = 1000 + (uint32_t)seed;
    {   /* text-like: short vocabulary words, a separator or digit, and about one noise byte in eight positions: many short isolated matches */
        static const char* W[] = {"lorem", "ipsum", "dolor", "sit", "amet", "sed", "do", "of", "and", "the", "block", "frame", "x", "yy", "zzz", "offset", "literal"};
        size_t o = 0; while (o < n) { s = s * 1103515245u + 12345u; uint32_t r = s >> 8;
            if (r & 7) { const char* w = W[(r >> 3) % 17]; for (; *w && o < n; w++) src[o++] = (u8)*w; if (o < n) src[o++] = ((r >> 12) & 1) ? ' ' : (u8)('0' + ((r >> 13) % 10)); }
            else src[o++] = (u8)(r >> 14); } }
    vx_label("opt input%d level%d prior%d n=%zu cdict%d", seed, strat, prior, n, useCDict);
    if (prior >= 6 && (seed % 2)) { vx_obs_u64(62); return; }      /* priors 6, 7: heap context whose allocator returns memory that looks like a recycled index table / is filled with 0xA5 (half of the inputs) */
    if (useCDict && (seed % 4 || prior == 3 || prior == 4)) { vx_obs_u64(61); return; }     /* the digested-dictionary variant on a quarter of the inputs, heap contexts */
    /* a digested dictionary made of the words of the input (the context copies or attaches its tables, by source size and strategy) */
    static u8 dict[2048]; { size_t o = 0; uint32_t t = 5; static const char* W2[] = {"lorem ", "ipsum1 ", "dolor ", "block7 ", "frame ", "offset ", "literal0 ", "and the "}; while (o + 12 < sizeof dict) { t = t * 1103515245u + 12345u; const char* w = W2[(t >> 16) & 7]; while (*w) dict[o++] = (u8)*w++; } while (o < sizeof dict) dict[o++] = ' '; }
    if (useCDict && (seed & 4)) {   /* second texture for the dictionary variant: dictionary = noise whose second half repeats the 3-byte groups of the first; input = noise sprinkled with such groups (only 3-byte matches exist) */
        uint32_t t = 3; for (size_t i = 0; i < 1024; i++) { t = t * 1103515245u + 12345u; dict[i] = (u8)(t >> 16); }
        for (size_t i = 0; i < 256; i++) { size_t from = ((i * 37 + 11) % 256) * 4; memcpy(dict + 1024 + 4 * i, dict + from, 3); dict[1024 + 4 * i + 3] = (u8)(dict[from + 3] ^ 0x55); }
        for (size_t i = 0; i < n; i++) { t = t * 1103515245u + 12345u; src[i] = (u8)(t >> 16); }
        for (size_t i = 16; i + 8 < n; i += 9) { t = t * 1103515245u + 12345u; memcpy(src + i, dict + ((t >> 16) % 256) * 4, 3); } }
    ZSTD_CDict* cd = useCDict ? ZSTD_createCDict(dict, sizeof dict, strat) : NULL;
    ZSTD_CCtx* f = ZSTD_createCCtx(); ZSTD_CCtx_setParameter(f, ZSTD_c_compressionLevel, strat); if (!useCDict) ZSTD_CCtx_setParameter(f, ZSTD_c_windowLog, 15); else ZSTD_CCtx_refCDict(f, cd);
    size_t rn = ZSTD_compress2(f, g_ref, ZSTD_compressBound(n), src, n); ZSTD_freeCCtx(f);
    if (ZSTD_isError(rn)) { vx_fail("fresh-context compression fails"); ZSTD_freeCDict(cd); return; }
    {   ZSTD_DCtx* d = ZSTD_createDCtx(); size_t o = ZSTD_decompress_usingDict(d, g_pool, 1u << 20, g_ref, rn, useCDict ? dict : NULL, useCDict ? sizeof dict : 0); ZSTD_freeDCtx(d);
        if (ZSTD_isError(o) || o != n || memcmp(g_pool, src, n)) { vx_fail("fresh-context output%s does not round trip (%zu bytes for %zu)", useCDict ? " (digested dictionary)" : "", rn, n); ZSTD_freeCDict(cd); return; } }
    ZSTD_CCtx* c;
    if (prior == 3 || prior == 4) { memset(g_static, prior == 3 ? 0x3F : 0xFF, g_staticSize); c = ZSTD_initStaticCCtx(g_static, g_staticSize); }
    else if (prior >= 6) { ZSTD_customMem cm = { dirty_alloc, dirty_free, NULL }; g_dirtyFill = prior == 6 ? 1 : 0xA5; c = ZSTD_createCCtx_advanced(cm); }
    else { c = ZSTD_createCCtx();
        if (prior == 1) { ZSTD_CCtx_setParameter(c, ZSTD_c_compressionLevel, 3); ZSTD_compress2(c, g_hdst, ZSTD_compressBound(BIG), g_hsrc, 600000); }
        if (prior == 2) { ZSTD_CCtx_setParameter(c, ZSTD_c_compressionLevel, 19); ZSTD_CCtx_setParameter(c, ZSTD_c_windowLog, 17); ZSTD_compress2(c, g_hdst, 1u << 20, g_hsrc + 7, 45000); }
        if (prior == 5) { /* the same job geometry on other data, without the dictionary: half of the dictionary's words, then zeroes */
            memcpy(g_pool, dict, 1024); memset(g_pool + 1024, 0, n - 1024); ZSTD_CCtx_setParameter(c, ZSTD_c_compressionLevel, strat);
            if (!useCDict) ZSTD_CCtx_setParameter(c, ZSTD_c_windowLog, 15);
            else { ZSTD_compressionParameters cp = ZSTD_getCParamsFromCDict(cd);      /* the table geometry the digested dictionary was built with: the workspace layout of the next frame */
                ZSTD_CCtx_setParameter(c, ZSTD_c_windowLog, 15); ZSTD_CCtx_setParameter(c, ZSTD_c_chainLog, (int)cp.chainLog); ZSTD_CCtx_setParameter(c, ZSTD_c_hashLog, (int)cp.hashLog); ZSTD_CCtx_setParameter(c, ZSTD_c_searchLog, (int)cp.searchLog);
                ZSTD_CCtx_setParameter(c, ZSTD_c_minMatch, (int)cp.minMatch); ZSTD_CCtx_setParameter(c, ZSTD_c_targetLength, (int)cp.targetLength); ZSTD_CCtx_setParameter(c, ZSTD_c_strategy, (int)cp.strategy); }
            ZSTD_compress2(c, g_hdst, 1u << 20, g_pool, n); }
        ZSTD_CCtx_reset(c, ZSTD_reset_session_and_parameters); }
    ZSTD_CCtx_setParameter(c, ZSTD_c_compressionLevel, strat); if (!useCDict) ZSTD_CCtx_setParameter(c, ZSTD_c_windowLog, 15); else ZSTD_CCtx_refCDict(c, cd);
    size_t cn = ZSTD_compress2(c, g_dst, ZSTD_compressBound(n), src, n);
    if (ZSTD_isError(cn)) vx_fail("compression fails after prior use %d although it succeeds on a fresh context", prior);
    else if (cn != rn || memcmp(g_dst, g_ref, rn)) vx_fail("optimal-parser output%s depends on %s", useCDict ? " (digested dictionary)" : "", prior == 3 || prior == 4 ? "the initial content of the caller-provided memory" : prior >= 6 ? "the content of the memory the allocator returns" : "what the context compressed before");
    if (prior != 3 && prior != 4) ZSTD_freeCCtx(c);
    ZSTD_freeCDict(cd);
    vx_obs_u64(vx_hash(g_ref, rn)); if (prior) vx_nontrivial(); vx_stat_add("histories_run", 1);
}

/* multithreaded subjects (sched-asan build: 1 KiB jobs, deterministic default schedule): the job table, the serial state with its
 * long-distance-matching tables, the buffer / sequence pools and the worker contexts all outlive a frame */
#ifdef VERIF_C07_MT
#include "vsched.h"
static int cb_pick0(int n, int kind) { (void)n; (void)kind; return 0; }
static void cb_fail(const char* what) { vx_fail("%s", what); vx_abort_exec(); }
static size_t mt_input(int tex, u8* p) {
    switch (tex) {
    case 0: { fill_text(p, 16000, 41); for (int k = 0; k < 5; k++) { memcpy(p + 1500 + (size_t)k * 2900, p + 200, 180); p[1500 + (size_t)k * 2900 + 180] = (u8)('0' + k); } return 16000; }   /* several copies of one segment, each followed by different data */
    case 1: { fill_noise(p, 14000, 9); for (int k = 0; k < 6; k++) memcpy(p + 900 + (size_t)k * 2100, p + 64, 120 + (size_t)k); return 14000; }
    case 2: memcpy(p, g_hsrc + 3000, 20000); return 20000;
    case 3: for (int i = 0; i < 12000; i++) p[i] = (u8)((i * 7 + (i >> 6)) & 0x3f); memcpy(p + 6000, p + 100, 3000); return 12000;
    default: { size_t n = MTBIG; fill_text(p, n, 43); for (size_t q = 50000; q + 20000 < n; q += 130000) fill_noise(p + q, 20000, (uint32_t)q); return n; }   /* large enough for rsyncable job cutting (jobs of at least 128 KiB) */
    }
}
static int g_mt_rsync;
static void mt_params(ZSTD_CCtx* c, int workers, int ldm, int ck) {
    if (g_mt_rsync) ZSTD_CCtx_setParameter(c, ZSTD_c_rsyncable, 1);
    ZSTD_CCtx_setParameter(c, ZSTD_c_compressionLevel, 3); ZSTD_CCtx_setParameter(c, ZSTD_c_windowLog, 13); ZSTD_CCtx_setParameter(c, ZSTD_c_nbWorkers, workers); ZSTD_CCtx_setParameter(c, ZSTD_c_jobSize, g_mt_rsync ? (256 << 10) : 2048); ZSTD_CCtx_setParameter(c, ZSTD_c_checksumFlag, ck);
    if (ldm) { ZSTD_CCtx_setParameter(c, ZSTD_c_enableLongDistanceMatching, ZSTD_ps_enable); ZSTD_CCtx_setParameter(c, ZSTD_c_ldmHashLog, 7); ZSTD_CCtx_setParameter(c, ZSTD_c_ldmMinMatch, 64); ZSTD_CCtx_setParameter(c, ZSTD_c_ldmBucketSizeLog, 2); ZSTD_CCtx_setParameter(c, ZSTD_c_ldmHashRateLog, ldm == 2 ? 0 : 3); }
}
static size_t g_mt_ocap;    /* output room offered per call (0 = ample) */
static size_t mt_frame(ZSTD_CCtx* c, int calls, const u8* src, size_t n, u8* dst, size_t cap, size_t stopAfter) {
    if (calls == 0 && !g_mt_ocap) return ZSTD_compress2(c, dst, cap, src, n);
    size_t produced = 0, pos = 0, chunk = calls == 0 ? n : 3333; long guard = 0;
    for (;;) { size_t end = pos + chunk > n ? n : pos + chunk; ZSTD_inBuffer in = { src, end, pos }; ZSTD_EndDirective dir = end == n ? ZSTD_e_end : (calls == 2 ? ZSTD_e_flush : ZSTD_e_continue); size_t r;
        do { size_t room = g_mt_ocap ? g_mt_ocap : cap - produced; if (room > cap - produced) room = cap - produced; ZSTD_outBuffer out = { dst + produced, room, 0 };
             r = ZSTD_compressStream2(c, &out, &in, dir); produced += out.pos; if (ZSTD_isError(r)) return r; if (++guard > 4000000) return (size_t)-ZSTD_error_GENERIC;
        } while ((dir != ZSTD_e_continue && r != 0) || (dir == ZSTD_e_continue && in.pos < in.size));
        pos = in.pos; if (end == n) break; if (stopAfter && pos >= stopAfter) return 0; }
    return produced;
}
static void body_mt(void) {
    int tex = vx_choose(4), workers = 1 + vx_choose(2), ldm = vx_choose(3), calls = vx_choose(3), ck = vx_choose(2), hist = vx_choose(7), rsync = vx_choose(2), oc = vx_choose(3);
    static const size_t OC[] = {0, 7, 1}, OCBIG[] = {0, 1000, 64}; g_mt_rsync = rsync;
    if (rsync) { if (tex) { vx_obs_u64(72); return; } tex = 4; }      /* rsyncable only cuts jobs on inputs of several 128 KiB: one large texture */
    static const char* HN[] = {"none", "same-frame", "other-input", "ldm-toggled", "other-worker-count", "abandoned-frame+reset", "same-frame-twice"};
    vx_label("mt tex%d workers%d ldm%d calls%d ck%d rsync%d outroom%zu after [%s]", tex, workers, ldm, calls, ck, rsync, rsync ? OCBIG[oc] : OC[oc], HN[hist]);
    if (oc && hist > 1) { vx_obs_u64(71); return; }      /* output-room variants: fresh context and same-frame history only */
    u8 *src = g_srcPage, *ref = g_ref, *dst = g_dst, *hdst = g_hdst; size_t cap = ZSTD_compressBound(BIG);
    if (rsync) { static u8* big[4]; cap = ZSTD_compressBound(MTBIG); if (!big[0]) { big[0] = (u8*)malloc(MTBIG); for (int k = 1; k < 4; k++) big[k] = (u8*)malloc(cap); } src = big[0]; ref = big[1]; dst = big[2]; hdst = big[3]; }
    size_t n = mt_input(tex, src);
    vs_config_t cfg; memset(&cfg, 0, sizeof cfg); cfg.pick = cb_pick0; cfg.fail = cb_fail; cfg.horizon = 20000000;
    vs_begin(&cfg);
    g_mt_ocap = 0;    /* reference: fresh context, ample output room */
    ZSTD_CCtx* f = ZSTD_createCCtx(); mt_params(f, workers, ldm, ck); size_t rn = mt_frame(f, calls, src, n, ref, cap, 0); ZSTD_freeCCtx(f);
    ZSTD_CCtx* c = ZSTD_createCCtx(); size_t hr = 0;
    switch (hist) {
    case 1: case 6: for (int k = 0; k < (hist == 6 ? 2 : 1); k++) { mt_params(c, workers, ldm, ck); hr = mt_frame(c, calls, src, n, hdst, cap, 0); } break;
    case 2: { size_t hn = mt_input((tex + 1) & 3, g_pool); mt_params(c, workers, ldm, ck); hr = mt_frame(c, calls, g_pool, hn, hdst, cap, 0); break; }
    case 3: mt_params(c, workers, ldm ? 0 : 1, ck); hr = mt_frame(c, calls, src, n, hdst, cap, 0); break;
    case 4: mt_params(c, 3 - workers, ldm, ck); hr = mt_frame(c, calls, src, n, hdst, cap, 0); break;
    case 5: mt_params(c, workers, ldm, ck); hr = mt_frame(c, 1, src, n, hdst, cap, 6000); break;
    default: break;
    }
    ZSTD_CCtx_reset(c, ZSTD_reset_session_and_parameters);
    g_mt_ocap = rsync ? OCBIG[oc] : OC[oc];
    mt_params(c, workers, ldm, ck); size_t cn = mt_frame(c, calls, src, n, dst, cap, 0); ZSTD_freeCCtx(c); g_mt_ocap = 0;
    vs_end();
    if (ZSTD_isError(rn) || ZSTD_isError(hr)) { vx_fail("multithreaded frame fails: %s", ZSTD_getErrorName(ZSTD_isError(rn) ? rn : hr)); return; }
    if (ZSTD_isError(cn)) vx_fail("multithreaded subject fails after history [%s] although it succeeds on a fresh context: %s", HN[hist], ZSTD_getErrorName(cn));
    else if (cn != rn || memcmp(dst, ref, rn)) vx_fail("multithreaded output after history [%s]%s differs from the output of a fresh context with ample output room", HN[hist], oc ? " with little output room per call" : "");
    { size_t o = ZSTD_decompress(hdst, cap, ref, rn); if (ZSTD_isError(o) || o != n || memcmp(hdst, src, n)) vx_fail("multithreaded frame does not round trip"); }
    vx_obs_u64(vx_hash(ref, rn)); if (hist) vx_nontrivial(); vx_stat_add("histories_run", 1);
    if (vx_want_sample()) vx_sample("mt tex%d workers%d ldm%d calls%d after [%s]: %zu bytes, identical to fresh", tex, workers, ldm, calls, HN[hist], rn);
}
#endif

/* --mode 3: subjects of several full 128 KiB blocks (per-frame counters that steer block-level decisions, e.g. the pre-block splitter's "savings so far"),
 * after priors that leave large counters behind: an incompressible 1000 KB frame, a compressible one, two frames, an aborted one */
static void body_big(void) {
    static const int LV[] = {1, 3, 6, 9, 13}; int lv = LV[vx_choose(5)], prior = vx_choose(5), api = vx_choose(3), kind = vx_choose(2), tex = vx_choose(3);
    static const char* PN[] = {"none", "incompressible 1000 KB frame", "compressible 600 KB frame", "both", "aborted stream + reset"};
    vx_label("big level%d after [%s] api%d ctx%d texture%d", lv, PN[prior], api, kind, tex);
    u8* src = g_srcPage; size_t n = 400000;
    if (tex == 2) {   /* archive-like: incompressible members, text, verbatim copies of earlier regions, 900 KB, compressed with the row finder and small tables (hashLog 10, window 16 KiB):
                       * rows fill up and entries are evicted all the time, so anything that places an entry in a history-dependent row shows in the output */
        n = 900000; uint64_t st = 0xC07; size_t pos = 0;
#define RND() (st = st * 6364136223846793005ULL + 1442695040888963407ULL, (unsigned)(st >> 33))
        while (pos < n) { unsigned k = RND() % 8; size_t len = 1024 + (RND() % (24 * 1024)); if (len > n - pos) len = n - pos;
            if (k <= 2 || pos < 56000) { for (size_t i = 0; i < len; i++) src[pos + i] = (u8)RND(); } else if (k <= 4) { for (size_t i = 0; i < len; i++) src[pos + i] = (u8)("etaoin shrdlu\n"[RND() % 14]); }
            else { size_t from = RND() % (pos > len ? pos - len : 1); memmove(src + pos, src + from, len); }
            pos += len; }
#undef RND
    }
    else if (tex) { fill_text(src, n, 77); for (size_t q = 131072; q < n; q += 131072) fill_noise(src + q - 9000, 18000, (uint32_t)q); }      /* statistics change around block edges */
    else { fill_text(src, 200000, 78); for (size_t i = 200000; i < n; i++) src[i] = (u8)((i * 7 + (i >> 9)) & 0x1f); }
    static u8* noise; if (!noise) { noise = (u8*)malloc(BIG); fill_noise(noise, BIG, 99); }
    size_t cap = ZSTD_compressBound(BIG) + 64;
    ZSTD_CCtx* f = ZSTD_createCCtx(); ZSTD_CCtx_setParameter(f, ZSTD_c_compressionLevel, lv); size_t rn;
    ZSTD_CCtx* c = kind ? ZSTD_initStaticCCtx(g_static, g_staticSize) : ZSTD_createCCtx();
    for (int pass = 0; pass < 2; pass++) {
        ZSTD_CCtx* x = pass ? c : f; u8* dst = pass ? g_dst : g_ref; size_t r;
        if (pass) {
            if (prior == 1 || prior == 3) { ZSTD_CCtx_setParameter(x, ZSTD_c_compressionLevel, lv); ZSTD_compress2(x, g_hdst, cap, noise, BIG); }
            if (prior == 2 || prior == 3) { ZSTD_CCtx_setParameter(x, ZSTD_c_compressionLevel, 3); ZSTD_compress2(x, g_hdst, cap, g_hsrc, 600000); }
            if (prior == 4) { ZSTD_CCtx_setParameter(x, ZSTD_c_compressionLevel, lv); ZSTD_inBuffer in = { noise, 500000, 0 }; ZSTD_outBuffer out = { g_hdst, cap, 0 }; ZSTD_compressStream2(x, &out, &in, ZSTD_e_continue); }
            ZSTD_CCtx_reset(x, ZSTD_reset_session_and_parameters);
        }
        ZSTD_CCtx_setParameter(x, ZSTD_c_compressionLevel, lv);
        if (tex == 2) { ZSTD_CCtx_setParameter(x, ZSTD_c_useRowMatchFinder, ZSTD_ps_enable); ZSTD_CCtx_setParameter(x, ZSTD_c_hashLog, 10); ZSTD_CCtx_setParameter(x, ZSTD_c_windowLog, 14); }
        if (api == 0) r = ZSTD_compress2(x, dst, cap, src, n);
        else if (api == 1) r = ZSTD_compressCCtx(x, dst, cap, src, n, lv);
        else { ZSTD_inBuffer in = { src, n, 0 }; ZSTD_outBuffer out = { dst, cap, 0 }; size_t e; do { e = ZSTD_compressStream2(x, &out, &in, ZSTD_e_end); } while (e && !ZSTD_isError(e)); r = ZSTD_isError(e) ? e : out.pos; }
        if (ZSTD_isError(r)) { vx_fail("big subject fails (%s context): %s", pass ? "used" : "fresh", ZSTD_getErrorName(r)); break; }
        if (!pass) { rn = r; size_t o = ZSTD_decompress(g_hdst, cap, g_ref, rn); if (ZSTD_isError(o) || o != n || memcmp(g_hdst, src, n)) { vx_fail("fresh-context output does not round trip"); break; } }
        else if (r != rn || memcmp(g_dst, g_ref, rn)) vx_fail("output of a %zu-byte subject after [%s] differs from the fresh-context output (%zu vs %zu bytes)", n, PN[prior], r, rn);
    }
    ZSTD_freeCCtx(f); if (!kind) ZSTD_freeCCtx(c);
    vx_obs_u64(vx_hash(g_ref, 64)); if (prior) vx_nontrivial(); vx_stat_add("histories_run", 1);
}

static void body(void) {
    if ((int)vx_opt_int("--mode", 0) == 3) { body_big(); return; }
    if ((int)vx_opt_int("--mode", 0) == 1) { body_opt(); return; }
#ifdef VERIF_C07_MT
    if ((int)vx_opt_int("--mode", 0) == 2) { body_mt(); return; }
#endif
    int ctxKind = vx_choose(2);          /* 0 heap, 1 static */
    int hlen = vx_choose(g_depth + 1), h[4];
    for (int i = 0; i < hlen; i++) h[i] = vx_choose(NHOPS);
    int nshapes = (int)vx_opt_int("--nshapes", 6); subj_t S; S.shape = vx_choose(nshapes); if (nshapes == 3 || nshapes == 4) S.shape = S.shape == 0 ? 0 : S.shape == 1 ? 3 : S.shape == 2 ? 5 : 6; else if (S.shape == 6) S.shape = 6; S.vec = vx_deviate(NVEC); S.calls = vx_deviate(4); S.align = vx_deviate(3);    /* subject: every shape, <= D deviations from (fast, one-shot, aligned) */
    char hs[160] = ""; size_t ho = 0; for (int i = 0; i < hlen; i++) ho += snprintf(hs + ho, sizeof hs - ho, "%s%s", i ? " ; " : "", HOPN[h[i]]);
    vx_label("ctx%d [%s] -> subject shape%d vec%d calls%d align%d", ctxKind, hs, S.shape, S.vec, S.calls, S.align);
    /* the subject's source lives right after an unreadable page, at a chosen alignment */
    static const int AL[] = {0, 1, 5}; u8* src = g_srcPage + AL[S.align]; size_t n = subject_input(S.shape, src);
    /* reference: a fresh heap context */
    size_t bound = ZSTD_compressBound(n) + 64;
    ZSTD_CCtx* f = ZSTD_createCCtx(); size_t rn = subject_run(f, &S, src, n, g_ref, bound); ZSTD_freeCCtx(f);
    if (ZSTD_isError(rn)) { vx_fail("subject fails on a fresh context: %s", ZSTD_getErrorName(rn)); return; }
    /* the same subject after the history, on the same context */
    ZSTD_CCtx* c = ctxKind ? ZSTD_initStaticCCtx(g_static, g_staticSize) : ZSTD_createCCtx();
    if (!c) { vx_fail("context creation failed"); return; }
    for (int i = 0; i < hlen; i++) { int e = history_op(c, h[i], ctxKind); if (e == 1) { vx_obs_u64(41); if (!ctxKind) ZSTD_freeCCtx(c); return; } if (e) { if (!ctxKind) ZSTD_freeCCtx(c); return; } }
    ZSTD_CCtx_reset(c, ZSTD_reset_session_and_parameters);      /* the caller starts the new job from a reset context */
    /* a different destination address and a source copy elsewhere must not matter either: dst offset by the alignment choice */
    size_t cn = subject_run(c, &S, src, n, g_dst + AL[S.align], bound);
    if (ZSTD_isError(cn)) vx_fail("subject fails after history [%s] although it succeeds on a fresh context: %s", hs, ZSTD_getErrorName(cn));
    else if (cn != rn || memcmp(g_dst + AL[S.align], g_ref, rn)) { vx_fail("output after history [%s] differs from the fresh-context output", hs); (void)cn; }
    if (!ctxKind) ZSTD_freeCCtx(c);
    vx_obs_u64(vx_hash(g_ref, rn)); if (hlen) vx_nontrivial();
    vx_stat_add("histories_run", 1);
    if (vx_want_sample()) vx_sample("ctx%d [%s] then shape%d vec%d calls%d: %zu bytes, identical to fresh", ctxKind, hs, S.shape, S.vec, S.calls, rn);
}

int main(int argc, char** argv) { return vx_main(argc, argv, init, body); }
