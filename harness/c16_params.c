/* C16: parameter interface contract.  Closed grid: every parameter x value grid x object x operation
 * sequence (depth <= 3) against a reference model transcribed from zstd.h's documentation. */
#include "common.h"
#include <limits.h>

typedef struct { int id; const char* name; int zeroDefault; int midFrameOK; } pdesc_t;
/* zeroDefault: zstd.h documents 0 as "use default" for this parameter although 0 may lie below the advertised lower bound.
 * midFrameOK : zstd.h lists the parameter as updatable during compression (MT mode) - acceptance mid-frame is not judged. */
static const pdesc_t CP[] = {
    {ZSTD_c_compressionLevel, "compressionLevel", 1, 1}, {ZSTD_c_windowLog, "windowLog", 1, 0}, {ZSTD_c_hashLog, "hashLog", 1, 1},
    {ZSTD_c_chainLog, "chainLog", 1, 1}, {ZSTD_c_searchLog, "searchLog", 1, 1}, {ZSTD_c_minMatch, "minMatch", 1, 1},
    {ZSTD_c_targetLength, "targetLength", 1, 1}, {ZSTD_c_strategy, "strategy", 1, 1}, {ZSTD_c_targetCBlockSize, "targetCBlockSize", 1, 0},
    {ZSTD_c_enableLongDistanceMatching, "enableLongDistanceMatching", 0, 0}, {ZSTD_c_ldmHashLog, "ldmHashLog", 1, 0}, {ZSTD_c_ldmMinMatch, "ldmMinMatch", 1, 0},
    {ZSTD_c_ldmBucketSizeLog, "ldmBucketSizeLog", 1, 0}, {ZSTD_c_ldmHashRateLog, "ldmHashRateLog", 1, 0},
    {ZSTD_c_contentSizeFlag, "contentSizeFlag", 0, 0}, {ZSTD_c_checksumFlag, "checksumFlag", 0, 0}, {ZSTD_c_dictIDFlag, "dictIDFlag", 0, 0},
    {ZSTD_c_nbWorkers, "nbWorkers", 0, 0}, {ZSTD_c_jobSize, "jobSize", 1, 0}, {ZSTD_c_overlapLog, "overlapLog", 1, 0},
    {ZSTD_c_rsyncable, "rsyncable", 0, 0}, {ZSTD_c_format, "format", 0, 0}, {ZSTD_c_forceMaxWindow, "forceMaxWindow", 0, 0},
    {ZSTD_c_forceAttachDict, "forceAttachDict", 0, 0}, {ZSTD_c_literalCompressionMode, "literalCompressionMode", 0, 0}, {ZSTD_c_srcSizeHint, "srcSizeHint", 0, 0},
    {ZSTD_c_enableDedicatedDictSearch, "enableDedicatedDictSearch", 0, 0}, {ZSTD_c_stableInBuffer, "stableInBuffer", 0, 0}, {ZSTD_c_stableOutBuffer, "stableOutBuffer", 0, 0},
    {ZSTD_c_blockDelimiters, "blockDelimiters", 0, 0}, {ZSTD_c_validateSequences, "validateSequences", 0, 0}, {ZSTD_c_useBlockSplitter, "useBlockSplitter", 0, 0},
    {ZSTD_c_useRowMatchFinder, "useRowMatchFinder", 0, 0}, {ZSTD_c_deterministicRefPrefix, "deterministicRefPrefix", 0, 0}, {ZSTD_c_prefetchCDictTables, "prefetchCDictTables", 0, 0},
    {ZSTD_c_enableSeqProducerFallback, "enableSeqProducerFallback", 0, 0}, {ZSTD_c_maxBlockSize, "maxBlockSize", 1, 0}, {ZSTD_c_searchForExternalRepcodes, "searchForExternalRepcodes", 0, 0},
};
enum { NCP = sizeof CP / sizeof CP[0] };
static const pdesc_t DP[] = {
    {ZSTD_d_windowLogMax, "d_windowLogMax", 1, 0}, {ZSTD_d_format, "d_format", 0, 0}, {ZSTD_d_stableOutBuffer, "d_stableOutBuffer", 0, 0},
    {ZSTD_d_forceIgnoreChecksum, "d_forceIgnoreChecksum", 0, 0}, {ZSTD_d_refMultipleDDicts, "d_refMultipleDDicts", 0, 0},
    {ZSTD_d_disableHuffmanAssembly, "d_disableHuffmanAssembly", 0, 0}, {ZSTD_d_maxBlockSize, "d_maxBlockSize", 1, 0},
};
enum { NDP = sizeof DP / sizeof DP[0] };

enum { OBJ_CCTX, OBJ_PARAMS, OBJ_DCTX };
enum { ST_INIT, ST_MID, ST_ERR };
static u8 g_in[4096], g_outb[8192], g_frame[512];
static size_t g_frameLen;

typedef struct { int kind; ZSTD_CCtx* c; ZSTD_CCtx_params* p; ZSTD_DCtx* d; int stage; } obj_t;

static int np(const obj_t* o) { return o->kind == OBJ_DCTX ? NDP : NCP; }
static const pdesc_t* pd(const obj_t* o, int i) { return o->kind == OBJ_DCTX ? &DP[i] : &CP[i]; }
static ZSTD_bounds bounds(const obj_t* o, int i) { return o->kind == OBJ_DCTX ? ZSTD_dParam_getBounds((ZSTD_dParameter)DP[i].id) : ZSTD_cParam_getBounds((ZSTD_cParameter)CP[i].id); }
static size_t setp(obj_t* o, int i, int v) {
    if (o->kind == OBJ_CCTX) return ZSTD_CCtx_setParameter(o->c, (ZSTD_cParameter)CP[i].id, v);
    if (o->kind == OBJ_PARAMS) return ZSTD_CCtxParams_setParameter(o->p, (ZSTD_cParameter)CP[i].id, v);
    return ZSTD_DCtx_setParameter(o->d, (ZSTD_dParameter)DP[i].id, v);
}
static size_t getp(obj_t* o, int i, int* v) {
    if (o->kind == OBJ_CCTX) return ZSTD_CCtx_getParameter(o->c, (ZSTD_cParameter)CP[i].id, v);
    if (o->kind == OBJ_PARAMS) return ZSTD_CCtxParams_getParameter(o->p, (ZSTD_cParameter)CP[i].id, v);
    return ZSTD_DCtx_getParameter(o->d, (ZSTD_dParameter)DP[i].id, v);
}
static void snapshot(obj_t* o, int* vec) { for (int i = 0; i < np(o); i++) { vec[i] = INT_MIN + 7; getp(o, i, &vec[i]); } }
static int same(const int* a, const int* b, int n, int* which) { for (int i = 0; i < n; i++) if (a[i] != b[i]) { *which = i; return 0; } return 1; }

static int grid(int k, ZSTD_bounds b, int dflt) {
    switch (k) {
    case 0: return b.lowerBound; case 1: return b.upperBound; case 2: return b.lowerBound == INT_MIN ? INT_MIN : b.lowerBound - 1; case 3: return b.upperBound == INT_MAX ? INT_MAX : b.upperBound + 1;
    case 4: return b.lowerBound + 1; case 5: return b.upperBound - 1; case 6: return 0; case 7: return dflt; case 8: return INT_MIN; default: return INT_MAX;
    }
}
enum { NGRID = 10 };
enum { OP_SET, OP_RESET_SESSION = NGRID, OP_RESET_PARAMS, OP_RESET_BOTH, OP_BEGIN, OP_END, OP_FAILCALL, OP_APPLY_PARAMS, OP_SIMPLE, OP_SET_STRUCT, NOPS };
static const char* OPNAME[] = {"reset(session)", "reset(parameters)", "reset(both)", "beginFrame", "endFrame", "failingCall", "setParametersUsingCCtxParams", "simpleOneShot", "structSetter"};

static int g_defaults[3][64]; static int g_haveDefaults[3];

static void init(void) { fill_text(g_in, sizeof g_in, 1); g_frameLen = ZSTD_compress(g_frame, sizeof g_frame, g_in, 300, 1); }

/* --mode 1: which dictionary a context holds, as a function of the calls made on it.  Reference model: {none, sticky A, sticky B (CDict / DDict), one-shot prefix};
 * load / ref replace it, a completed frame uses up a prefix, a parameter reset (alone or with the session) drops everything, a session reset keeps the sticky
 * ones.  After every history of <= 4 operations a probe frame is compressed (or decoded) and must equal what a fresh context gives with the model's dictionary. */
enum { DM_NONE, DM_A, DM_B, DM_PREFIX };
static u8 g_dA[700], g_dB[700], g_probe[900], g_ref[4][2048]; static size_t g_refLen[4]; static ZSTD_CDict* g_cdB; static ZSTD_DDict* g_ddB;
static size_t probe_compress(ZSTD_CCtx* c, u8* dst, size_t cap) { ZSTD_CCtx_setParameter(c, ZSTD_c_compressionLevel, 3); return ZSTD_compress2(c, dst, cap, g_probe, sizeof g_probe); }
static void dict_init(void) {
    fill_text(g_dA, sizeof g_dA, 61); fill_noise(g_dB, sizeof g_dB, 62); memcpy(g_probe, g_dA + 100, 400); memcpy(g_probe + 400, g_dB + 200, 400); fill_text(g_probe + 800, 100, 63);
    g_cdB = ZSTD_createCDict(g_dB, sizeof g_dB, 3); g_ddB = ZSTD_createDDict(g_dB, sizeof g_dB);
    for (int m = 0; m < 4; m++) { ZSTD_CCtx* c = ZSTD_createCCtx(); if (m == DM_A) ZSTD_CCtx_loadDictionary(c, g_dA, sizeof g_dA); if (m == DM_B) ZSTD_CCtx_refCDict(c, g_cdB); if (m == DM_PREFIX) ZSTD_CCtx_refPrefix(c, g_dA, sizeof g_dA); g_refLen[m] = probe_compress(c, g_ref[m], sizeof g_ref[m]); ZSTD_freeCCtx(c); }
}
static void body_dicts(void) {
    static const char* ON[] = {"loadDictionary(A)", "refCDict(B)", "refPrefix(A)", "frame", "reset(session)", "reset(parameters)", "reset(both)", "loadDictionary(NULL)", "failingFrame"};
    if (!g_cdB) dict_init();
    int side = vx_choose(2), len = vx_choose(5), model = DM_NONE, skip = 0; char hist[200] = ""; size_t ho = 0;
    ZSTD_CCtx* c = ZSTD_createCCtx(); ZSTD_DCtx* d = ZSTD_createDCtx(); u8 tmp[2048], out[1024];
    for (int i = 0; i < len; i++) {
        int op = vx_choose(9); ho += snprintf(hist + ho, sizeof hist - ho, "%s ", ON[op]); vx_label("%s dictionary state: %s", side ? "DCtx" : "CCtx", hist);
        if (!side) switch (op) {
            case 0: ZSTD_CCtx_loadDictionary(c, g_dA, sizeof g_dA); model = DM_A; break;
            case 1: ZSTD_CCtx_refCDict(c, g_cdB); model = DM_B; break;
            case 2: ZSTD_CCtx_refPrefix(c, g_dA, sizeof g_dA); model = DM_PREFIX; break;
            case 3: { size_t r = ZSTD_compress2(c, tmp, sizeof tmp, g_probe, 300); if (ZSTD_isError(r)) skip = 1; if (model == DM_PREFIX) model = DM_NONE; break; }
            case 4: ZSTD_CCtx_reset(c, ZSTD_reset_session_only); if (model == DM_PREFIX) skip = 1; break;      /* what a session reset does to a pending prefix is not specified */
            case 5: ZSTD_CCtx_reset(c, ZSTD_reset_parameters); model = DM_NONE; break;
            case 6: ZSTD_CCtx_reset(c, ZSTD_reset_session_and_parameters); model = DM_NONE; break;
            case 7: ZSTD_CCtx_loadDictionary(c, NULL, 0); model = DM_NONE; break;
            default: { size_t r = ZSTD_compress2(c, tmp, 1, g_probe, 300); (void)r; ZSTD_CCtx_reset(c, ZSTD_reset_session_only); if (model == DM_PREFIX) skip = 1; break; }
        } else switch (op) {
            case 0: ZSTD_DCtx_loadDictionary(d, g_dA, sizeof g_dA); model = DM_A; break;
            case 1: ZSTD_DCtx_refDDict(d, g_ddB); model = DM_B; break;
            case 2: ZSTD_DCtx_refPrefix(d, g_dA, sizeof g_dA); model = DM_PREFIX; break;
            case 3: { size_t r = ZSTD_decompressDCtx(d, out, sizeof out, g_ref[DM_NONE], g_refLen[DM_NONE]); if (ZSTD_isError(r)) skip = 1; if (model == DM_PREFIX) model = DM_NONE; break; }
            case 4: ZSTD_DCtx_reset(d, ZSTD_reset_session_only); if (model == DM_PREFIX) skip = 1; break;
            case 5: ZSTD_DCtx_reset(d, ZSTD_reset_parameters); model = DM_NONE; break;
            case 6: ZSTD_DCtx_reset(d, ZSTD_reset_session_and_parameters); model = DM_NONE; break;
            case 7: ZSTD_DCtx_loadDictionary(d, NULL, 0); model = DM_NONE; break;
            default: { size_t r = ZSTD_decompressDCtx(d, out, 1, g_ref[DM_NONE], g_refLen[DM_NONE]); (void)r; ZSTD_DCtx_reset(d, ZSTD_reset_session_only); if (model == DM_PREFIX) skip = 1; break; }
        }
    }
    if (!skip) {
        static const char* MN[] = {"no dictionary", "dictionary A", "dictionary B", "prefix A"};
        if (!side) { size_t r = probe_compress(c, tmp, sizeof tmp);
            if (ZSTD_isError(r)) vx_fail("after [%s] the probe frame fails: %s", hist, ZSTD_getErrorName(r));
            else if (r != g_refLen[model] || memcmp(tmp, g_ref[model], r)) { int like = -1; for (int m = 0; m < 4; m++) if (r == g_refLen[m] && !memcmp(tmp, g_ref[m], r)) like = m; vx_fail("after [%s] the context should hold %s but compresses as with %s", hist, MN[model], like < 0 ? "something else" : MN[like]); }
        } else {
            /* the frame made with the model's dictionary decodes to the probe; with no dictionary held, a frame that needs dictionary A does not */
            size_t r = ZSTD_decompressDCtx(d, out, sizeof out, g_ref[model], g_refLen[model]);
            if (ZSTD_isError(r) || r != sizeof g_probe || memcmp(out, g_probe, r)) vx_fail("after [%s] the decoder should hold %s but fails to decode a frame made with it: %s", hist, MN[model], ZSTD_isError(r) ? ZSTD_getErrorName(r) : "content differs");
            else if (model == DM_NONE) { r = ZSTD_decompressDCtx(d, out, sizeof out, g_ref[DM_A], g_refLen[DM_A]); if (!ZSTD_isError(r) && r == sizeof g_probe && !memcmp(out, g_probe, r)) vx_fail("after [%s] the decoder should hold no dictionary but still decodes a frame that needs dictionary A", hist); }
        }
    }
    vx_obs(hist, ho); vx_obs_u64((uint64_t)model + (uint64_t)side * 8); if (len) vx_nontrivial(); vx_stat_add("dict_histories", 1);
    ZSTD_freeCCtx(c); ZSTD_freeDCtx(d);
}

static void body(void) {
    if ((int)vx_opt_int("--mode", 0) == 1) { body_dicts(); return; }
    obj_t o; memset(&o, 0, sizeof o);
    o.kind = vx_choose(3);
    int pi = vx_choose(o.kind == OBJ_DCTX ? NDP : NCP);
    if (o.kind == OBJ_CCTX) o.c = ZSTD_createCCtx(); else if (o.kind == OBJ_PARAMS) o.p = ZSTD_createCCtxParams(); else o.d = ZSTD_createDCtx();
    const pdesc_t* P = pd(&o, pi); int n = np(&o);
    ZSTD_bounds b = bounds(&o, pi);
    char hist[300] = ""; size_t ho = 0;
    int fresh[64], cur[64], after[64], which = 0;
    snapshot(&o, fresh);
    if (ZSTD_isError(b.error)) { vx_fail("%s: getBounds fails for a listed parameter", P->name); goto done; }
    if (fresh[pi] == INT_MIN + 7) { vx_fail("%s: getter fails on a fresh object", P->name); goto done; }
    memcpy(cur, fresh, sizeof cur);
    int depth = (int)vx_opt_int("--depth", 3);
    for (int step = 0; step < depth; step++) {
        int op = vx_choose(NOPS + 1);
        if (op == NOPS) break;                        /* shorter sequence */
        if (op < NGRID) {
            int v = grid(op, b, fresh[pi]);
            ho += snprintf(hist + ho, sizeof hist - ho, "set(%d) ", v);
            vx_label("%s %s: %s", o.kind == OBJ_CCTX ? "CCtx" : o.kind == OBJ_PARAMS ? "CCtxParams" : "DCtx", P->name, hist);
            size_t r = setp(&o, pi, v);
            snapshot(&o, after);
            int inRange = (v >= b.lowerBound && v <= b.upperBound);
            if (o.stage == ST_ERR) { memcpy(cur, after, sizeof cur); continue; }       /* after an error only a reset is specified */
            if (ZSTD_isError(r)) {
                if (!same(cur, after, n, &which)) { vx_fail("%s: rejected set(%d) changed parameter %s (%d -> %d)", P->name, v, pd(&o, which)->name, cur[which], after[which]); goto done; }
                if (inRange && o.stage == ST_INIT) { vx_fail("%s: in-range value %d (bounds %d..%d) rejected: %s", P->name, v, b.lowerBound, b.upperBound, ZSTD_getErrorName(r)); goto done; }
            } else {
                if (o.stage == ST_MID && !P->midFrameOK && o.kind != OBJ_PARAMS) { vx_fail("%s: set accepted mid-frame although the parameter may not change during a frame", P->name); goto done; }
                int got = after[pi];
                int okval;
                if (inRange) {
                    okval = (got == v);
                    /* documented normalisations */
                    if (P->id == ZSTD_c_compressionLevel && o.kind != OBJ_DCTX && v == 0) okval = (got == ZSTD_CLEVEL_DEFAULT);
                    if (P->id == ZSTD_c_jobSize && o.kind != OBJ_DCTX && v > 0 && got >= v && got <= 512 * 1024) okval = 1;      /* "minimum size is 512 KB" */
                    if (!okval) { vx_fail("%s: set(%d) accepted but reads back %d", P->name, v, got); goto done; }
                } else {
                    okval = (got >= b.lowerBound && got <= b.upperBound) || (v == 0 && P->zeroDefault && got == 0);
                    if (!okval) { vx_fail("%s: out-of-range set(%d) accepted and reads back %d, outside the advertised bounds %d..%d", P->name, v, got, b.lowerBound, b.upperBound); goto done; }
                }
                /* no other parameter moved */
                int tmp[64]; memcpy(tmp, cur, sizeof tmp); tmp[pi] = got;
                if (!same(tmp, after, n, &which)) { vx_fail("%s: set(%d) also changed parameter %s (%d -> %d)", P->name, v, pd(&o, which)->name, cur[which], after[which]); goto done; }
                vx_nontrivial();
            }
            memcpy(cur, after, sizeof cur);
            continue;
        }
        ho += snprintf(hist + ho, sizeof hist - ho, "%s ", OPNAME[op - NGRID]);
        vx_label("%s %s: %s", o.kind == OBJ_CCTX ? "CCtx" : o.kind == OBJ_PARAMS ? "CCtxParams" : "DCtx", P->name, hist);
        size_t r = 0; int expectDefaults = 0, expectSame = 1;
        switch (op) {
        case OP_RESET_SESSION:
            if (o.kind == OBJ_CCTX) r = ZSTD_CCtx_reset(o.c, ZSTD_reset_session_only); else if (o.kind == OBJ_DCTX) r = ZSTD_DCtx_reset(o.d, ZSTD_reset_session_only); else break;
            if (ZSTD_isError(r)) { vx_fail("%s: session reset failed", P->name); goto done; }
            o.stage = ST_INIT; break;
        case OP_RESET_PARAMS:
            if (o.kind == OBJ_CCTX) r = ZSTD_CCtx_reset(o.c, ZSTD_reset_parameters); else if (o.kind == OBJ_DCTX) r = ZSTD_DCtx_reset(o.d, ZSTD_reset_parameters); else r = ZSTD_CCtxParams_reset(o.p);
            if (o.stage == ST_MID) { if (!ZSTD_isError(r)) { vx_fail("%s: parameter reset accepted while a frame is in progress", P->name); goto done; } }
            else if (o.stage == ST_INIT) { if (ZSTD_isError(r)) { vx_fail("%s: parameter reset failed between frames", P->name); goto done; } expectDefaults = 1; }
            else { if (!ZSTD_isError(r)) expectDefaults = 1; else expectSame = 1; }
            break;
        case OP_RESET_BOTH:
            if (o.kind == OBJ_CCTX) r = ZSTD_CCtx_reset(o.c, ZSTD_reset_session_and_parameters); else if (o.kind == OBJ_DCTX) r = ZSTD_DCtx_reset(o.d, ZSTD_reset_session_and_parameters); else break;
            if (ZSTD_isError(r)) { vx_fail("%s: full reset failed", P->name); goto done; }
            o.stage = ST_INIT; expectDefaults = 1; break;
        case OP_BEGIN:
            if (o.stage != ST_INIT) break;
            if (o.kind == OBJ_CCTX) {
                if (cur[27] || cur[28]) break;        /* stable-buffer modes have their own calling rules; not this check's subject */
                if (cur[1] > 22 || cur[2] > 22 || cur[3] > 22 || cur[10] > 22 || cur[9] == 1 || cur[17] > 4 || cur[18] > (1 << 22)) break;   /* keep frames small: memory, not the interface, would be tested */
                ZSTD_inBuffer in = { g_in, 200, 0 }; ZSTD_outBuffer out = { g_outb, sizeof g_outb, 0 };
                r = ZSTD_compressStream2(o.c, &out, &in, ZSTD_e_continue);
                if (!ZSTD_isError(r)) o.stage = ST_MID; else o.stage = ST_ERR;
            } else if (o.kind == OBJ_DCTX) {
                if (cur[1] != 0 || cur[2] != 0) break;   /* frame below is a standard-format frame, buffered output */
                ZSTD_inBuffer in = { g_frame, 7, 0 }; ZSTD_outBuffer out = { g_outb, sizeof g_outb, 0 };
                r = ZSTD_decompressStream(o.d, &out, &in);
                if (!ZSTD_isError(r)) o.stage = ST_MID; else o.stage = ST_ERR;
            }
            break;
        case OP_END:
            if (o.stage != ST_MID) break;
            if (o.kind == OBJ_CCTX) { ZSTD_inBuffer in = { g_in, 0, 0 }; ZSTD_outBuffer out = { g_outb, sizeof g_outb, 0 }; r = ZSTD_compressStream2(o.c, &out, &in, ZSTD_e_end); if (r == 0) o.stage = ST_INIT; else o.stage = ST_ERR; }
            else if (o.kind == OBJ_DCTX) { ZSTD_inBuffer in = { g_frame, g_frameLen, 7 }; ZSTD_outBuffer out = { g_outb, sizeof g_outb, 0 }; r = ZSTD_decompressStream(o.d, &out, &in); if (r == 0) o.stage = ST_INIT; else o.stage = ST_ERR; }
            break;
        case OP_FAILCALL:
            if (o.stage != ST_INIT) break;
            if (o.kind == OBJ_CCTX) { if (cur[27] || cur[28] || cur[1] > 22 || cur[2] > 22 || cur[3] > 22 || cur[10] > 22 || cur[9] == 1 || cur[17] > 4) break; r = ZSTD_compress2(o.c, g_outb, 1, g_in, 3000); if (!ZSTD_isError(r)) { vx_fail("%s: compress2 into 1 byte succeeded", P->name); goto done; } o.stage = ST_ERR; }
            else if (o.kind == OBJ_DCTX) { r = ZSTD_decompressDCtx(o.d, g_outb, 1, g_frame, g_frameLen); if (!ZSTD_isError(r)) { vx_fail("%s: decompress into 1 byte succeeded", P->name); goto done; } o.stage = ST_ERR; }
            break;
        case OP_APPLY_PARAMS:
            if (o.kind != OBJ_CCTX) break;
            {   ZSTD_CCtx_params* q = ZSTD_createCCtxParams(); int v = grid(vx_choose(2), b, 0);
                ZSTD_CCtxParams_setParameter(q, (ZSTD_cParameter)P->id, v);
                int qv[64]; for (int i = 0; i < NCP; i++) { qv[i] = 0; ZSTD_CCtxParams_getParameter(q, (ZSTD_cParameter)CP[i].id, &qv[i]); }
                r = ZSTD_CCtx_setParametersUsingCCtxParams(o.c, q);
                ZSTD_freeCCtxParams(q);
                snapshot(&o, after);
                if (o.stage == ST_MID) { if (!ZSTD_isError(r)) { vx_fail("%s: setParametersUsingCCtxParams accepted mid-frame", P->name); goto done; } }
                else if (o.stage == ST_INIT) {
                    if (ZSTD_isError(r)) { vx_fail("%s: setParametersUsingCCtxParams failed between frames", P->name); goto done; }
                    if (!same(qv, after, n, &which)) { vx_fail("%s: after setParametersUsingCCtxParams parameter %s reads %d, the params object holds %d", P->name, CP[which].name, after[which], qv[which]); goto done; }
                    memcpy(cur, after, sizeof cur); continue;
                }
                if (ZSTD_isError(r)) break;
                memcpy(cur, after, sizeof cur); continue;
            }
        case OP_SET_STRUCT:
            /* the struct setters ZSTD_CCtx_setCParams / setFParams / setParams: all-or-none.  The struct is a valid one (level-3 table row, frame flags the
             * opposite of the current ones, so that a partial update is visible) with the parameter under test, when it is a member, replaced by a grid value */
            if (o.kind != OBJ_CCTX) break;
            {   static const int CPID[7] = {ZSTD_c_windowLog, ZSTD_c_hashLog, ZSTD_c_chainLog, ZSTD_c_searchLog, ZSTD_c_minMatch, ZSTD_c_targetLength, ZSTD_c_strategy};
                static const int FPID[3] = {ZSTD_c_contentSizeFlag, ZSTD_c_checksumFlag, ZSTD_c_dictIDFlag};
                int ci[7], fi[3], member = -1; for (int k = 0; k < 7; k++) { ci[k] = -1; for (int i = 0; i < NCP; i++) if (CP[i].id == CPID[k]) ci[k] = i; if (P->id == CPID[k]) member = k; }
                for (int k = 0; k < 3; k++) { fi[k] = -1; for (int i = 0; i < NCP; i++) if (CP[i].id == FPID[k]) fi[k] = i; if (P->id == FPID[k]) member = 7 + k; }
                int setter = member >= 0 ? vx_choose(3) : 2; static const int GV[4] = {0, 1, 2, 3}; int v = member >= 0 ? grid(GV[vx_choose(4)], b, 0) : 0;
                ZSTD_parameters zp; zp.cParams = ZSTD_getCParams(3, 0, 0);
                zp.fParams.contentSizeFlag = !cur[fi[0]]; zp.fParams.checksumFlag = !cur[fi[1]]; zp.fParams.noDictIDFlag = cur[fi[2]] ? 1 : 0;
                unsigned* cf[7] = {&zp.cParams.windowLog, &zp.cParams.chainLog, &zp.cParams.hashLog, &zp.cParams.searchLog, &zp.cParams.minMatch, &zp.cParams.targetLength, (unsigned*)&zp.cParams.strategy};
                static const int CFID[7] = {ZSTD_c_windowLog, ZSTD_c_chainLog, ZSTD_c_hashLog, ZSTD_c_searchLog, ZSTD_c_minMatch, ZSTD_c_targetLength, ZSTD_c_strategy};
                if (member >= 0 && member < 7) { for (int k = 0; k < 7; k++) if (CFID[k] == (int)P->id) *cf[k] = (unsigned)v; }
                else if (member == 7) zp.fParams.contentSizeFlag = v; else if (member == 8) zp.fParams.checksumFlag = v; else if (member == 9) zp.fParams.noDictIDFlag = !v;
                ho += snprintf(hist + ho, sizeof hist - ho, "[%s %s=%d] ", setter == 0 ? "setCParams" : setter == 1 ? "setFParams" : "setParams", member >= 0 ? P->name : "-", v);
                vx_label("CCtx %s: %s", P->name, hist);
                r = setter == 0 ? ZSTD_CCtx_setCParams(o.c, zp.cParams) : setter == 1 ? ZSTD_CCtx_setFParams(o.c, zp.fParams) : ZSTD_CCtx_setParams(o.c, zp);
                snapshot(&o, after);
                if (ZSTD_isError(r)) { if (!same(cur, after, n, &which)) { vx_fail("%s: refused struct setter changed parameter %s (%d -> %d)", P->name, pd(&o, which)->name, cur[which], after[which]); goto done; } }
                else {
                    int want[64]; memcpy(want, cur, sizeof want);
                    if (setter != 1) for (int k = 0; k < 7; k++) for (int i = 0; i < NCP; i++) if (CP[i].id == CFID[k]) want[i] = (int)*cf[k];
                    if (setter != 0) { want[fi[0]] = zp.fParams.contentSizeFlag != 0; want[fi[1]] = zp.fParams.checksumFlag != 0; want[fi[2]] = !zp.fParams.noDictIDFlag; }
                    /* a value outside the advertised bounds must not have been accepted as is */
                    if (member >= 0 && member < 7 && setter != 1 && (v < b.lowerBound || v > b.upperBound)) { vx_fail("%s: struct setter accepted the out-of-range value %d", P->name, v); goto done; }
                    if (!same(want, after, n, &which)) { vx_fail("%s: after the struct setter parameter %s reads %d, expected %d", P->name, pd(&o, which)->name, after[which], want[which]); goto done; }
                    vx_nontrivial();
                }
                (void)ci; memcpy(cur, after, sizeof cur); continue;
            }
        case OP_SIMPLE:
            if (o.stage != ST_INIT) break;
            if (o.kind == OBJ_CCTX) {
                /* documented: ZSTD_compressCCtx ignores every advanced parameter except through its level argument */
                r = ZSTD_compressCCtx(o.c, g_outb, sizeof g_outb, g_in, 1000, 1);
                if (ZSTD_isError(r)) { vx_fail("%s: ZSTD_compressCCtx failed after advanced settings: %s", P->name, ZSTD_getErrorName(r)); goto done; }
                unsigned long long fcs = ZSTD_getFrameContentSize(g_outb, r);
                ZSTD_frameHeader fh; size_t hr = ZSTD_getFrameHeader(&fh, g_outb, r);
                if (hr != 0 || fcs != 1000 || fh.checksumFlag != 0) { vx_fail("%s: ZSTD_compressCCtx output reflects advanced settings (header err=%zu fcs=%llu checksum=%u)", P->name, hr, fcs, fh.checksumFlag); goto done; }
                size_t dr = ZSTD_decompress(g_outb + 4096, 4096, g_outb, r);
                if (dr != 1000 || memcmp(g_outb + 4096, g_in, 1000)) { vx_fail("%s: ZSTD_compressCCtx output does not round trip", P->name); goto done; }
            }
            break;
        }
        snapshot(&o, after);
        if (expectDefaults) { if (!same(fresh, after, n, &which)) { vx_fail("%s: after reset parameter %s reads %d, its default is %d", P->name, pd(&o, which)->name, after[which], fresh[which]); goto done; } }
        else if (expectSame) { if (!same(cur, after, n, &which)) { vx_fail("%s: operation changed parameter %s (%d -> %d)", P->name, pd(&o, which)->name, cur[which], after[which]); goto done; } }
        memcpy(cur, after, sizeof cur);
    }
    vx_obs(cur, sizeof(int) * (size_t)n); vx_obs_u64((uint64_t)o.stage); vx_obs_u64((uint64_t)(o.kind * 100 + pi));
    vx_stat_add("operations", 1);
    if (vx_want_sample()) vx_sample("%s %s bounds=[%d,%d]: %s-> reads %d", o.kind == OBJ_CCTX ? "CCtx" : o.kind == OBJ_PARAMS ? "CCtxParams" : "DCtx", P->name, b.lowerBound, b.upperBound, hist, cur[pi]);
done:
    (void)g_defaults; (void)g_haveDefaults;
    ZSTD_freeCCtx(o.c); ZSTD_freeCCtxParams(o.p); ZSTD_freeDCtx(o.d);
}

int main(int argc, char** argv) { return vx_main(argc, argv, init, body); }
