/* C13: one (or two) failing allocation(s) at every index of every scenario, through ZSTD_customMem.
 * Oracle: no crash; the failure is reported (NULL / error code) or absorbed; everything obtained from the
 * caller's allocator goes back through the caller's deallocator exactly once; after a session reset and with
 * memory available the same operation succeeds on the same context and round-trips. */
#include "common.h"
#include "vsched.h"
#include "pool.h"

/* ---- counting / failing allocator ---- */
#define MAXLIVE 8192
static struct { void* p; size_t n; } g_live[MAXLIVE];
static int g_nlive; static long g_allocIdx, g_failAt, g_failAt2, g_faulted, g_badFree, g_bytesLive, g_peak;
static void* va_alloc(void* opaque, size_t size) {
    (void)opaque;
    long idx = ++g_allocIdx;
    if (idx == g_failAt || idx == g_failAt2) { g_faulted++; return NULL; }
    void* p = malloc(size ? size : 1); if (!p) return NULL;
    memset(p, 0xA5, size);
    if (g_nlive < MAXLIVE) { g_live[g_nlive].p = p; g_live[g_nlive].n = size; g_nlive++; }
    g_bytesLive += (long)size; if (g_bytesLive > g_peak) g_peak = g_bytesLive;
    return p;
}
static void va_free(void* opaque, void* p) {
    (void)opaque; if (!p) return;
    for (int i = g_nlive - 1; i >= 0; i--) if (g_live[i].p == p) { g_bytesLive -= (long)g_live[i].n; g_live[i] = g_live[--g_nlive]; free(p); return; }
    g_badFree++;      /* not ours, or freed twice: do not pass it to free() */
}
static ZSTD_customMem va_mem(void) { ZSTD_customMem m = { va_alloc, va_free, NULL }; return m; }
static void va_reset(long failAt, long failAt2) { g_nlive = 0; g_allocIdx = 0; g_failAt = failAt; g_failAt2 = failAt2; g_faulted = 0; g_badFree = 0; g_bytesLive = 0; g_peak = 0; }
static void va_heal(void) { g_failAt = 0; g_failAt2 = 0; }

/* ---- data ---- */
#define SRCN 6000
static u8 g_src[1 << 16], g_dst[1 << 17], g_out[1 << 16], g_dict[2048], g_frameSmall[4096], g_frameBig[1 << 16];
static size_t g_frameSmallLen, g_frameBigLen;
static int g_explore;

typedef struct {
    const char* name; int kind;          /* 0 compress, 1 decompress, 2 pool, 3 cdict/ddict objects */
    int level, workers, ldm, dictMode, twoFrames, workers2, pool, srcSize, streaming, dds, multiDDict;
} scen_t;
/* dictMode: 0 none, 1 loadDictionary byCopy, 2 loadDictionary byRef, 3 refCDict, 4 refPrefix */
static const scen_t SC[] = {
    {"compress2-l1", 0, 1, 0, 0, 0, 0, 0, 0, 3000, 0, 0, 0}, {"compress2-l5", 0, 5, 0, 0, 0, 0, 0, 0, 3000, 0, 0, 0}, {"compress2-l19", 0, 19, 0, 0, 0, 0, 0, 0, 3000, 0, 0, 0},
    {"stream-l1-then-l19-resize", 0, 1, 0, 0, 0, 1, 0, 0, 3000, 1, 0, 0},
    {"loadDict-byCopy", 0, 3, 0, 0, 1, 0, 0, 0, 3000, 0, 0, 0}, {"loadDict-byRef", 0, 3, 0, 0, 2, 0, 0, 0, 3000, 0, 0, 0},
    {"refCDict", 0, 3, 0, 0, 3, 0, 0, 0, 3000, 0, 0, 0}, {"refCDict-dds", 0, 6, 0, 0, 3, 0, 0, 0, 3000, 0, 1, 0}, {"refPrefix", 0, 3, 0, 0, 4, 0, 0, 0, 3000, 0, 0, 0},
    {"ldm", 0, 3, 0, 1, 0, 0, 0, 0, 5000, 0, 0, 0},
    {"mt-1worker", 0, 1, 1, 0, 0, 0, 0, 0, SRCN, 0, 0, 0}, {"mt-2workers", 0, 1, 2, 0, 0, 0, 0, 0, SRCN, 0, 0, 0}, {"mt-ldm", 0, 1, 2, 1, 0, 0, 0, 0, SRCN, 0, 0, 0},
    {"mt-dict", 0, 1, 2, 0, 1, 0, 0, 0, SRCN, 0, 0, 0}, {"mt-prefix", 0, 1, 1, 0, 4, 0, 0, 0, SRCN, 0, 0, 0}, {"mt-resize-workers", 0, 1, 1, 0, 0, 1, 3, 0, SRCN, 0, 0, 0}, {"mt-shared-pool", 0, 1, 2, 0, 0, 0, 0, 1, SRCN, 0, 0, 0},
    {"decompressDCtx", 1, 0, 0, 0, 0, 0, 0, 0, 0, 0, 0, 0}, {"dstream-small-then-big-window", 1, 0, 0, 0, 0, 1, 0, 0, 0, 1, 0, 0},
    {"dctx-loadDict", 1, 0, 0, 0, 1, 0, 0, 0, 0, 0, 0, 0}, {"dctx-refDDict", 1, 0, 0, 0, 3, 0, 0, 0, 0, 0, 0, 0}, {"dctx-multiDDict", 1, 0, 0, 0, 3, 0, 0, 0, 0, 0, 0, 1}, {"dctx-refPrefix", 1, 0, 0, 0, 4, 0, 0, 0, 0, 1, 0, 0},
    {"pool-create-resize", 2, 0, 2, 0, 0, 0, 3, 0, 0, 0, 0, 0},
};
enum { NSC = sizeof SC / sizeof SC[0] };
static long g_N[NSC];

static int cb_pick0(int n, int kind) { (void)n; (void)kind; return 0; }
static int cb_pick(int n, int kind) { return vx_pick(n, kind == 2 ? VX_PREEMPT : VX_DEV); }
static void cb_fail(const char* what) { vx_fail("%s", what); if (vx_sh && (vx_me >= 0 || vx_replaying)) vx_abort_exec(); fprintf(stderr, "init: %s\n", what); _exit(3); }

static size_t apply_cparams(ZSTD_CCtx* c, const scen_t* s, int frame, ZSTD_CDict** cd, ZSTD_threadPool* tp) {
    size_t e = 0;
#define TRY(x) do { size_t r_ = (x); if (ZSTD_isError(r_)) return r_; } while (0)
    (void)e;
    int level = (frame == 1 && s->twoFrames && s->streaming) ? 19 : s->level;
    TRY(ZSTD_CCtx_setParameter(c, ZSTD_c_compressionLevel, level));
    TRY(ZSTD_CCtx_setParameter(c, ZSTD_c_windowLog, (frame == 1 && s->streaming) ? 14 : 11));
    if (s->workers) { TRY(ZSTD_CCtx_setParameter(c, ZSTD_c_nbWorkers, (frame == 1 && s->workers2) ? s->workers2 : s->workers)); TRY(ZSTD_CCtx_setParameter(c, ZSTD_c_jobSize, 1024)); }
    if (s->ldm) { TRY(ZSTD_CCtx_setParameter(c, ZSTD_c_enableLongDistanceMatching, ZSTD_ps_enable)); TRY(ZSTD_CCtx_setParameter(c, ZSTD_c_ldmHashLog, 7)); }
    if (s->pool && tp) TRY(ZSTD_CCtx_refThreadPool(c, tp));
    switch (s->dictMode) {
    case 1: TRY(ZSTD_CCtx_loadDictionary_advanced(c, g_dict, 1500, ZSTD_dlm_byCopy, ZSTD_dct_rawContent)); break;
    case 2: TRY(ZSTD_CCtx_loadDictionary_advanced(c, g_dict, 1500, ZSTD_dlm_byRef, ZSTD_dct_rawContent)); break;
    case 3:
        if (!*cd) {
            ZSTD_CCtx_params* p = ZSTD_createCCtxParams();       /* default allocator: not under test here */
            ZSTD_CCtxParams_setParameter(p, ZSTD_c_compressionLevel, s->level);
            if (s->dds) ZSTD_CCtxParams_setParameter(p, ZSTD_c_enableDedicatedDictSearch, 1);
            *cd = ZSTD_createCDict_advanced2(g_dict, 1500, ZSTD_dlm_byCopy, ZSTD_dct_rawContent, p, va_mem());
            ZSTD_freeCCtxParams(p);
            if (!*cd) return (size_t)-ZSTD_error_memory_allocation;
        }
        TRY(ZSTD_CCtx_refCDict(c, *cd)); break;
    case 4: TRY(ZSTD_CCtx_refPrefix(c, g_dict, 1500)); break;
    default: break;
    }
#undef TRY
    return 0;
}

static size_t do_compress(ZSTD_CCtx* c, const scen_t* s, size_t n) {
    if (!s->streaming) return ZSTD_compress2(c, g_dst, sizeof g_dst, g_src, n);
    ZSTD_inBuffer in = { g_src, n, 0 }; ZSTD_outBuffer out = { g_dst, sizeof g_dst, 0 };
    for (int i = 0; i < 1000; i++) {
        ZSTD_inBuffer part = { g_src, in.pos + 700 > n ? n : in.pos + 700, in.pos };
        size_t r = ZSTD_compressStream2(c, &out, &part, part.size == n ? ZSTD_e_end : ZSTD_e_continue);
        in.pos = part.pos;
        if (ZSTD_isError(r)) return r;
        if (part.size == n && r == 0) return out.pos;
    }
    return (size_t)-ZSTD_error_GENERIC;
}
static int roundtrip_ok(const scen_t* s, size_t csz, size_t n) {
    ZSTD_DCtx* d = ZSTD_createDCtx(); size_t r = ZSTD_decompress_usingDict(d, g_out, sizeof g_out, g_dst, csz, s->dictMode ? g_dict : NULL, s->dictMode ? 1500 : 0); ZSTD_freeDCtx(d);
    return !ZSTD_isError(r) && r == n && !memcmp(g_out, g_src, n);
}

static void scen_compress(const scen_t* s) {
    ZSTD_CCtx* c = ZSTD_createCCtx_advanced(va_mem());
    ZSTD_CDict* cd = NULL; ZSTD_threadPool* tp = NULL;
    if (!c) goto end;
    if (s->pool) tp = ZSTD_createThreadPool(2);
    int frames = s->twoFrames ? 2 : 1;
    for (int f = 0; f < frames; f++) {
        size_t n = (size_t)s->srcSize + (size_t)f * 1000;
        size_t r = 0; int healed = 0;
        for (int attempt = 0; attempt < 4; attempt++) {
            if (attempt) ZSTD_CCtx_reset(c, ZSTD_reset_session_only);
            size_t e = apply_cparams(c, s, f, &cd, tp);
            if (attempt && !ZSTD_isError(e)) {    /* any job, not only the failed one: a smaller input first */
                size_t ir = do_compress(c, s, 700);
                if (ZSTD_isError(ir)) { if (healed) { vx_fail("%s: after a refused allocation and a reset, a small job fails: %s", s->name, ZSTD_getErrorName(ir)); goto end; } }
                else if (!roundtrip_ok(s, ir, 700)) { vx_fail("%s: after a refused allocation and a reset, a small job does not round trip", s->name); goto end; }
                ZSTD_CCtx_reset(c, ZSTD_reset_session_only); e = apply_cparams(c, s, f, &cd, tp);
            }
            r = ZSTD_isError(e) ? e : do_compress(c, s, n);
            if (!ZSTD_isError(r)) { if (attempt) vx_stat_add("retries_succeeded", 1); break; }
            if (!g_faulted) { vx_fail("%s: operation failed although no allocation was refused: %s", s->name, ZSTD_getErrorName(r)); goto end; }
            if (healed) { vx_fail("%s: after reset and with memory available the operation still fails: %s", s->name, ZSTD_getErrorName(r)); goto end; }
            if (attempt == 0) vx_stat_add("faults_reported_as_error", 1);
            /* keep a pending second fault armed for the first retry, then give the allocator back its health */
            if (attempt >= 1 || !(g_failAt2 && g_allocIdx < g_failAt2)) { va_heal(); healed = 1; }
        }
        if (ZSTD_isError(r)) { vx_fail("%s: retry did not succeed: %s", s->name, ZSTD_getErrorName(r)); goto end; }
        if (!roundtrip_ok(s, r, n)) { vx_fail("%s: frame produced %s an allocation failure does not round trip", s->name, g_faulted ? "after" : "without"); goto end; }
        ZSTD_CCtx_reset(c, ZSTD_reset_session_and_parameters);
    }
end:
    ZSTD_freeCCtx(c); ZSTD_freeCDict(cd); ZSTD_freeThreadPool(tp);
}

static void scen_decompress(const scen_t* s) {
    ZSTD_DCtx* d = ZSTD_createDCtx_advanced(va_mem());
    ZSTD_DDict* dd[9]; memset(dd, 0, sizeof dd); int ndd = 0;
    static u8 fdict[4096]; static size_t fdictLen; static u8 expect[3000];
    if (!d) goto end;
    /* frame compressed with the dictionary when the scenario uses one (built with the default allocator) */
    memcpy(expect, g_src, 3000);
    if (s->dictMode) { ZSTD_CCtx* cc = ZSTD_createCCtx(); fdictLen = ZSTD_compress_usingDict(cc, fdict, sizeof fdict, expect, 3000, g_dict, 1500, 3); ZSTD_freeCCtx(cc); }
    int frames = s->twoFrames ? 2 : 1;
    for (int f = 0; f < frames; f++) {
        const u8* fr = s->dictMode ? fdict : (f == 0 ? g_frameSmall : g_frameBig); size_t flen = s->dictMode ? fdictLen : (f == 0 ? g_frameSmallLen : g_frameBigLen);
        size_t want = s->dictMode ? 3000 : (f == 0 ? 3000 : 40000);
        size_t r = 0; int healed = 0;
        for (int attempt = 0; attempt < 4; attempt++) {
            size_t e = 0;
            if (attempt) { ZSTD_DCtx_reset(d, ZSTD_reset_session_only); }
            if (s->multiDDict) e = ZSTD_DCtx_setParameter(d, ZSTD_d_refMultipleDDicts, ZSTD_rmd_refMultipleDDicts);
            if (!ZSTD_isError(e)) switch (s->dictMode) {
            case 1: e = ZSTD_DCtx_loadDictionary(d, g_dict, 1500); break;
            case 3: {
                int want_dd = s->multiDDict ? 9 : 1;
                while (ndd < want_dd) {   /* several dictionaries: only the raw-content one matters, the others grow the hash set */
                    dd[ndd] = ZSTD_createDDict_advanced(g_dict, 1500 - (size_t)ndd * 10, ZSTD_dlm_byCopy, ZSTD_dct_rawContent, va_mem());
                    if (!dd[ndd]) { e = (size_t)-ZSTD_error_memory_allocation; break; }
                    ndd++;
                }
                if (!ZSTD_isError(e)) for (int i = ndd - 1; i >= 0 && !ZSTD_isError(e); i--) e = ZSTD_DCtx_refDDict(d, dd[i]);
                break; }
            case 4: e = ZSTD_DCtx_refPrefix(d, g_dict, 1500); break;
            default: break;
            }
            /* after a refused allocation and a reset the context must be good for ANY job, not only for the one that failed: first a smaller,
             * different frame (one that needs none of what the failed call was growing), then the retry */
            if (attempt && !ZSTD_isError(e) && !s->dictMode) {
                size_t ir;
                if (!s->streaming) ir = ZSTD_decompressDCtx(d, g_out, sizeof g_out, g_frameSmall, g_frameSmallLen);
                else { ZSTD_inBuffer in = { g_frameSmall, g_frameSmallLen, 0 }; ZSTD_outBuffer out = { g_out, sizeof g_out, 0 }; ir = 1;
                    for (int i = 0; i < 10000 && ir != 0 && !ZSTD_isError(ir); i++) { ZSTD_inBuffer part = { g_frameSmall, in.pos + 50 > g_frameSmallLen ? g_frameSmallLen : in.pos + 50, in.pos }; ir = ZSTD_decompressStream(d, &out, &part); in.pos = part.pos; }
                    if (!ZSTD_isError(ir)) ir = out.pos; }
                if (ZSTD_isError(ir)) { if (healed) { vx_fail("%s: after a refused allocation and a reset, a small frame no longer decodes: %s", s->name, ZSTD_getErrorName(ir)); goto end; } }
                else if (ir != 3000 || memcmp(g_out, g_src, 3000)) { vx_fail("%s: after a refused allocation and a reset, a small frame decodes to wrong content", s->name); goto end; }
                ZSTD_DCtx_reset(d, ZSTD_reset_session_only);
            }
            if (ZSTD_isError(e)) r = e;
            else if (!s->streaming) r = ZSTD_decompressDCtx(d, g_out, sizeof g_out, fr, flen);
            else {
                ZSTD_inBuffer in = { fr, flen, 0 }; ZSTD_outBuffer out = { g_out, sizeof g_out, 0 }; r = 1;
                for (int i = 0; i < 10000 && r != 0 && !ZSTD_isError(r); i++) { ZSTD_inBuffer part = { fr, in.pos + 50 > flen ? flen : in.pos + 50, in.pos }; r = ZSTD_decompressStream(d, &out, &part); in.pos = part.pos; }
                if (!ZSTD_isError(r)) r = out.pos;
            }
            if (!ZSTD_isError(r)) break;
            if (!g_faulted) { vx_fail("%s: operation failed although no allocation was refused: %s", s->name, ZSTD_getErrorName(r)); goto end; }
            if (healed) { vx_fail("%s: after reset and with memory available the operation still fails: %s", s->name, ZSTD_getErrorName(r)); goto end; }
            if (attempt == 0) vx_stat_add("faults_reported_as_error", 1);
            if (attempt >= 1 || !(g_failAt2 && g_allocIdx < g_failAt2)) { va_heal(); healed = 1; }
        }
        if (ZSTD_isError(r)) { vx_fail("%s: retry did not succeed: %s", s->name, ZSTD_getErrorName(r)); goto end; }
        if (r != want || memcmp(g_out, g_src, want)) { vx_fail("%s: decoded content wrong %s an allocation failure", s->name, g_faulted ? "after" : "without"); goto end; }
        ZSTD_DCtx_reset(d, ZSTD_reset_session_and_parameters);
    }
end:
    ZSTD_freeDCtx(d); for (int i = 0; i < 9; i++) ZSTD_freeDDict(dd[i]);
}

static int g_jobsRun;
static void pool_job(void* a) { (void)a; g_jobsRun++; }
static void scen_pool(const scen_t* s) {
    POOL_ctx* p = POOL_create_advanced((size_t)s->workers, 1, va_mem());
    if (!p) { if (!g_faulted) vx_fail("POOL_create failed without fault"); return; }
    g_jobsRun = 0;
    POOL_add(p, pool_job, NULL);
    int r = POOL_resize(p, (size_t)s->workers2);
    if (r && !g_faulted) vx_fail("POOL_resize failed without fault");
    POOL_add(p, pool_job, NULL); POOL_add(p, pool_job, NULL);
    POOL_joinJobs(p);
    if (g_jobsRun != 3) vx_fail("pool: %d of 3 jobs ran around a failed resize", g_jobsRun);
    POOL_free(p);
}

static void run_scenario(int si, long k1, long k2, int explore) {
    const scen_t* s = &SC[si];
    va_reset(k1, k2);
    vs_config_t cfg; memset(&cfg, 0, sizeof cfg);
    cfg.pick = explore ? cb_pick : cb_pick0; cfg.fail = cb_fail; cfg.horizon = 400000;
    vs_begin(&cfg);
    if (s->kind == 0) scen_compress(s); else if (s->kind == 1) scen_decompress(s); else scen_pool(s);
    vs_end();
    if (vx_failed) return;
    if (g_badFree) vx_fail("%s: %ld pointer(s) given to the custom free that the custom allocator does not own (double free or foreign pointer)", s->name, g_badFree);
    else if (g_nlive) vx_fail("%s: %d allocation(s) (%ld bytes) from the custom allocator never freed", s->name, g_nlive, g_bytesLive);
}

static void init(void) {
    g_explore = (int)vx_opt_int("--explore", 0);
    fill_text(g_src, sizeof g_src, 21); fill_text(g_dict, sizeof g_dict, 22);
    memcpy(g_src + 2000, g_dict + 100, 600);     /* the dictionary matters for the content */
    g_frameSmallLen = ZSTD_compress(g_frameSmall, sizeof g_frameSmall, g_src, 3000, 1);
    {   ZSTD_CCtx* c = ZSTD_createCCtx(); ZSTD_CCtx_setParameter(c, ZSTD_c_windowLog, 15); ZSTD_CCtx_setParameter(c, ZSTD_c_contentSizeFlag, 0);
        ZSTD_inBuffer in = { g_src, 40000, 0 }; ZSTD_outBuffer out = { g_frameBig, sizeof g_frameBig, 0 };
        ZSTD_compressStream2(c, &out, &in, ZSTD_e_end); g_frameBigLen = out.pos; ZSTD_freeCCtx(c); }
    /* allocation counts per scenario: one fault-free run each (default schedule), in the parent before forking */
    for (int i = 0; i < NSC; i++) {
        vx_failed = 0; run_scenario(i, 0, 0, 0);
        if (vx_failed) { fprintf(stderr, "init: scenario %s fails without any fault: %s\n", SC[i].name, vx_failsig); }
        g_N[i] = g_allocIdx;
    }
    vx_failed = 0;
}

static void body(void) {
    int si = vx_choose(NSC);
    if (vx_opt_int("--mtonly", 0) && !(SC[si].kind == 0 && SC[si].workers)) { vx_obs_u64(7); return; }
    { const char* only = vx_opt("--scen", NULL); if (only && strcmp(only, SC[si].name)) { vx_obs_u64(8); return; } }      /* the schedule-exploring unit: multithreaded scenarios only */
    if (g_N[si] == 0) { vx_fail("%s: scenario makes no allocation through the custom allocator", SC[si].name); return; }
    long k1 = vx_choose((int)g_N[si] + 1);       /* 0 = no fault */
    long k2 = 0;
    int pairs = (int)vx_opt_int("--pairs", 0);
    if (pairs && k1 && g_N[si] <= 60) { int d = vx_choose((int)g_N[si] + 12); k2 = d ? k1 + d : 0; }
    vx_label("%s ;; allocs=%ld fail=%ld,%ld", SC[si].name, g_N[si], k1, k2);
    run_scenario(si, k1, k2, g_explore);
    vx_obs_u64((uint64_t)si * 1000003u + (uint64_t)k1 * 1009 + (uint64_t)k2); vx_obs_u64((uint64_t)g_faulted);
    if (g_faulted) vx_nontrivial();
    vx_stat_add("faults_injected", g_faulted); vx_stat_max("max_allocs_in_scenario", g_N[si]);
    if (vx_want_sample()) vx_sample("%s: %ld allocations, fail #%ld%s -> %ld refused, peak %ld bytes", SC[si].name, g_N[si], k1, k2 ? " and a second" : "", g_faulted, g_peak);
}

int main(int argc, char** argv) { return vx_main(argc, argv, init, body); }
