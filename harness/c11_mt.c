/* C11 (+ C07/C10 multithreaded parts): real ZSTD_compressStream2 with workers under the deterministic
 * scheduler.  Drivers are call scripts; every schedule inside the (P, D) bound is executed. */
#include "common.h"
#include "vsched.h"

#define SRCMAX (3u << 20)
static u8 *g_src, *g_dst, *g_out, *g_scratch, *g_dict;
static int g_driver, g_spurious, g_unlockpt;
static size_t g_jobsize;

/* shared across worker processes: first output hash seen per (driver config) — "one output per subject" (C07) */
static volatile uint64_t* g_first;

static int cb_pick(int n, int kind) { return vx_pick(n, kind == 2 ? VX_PREEMPT : VX_DEV); }
static void cb_fail(const char* what) { vx_fail("%s", what); vx_abort_exec(); }

static void init(void) {
    g_driver = (int)vx_opt_int("--driver", 1); g_spurious = (int)vx_opt_int("--spurious", 0); g_unlockpt = (int)vx_opt_int("--unlockpt", 0);
    g_jobsize = (size_t)vx_opt_int("--jobsize", 1024);
    g_src = (u8*)malloc(SRCMAX); g_dst = (u8*)malloc(ZSTD_compressBound(SRCMAX) + 64); g_out = (u8*)malloc(SRCMAX + 64); g_scratch = (u8*)malloc(SRCMAX + 64); g_dict = (u8*)malloc(4096);
    g_first = (volatile uint64_t*)mmap(NULL, 4096 * 8, PROT_READ | PROT_WRITE, MAP_SHARED | MAP_ANONYMOUS, -1, 0);
    fill_text(g_dict, 4096, 99);
}

typedef struct { size_t inEnd; size_t outCap; ZSTD_EndDirective dir; int setLevel; } step_t;

/* feed `steps`; returns bytes produced or (size_t)-1 after vx_fail.  C10 oracles (a)/(b) are judged on the way. */
static size_t run_script(ZSTD_CCtx* c, const u8* src, size_t n, const step_t* steps, int nsteps, u8* dst, size_t dstCap, int stopAfter, int* stoppedMidFrame) {
    size_t produced = 0, consumed = 0; int calls = 0;
    *stoppedMidFrame = 0;
    for (int s = 0; s < nsteps; s++) {
        if (steps[s].setLevel) { size_t e = ZSTD_CCtx_setParameter(c, ZSTD_c_compressionLevel, steps[s].setLevel); if (ZSTD_isError(e)) { vx_fail("mid-frame level change refused: %s", ZSTD_getErrorName(e)); return (size_t)-1; } }
        ZSTD_inBuffer in = { src, steps[s].inEnd > n ? n : steps[s].inEnd, consumed };
        for (int guard = 0; ; guard++) {
            if (stopAfter >= 0 && calls >= stopAfter) { *stoppedMidFrame = 1; return produced; }
            if (guard > 100000) { vx_fail("driver %d: no completion after 100000 calls", g_driver); return (size_t)-1; }
            size_t cap = steps[s].outCap; if (cap > dstCap - produced) cap = dstCap - produced;
            ZSTD_outBuffer out = { dst + produced, cap, 0 };
            size_t inBefore = in.pos;
            size_t r = ZSTD_compressStream2(c, &out, &in, steps[s].dir); calls++;
            if (ZSTD_isError(r)) { vx_fail("driver %d: compressStream2 error: %s", g_driver, ZSTD_getErrorName(r)); return (size_t)-1; }
            if (in.pos < inBefore || in.pos > in.size || out.pos > out.size) { vx_fail("driver %d: positions out of range", g_driver); return (size_t)-1; }
            /* C10(a): given consumable input and writable output the call progresses or completes */
            if (inBefore < in.size && cap > 0 && in.pos == inBefore && out.pos == 0 && !(steps[s].dir != ZSTD_e_continue && r == 0)) { vx_fail("driver %d: call with input and output space made no progress", g_driver); return (size_t)-1; }
            produced += out.pos; consumed = in.pos;
            if (steps[s].dir == ZSTD_e_continue) { if (in.pos == in.size) break; }
            else if (r == 0) {
                if (in.pos != in.size) { vx_fail("driver %d: flush/end reported completion with unconsumed input", g_driver); return (size_t)-1; }
                if (steps[s].dir == ZSTD_e_flush) {
                    /* C10(b): everything consumed so far must be decodable from what was output so far */
                    ZSTD_DCtx* d = ZSTD_createDCtx(); ZSTD_inBuffer di = { dst, produced, 0 }; ZSTD_outBuffer dout = { g_out, SRCMAX, 0 };
                    size_t dr = 1; int it = 0;
                    while (di.pos < di.size && !ZSTD_isError(dr) && it++ < 1000) dr = ZSTD_decompressStream(d, &dout, &di);
                    ZSTD_freeDCtx(d);
                    if (ZSTD_isError(dr)) { vx_fail("driver %d: bytes output at a completed flush do not decode: %s", g_driver, ZSTD_getErrorName(dr)); return (size_t)-1; }
                    if (dout.pos != consumed || memcmp(g_out, src, consumed)) { vx_fail("driver %d: completed flush: %zu bytes consumed but %zu decodable", g_driver, consumed, dout.pos); return (size_t)-1; }
                    vx_stat_add("flush_points_checked", 1);
                }
                break;
            }
        }
    }
    return produced;
}

/* driver 18 (C09 with workers): a pledged source size, right or wrong, on a multithreaded context.  "When the caller pledged a source size,
 * compression succeeds only if exactly that many bytes were supplied": a wrong pledge must surface as an error by the end of the frame
 * (whichever job the frame header was written by), a right one must give a frame whose header states it; the context is usable afterwards. */
static void body_pledge(void) {
    static const long long DL[] = {0, -1, 1, -700, 1ll << 32};
    int workers = 1 + vx_choose(2), dk = vx_choose(6), script = vx_choose(3), big = vx_choose(2);
    size_t n = big ? 3 * g_jobsize + 100 : 700;                       /* several jobs / a single job */
    long long pledge = dk == 5 ? 0 : (long long)n + DL[dk];
    vx_label("driver=18 workers=%d n=%zu pledge=%lld script=%d", workers, n, pledge, script);
    fill_text(g_src, n, 23);
    vs_config_t cfg; memset(&cfg, 0, sizeof cfg); cfg.pick = cb_pick; cfg.fail = cb_fail; cfg.horizon = 400000;
    vs_begin(&cfg);
    ZSTD_CCtx* c = ZSTD_createCCtx();
    ZSTD_CCtx_setParameter(c, ZSTD_c_nbWorkers, workers); ZSTD_CCtx_setParameter(c, ZSTD_c_jobSize, (int)g_jobsize); ZSTD_CCtx_setParameter(c, ZSTD_c_windowLog, 10);
    size_t e = ZSTD_CCtx_setPledgedSrcSize(c, (unsigned long long)pledge); int err = 0, done = 0; size_t produced = 0; const char* ename = "";
    if (ZSTD_isError(e)) { vx_fail("driver 18: setPledgedSrcSize refused: %s", ZSTD_getErrorName(e)); }
    else {
        /* scripts: 0 = half with continue, rest with end; 1 = everything with continue, then an empty end; 2 = a third with flush and 9 bytes of room, rest with end */
        size_t cut = script == 0 ? n / 2 : script == 1 ? n : n / 3; ZSTD_EndDirective d0 = script == 2 ? ZSTD_e_flush : ZSTD_e_continue; size_t cap = script == 2 ? 9 : (1u << 20);
        ZSTD_inBuffer in = { g_src, cut, 0 };
        for (int phase = 0; phase < 2 && !err; phase++) {
            ZSTD_EndDirective dir = phase ? ZSTD_e_end : d0; if (phase) in.size = n;
            for (long guard = 0; ; guard++) {
                if (guard > 100000) { vx_fail("driver 18: no completion after 100000 calls"); err = 2; break; }
                ZSTD_outBuffer o = { g_dst + produced, cap, 0 };
                size_t r = ZSTD_compressStream2(c, &o, &in, dir); produced += o.pos;
                if (ZSTD_isError(r)) { err = 1; ename = ZSTD_getErrorName(r); break; }
                if (dir == ZSTD_e_continue ? in.pos == in.size : r == 0) { if (phase) done = 1; break; }
            }
        }
    }
    /* the context must be usable for an ordinary frame afterwards */
    size_t r2 = 0;
    if (err != 2 && !vx_failed) { ZSTD_CCtx_reset(c, ZSTD_reset_session_only); r2 = ZSTD_compress2(c, g_scratch, ZSTD_compressBound(n), g_src, n); }
    ZSTD_freeCCtx(c);
    long sw = vs_counter(4), pts = vs_steps();
    vs_end();
    if (vx_failed || err == 2) return;
    if (pledge != (long long)n) {
        if (done) { vx_fail("driver 18: frame completed with %zu bytes although %lld were pledged (%d workers, header states %llu)", n, pledge, workers, (unsigned long long)ZSTD_getFrameContentSize(g_dst, produced)); return; }
        vx_stat_add("wrong_pledges_refused", 1);
    } else {
        if (!done) { vx_fail("driver 18: correct pledge refused: %s", ename); return; }
        if (ZSTD_getFrameContentSize(g_dst, produced) != n) { vx_fail("driver 18: header states %llu for %zu pledged and supplied bytes", (unsigned long long)ZSTD_getFrameContentSize(g_dst, produced), n); return; }
        size_t r = ZSTD_decompress(g_out, n + 32, g_dst, produced);
        if (ZSTD_isError(r) || r != n || memcmp(g_out, g_src, n)) { vx_fail("driver 18: frame with a correct pledge does not decode to the input"); return; }
    }
    if (ZSTD_isError(r2)) { vx_fail("driver 18: context unusable after the pledged frame: %s", ZSTD_getErrorName(r2)); return; }
    { size_t r = ZSTD_decompress(g_out, n + 32, g_scratch, r2); if (ZSTD_isError(r) || r != n || memcmp(g_out, g_src, n)) { vx_fail("driver 18: frame after the pledged frame does not decode to the input"); return; } }
    vx_obs_u64((uint64_t)(done * 2 + err)); vx_obs_u64((uint64_t)pledge); vx_obs_u64((uint64_t)sw);
    if (sw > 4) vx_nontrivial();
    vx_stat_add("sched_points", pts);
    if (vx_want_sample()) vx_sample("driver=18 workers=%d n=%zu pledge=%lld script=%d: %s | %ld sched points", workers, n, pledge, script, done ? "completed" : ename, pts);
}

static void body(void) {
    if (g_driver == 18) { body_pledge(); return; }
    /* ---- driver configuration (free choices, made before any thread exists) ---- */
    int workers = 1, ldm = 0, checksum = 0, overlap = 0, dictMode = 0, level = 1, nsteps = 0, abortAt = -1, abortKind = 0, rsync = 0, workers2 = 0;
    size_t n = 0, jobsize = g_jobsize; int explicitWlog = 1, pairIdx = 0; step_t st[16]; memset(st, 0, sizeof st);
    char desc[200];
    switch (g_driver) {
    case 1: workers = 1 + vx_choose(2); n = 3 * g_jobsize + 100; st[0] = (step_t){ n, 1u << 20, ZSTD_e_end, 0 }; nsteps = 1; break;
    case 2: workers = 1 + vx_choose(2); n = 3 * g_jobsize + 333;
        st[0] = (step_t){ 700, 7, ZSTD_e_continue, 0 }; st[1] = (step_t){ 1500, 7, ZSTD_e_flush, 0 }; st[2] = (step_t){ n - 10, 7, ZSTD_e_continue, 0 }; st[3] = (step_t){ n, 7, ZSTD_e_end, 0 }; nsteps = 4; break;
    case 3: workers = 1 + vx_choose(2); ldm = 1; checksum = 1; n = 6 * g_jobsize + 50; st[0] = (step_t){ n / 2, 1u << 20, ZSTD_e_continue, 0 }; st[1] = (step_t){ n, 1u << 20, ZSTD_e_end, 0 }; nsteps = 2; break;
    case 4: workers = 2; { static const int ov[] = {0, 1, 9}; overlap = ov[vx_choose(3)]; } dictMode = vx_choose(3); n = 3 * g_jobsize + 7; st[0] = (step_t){ n, 1u << 20, ZSTD_e_end, 0 }; nsteps = 1; break;
    case 5: workers = 1 + vx_choose(2); n = 4 * g_jobsize; st[0] = (step_t){ g_jobsize + 10, 1u << 20, ZSTD_e_continue, 0 }; st[1] = (step_t){ 2 * g_jobsize + 20, 1u << 20, ZSTD_e_continue, 7 }; st[2] = (step_t){ n, 1u << 20, ZSTD_e_end, 1 }; nsteps = 3; break;
    case 6: workers = 1 + vx_choose(2); n = 4 * g_jobsize + 5;
        st[0] = (step_t){ g_jobsize + 1, 16, ZSTD_e_continue, 0 }; st[1] = (step_t){ 2 * g_jobsize + 100, 16, ZSTD_e_continue, 0 }; st[2] = (step_t){ 3 * g_jobsize + 300, 16, ZSTD_e_flush, 0 }; st[3] = (step_t){ n, 16, ZSTD_e_end, 0 }; nsteps = 4;
        abortAt = vx_choose(10); abortKind = vx_choose(2); break;
    case 10: workers = 1 + vx_choose(2); workers2 = workers + 1; n = 4 * g_jobsize + 5;      /* abandon a frame, then a frame with MORE workers (pools are re-allocated) */
        st[0] = (step_t){ g_jobsize + 1, 16, ZSTD_e_continue, 0 }; st[1] = (step_t){ 2 * g_jobsize + 100, 16, ZSTD_e_continue, 0 }; st[2] = (step_t){ 3 * g_jobsize + 300, 16, ZSTD_e_flush, 0 }; st[3] = (step_t){ n, 16, ZSTD_e_end, 0 }; nsteps = 4;
        abortAt = vx_choose(8); abortKind = 0; break;
    case 12: workers = 1 + vx_choose(2); { int extra = vx_choose(3); n = 2 * g_jobsize + 700 + (size_t)extra;          /* flush that carries new input while every worker is busy, ample output */
        st[0] = (step_t){ g_jobsize * (size_t)workers, 1u << 20, ZSTD_e_continue, 0 }; st[1] = (step_t){ g_jobsize * (size_t)workers + (extra == 0 ? 1 : extra == 1 ? 300 : g_jobsize - 1), 1u << 20, ZSTD_e_flush, 0 };
        st[2] = (step_t){ n + (size_t)(workers - 1) * g_jobsize, 1u << 20, ZSTD_e_end, 0 }; n += (size_t)(workers - 1) * g_jobsize; nsteps = 3; } break;
    case 8: workers = 1 + vx_choose(2); rsync = 1; checksum = 1; n = g_jobsize * 2 + g_jobsize / 3; st[0] = (step_t){ n, 1u << 22, ZSTD_e_end, 0 }; nsteps = 1; break;
    case 9: workers = 3; workers2 = 1 + vx_choose(2); n = 3 * g_jobsize + 11; st[0] = (step_t){ n, 1u << 20, ZSTD_e_end, 0 }; nsteps = 1; break;
    case 14: {   /* round input buffer re-use: overlap as large as the window (= one job), a half-size first job cut by a flush, then one job's worth of input
                  * per call: after the buffer wraps, new input lands next to (and with a defect: on) the prefix an unfinished job still reads */
        workers = 1 + vx_choose(2); overlap = 9; { int half = vx_choose(3); size_t h = half == 0 ? g_jobsize / 2 : half == 1 ? g_jobsize / 4 : g_jobsize - 1;
        st[0] = (step_t){ h, 1u << 20, ZSTD_e_flush, 0 }; for (int k = 1; k <= 6; k++) st[k] = (step_t){ h + (size_t)k * g_jobsize, 1u << 20, ZSTD_e_continue, 0 };
        n = h + 6 * g_jobsize + 100; st[7] = (step_t){ n, 1u << 20, ZSTD_e_end, 0 }; nsteps = 8; checksum = 1; } break; }
    case 17: {   /* slow consumer: 12 jobs of input offered while only one byte of output room is given per call, so the job table fills up completely; then end with ample room */
        workers = 1 + vx_choose(2); n = 12 * g_jobsize + 77; checksum = 1;
        st[0] = (step_t){ 6 * g_jobsize, 1, ZSTD_e_continue, 0 }; st[1] = (step_t){ n, 1, ZSTD_e_continue, 0 }; st[2] = (step_t){ n, 1u << 20, ZSTD_e_end, 0 }; nsteps = 3; break; }
    case 16: {   /* long-distance matching with 3-4 workers and 16 jobs fed two at a time: the caller runs several sections ahead of a delayed job's serial step while the round buffer wraps */
        workers = 3 + vx_choose(2); ldm = 1; checksum = 1; n = 24 * g_jobsize + 50;      /* window 4 KiB: the round buffer (window + slack) wraps every ~7 jobs */
        for (int k = 0; k < 12; k++) st[k] = (step_t){ (size_t)(k + 1) * 2 * g_jobsize, 1u << 20, ZSTD_e_continue, 0 };
        st[12] = (step_t){ n, 1u << 20, ZSTD_e_end, 0 }; nsteps = 13; break; }
    case 15: {   /* rsyncable with real synchronisation points (jobs of 256 KiB, 2.5 MiB of input): end / flush directives that carry payload, or arrive empty */
        int pat = vx_choose(4); workers = 1 + vx_choose(2); rsync = 1; checksum = 1; explicitWlog = 0; jobsize = 256u << 10; level = 1; n = (5u << 19) + 777;
        if (pat == 0) { st[0] = (step_t){ n, 1u << 22, ZSTD_e_end, 0 }; nsteps = 1; }
        else if (pat == 1) { st[0] = (step_t){ n / 2, 1u << 22, ZSTD_e_continue, 0 }; st[1] = (step_t){ n, 1u << 22, ZSTD_e_end, 0 }; nsteps = 2; }
        else if (pat == 2) { st[0] = (step_t){ n, 1u << 22, ZSTD_e_continue, 0 }; st[1] = (step_t){ n, 1u << 22, ZSTD_e_end, 0 }; nsteps = 2; }
        else { st[0] = (step_t){ n / 3, 65536, ZSTD_e_continue, 0 }; st[1] = (step_t){ 2 * n / 3, 65536, ZSTD_e_flush, 0 }; st[2] = (step_t){ n, 65536, ZSTD_e_end, 0 }; nsteps = 3; }
        pairIdx = pat; break; }
    case 13: {   /* parameters changed between jobs with NO explicit window: the window announced by job 0 must bound every later job.  Jobs of 1 MiB so
                  * that a repeat further back than the first level's window still lies inside one job; one default schedule per configuration. */
        static const int LV[][2] = {{1, 7}, {1, 3}, {3, 1}, {7, 1}, {1, 13}, {-1, 6}}; int pi = vx_choose(6); pairIdx = pi; workers = 1 + vx_choose(2); level = LV[pi][0]; explicitWlog = 0; jobsize = 1u << 20;
        n = (5u << 19) + 4321; st[0] = (step_t){ jobsize + 10, 1u << 22, ZSTD_e_continue, 0 }; st[1] = (step_t){ n, 1u << 22, ZSTD_e_end, LV[pi][1] }; nsteps = 2; overlap = 0; break; }
    default: return;
    }
    snprintf(desc, sizeof desc, "driver=%d workers=%d ldm=%d ck=%d overlap=%d dict=%d abortAt=%d/%d workers2=%d n=%zu", g_driver, workers, ldm, checksum, overlap, dictMode, abortAt, abortKind, workers2, n);
    vx_label("%s", desc);
    /* input: text with a planted long repeat so that LDM and the overlap window have something to find */
    fill_text(g_src, n, 5 + (uint32_t)g_driver);
    if (n > 5 * g_jobsize) memcpy(g_src + 4 * g_jobsize + 77, g_src + 100, g_jobsize / 2);
    if (g_driver == 16) for (int k = 5; k < 24; k++) memcpy(g_src + (size_t)k * g_jobsize + 33, g_src + (size_t)(k - 4) * g_jobsize + 33, g_jobsize / 2);      /* every job repeats what four jobs earlier held */
    if (g_driver == 8) fill_noise(g_src + n / 3, n / 3, 4);
    if (g_driver == 15) { for (size_t q = 40000; q + 30000 < n; q += 170000) fill_noise(g_src + q, 30000, (uint32_t)q); }
    if (g_driver == 13) { fill_noise(g_src, n, 3); for (size_t q = (1u << 20) + 750000; q + 4000 < n; q += 90000) memcpy(g_src + q, g_src + q - 700000, 3000); }     /* only the planted repeats (distance 700 000 > 2^19) can match */

    vs_config_t cfg; memset(&cfg, 0, sizeof cfg);
    cfg.pick = cb_pick; cfg.fail = cb_fail; cfg.horizon = 400000; cfg.spurious = g_spurious; cfg.unlock_is_point = g_unlockpt;
    vs_begin(&cfg);
    ZSTD_CCtx* c = ZSTD_createCCtx(); ZSTD_CDict* cd = NULL;
    size_t produced = 0; int mid = 0; int frames = 1;
    for (int frame = 0; frame < frames; frame++) {
        ZSTD_CCtx_setParameter(c, ZSTD_c_nbWorkers, (frame == 1 && workers2) ? workers2 : workers);
        ZSTD_CCtx_setParameter(c, ZSTD_c_jobSize, (int)jobsize);
        ZSTD_CCtx_setParameter(c, ZSTD_c_compressionLevel, level);
        if (explicitWlog) ZSTD_CCtx_setParameter(c, ZSTD_c_windowLog, g_driver == 8 ? 17 : g_driver == 16 ? 12 : (ldm ? 14 : 10));
        ZSTD_CCtx_setParameter(c, ZSTD_c_checksumFlag, checksum);
        if (overlap) ZSTD_CCtx_setParameter(c, ZSTD_c_overlapLog, overlap);
        if (rsync) ZSTD_CCtx_setParameter(c, ZSTD_c_rsyncable, 1);
        if (ldm) { ZSTD_CCtx_setParameter(c, ZSTD_c_enableLongDistanceMatching, ZSTD_ps_enable); ZSTD_CCtx_setParameter(c, ZSTD_c_ldmHashLog, 8); ZSTD_CCtx_setParameter(c, ZSTD_c_ldmMinMatch, 32); ZSTD_CCtx_setParameter(c, ZSTD_c_ldmHashRateLog, 2); }
        if (dictMode == 1) ZSTD_CCtx_refPrefix(c, g_dict, 1500);
        if (dictMode == 2) { if (!cd) cd = ZSTD_createCDict(g_dict, 1500, level); ZSTD_CCtx_refCDict(c, cd); }
        int stop = ((g_driver == 6 || g_driver == 10) && frame == 0) ? abortAt : -1;
        produced = run_script(c, g_src, n, st, nsteps, g_dst, ZSTD_compressBound(n) + 64, stop, &mid);
        if (produced == (size_t)-1) break;
        if ((g_driver == 6 || g_driver == 10) && frame == 0 && mid) {
            /* abandon the frame in whatever protocol state the schedule left it, then reuse (or replace) the context */
            if (abortKind == 0) { size_t e = ZSTD_CCtx_reset(c, ZSTD_reset_session_only); if (ZSTD_isError(e)) { vx_fail("session reset failed: %s", ZSTD_getErrorName(e)); produced = (size_t)-1; break; } }
            else { ZSTD_freeCCtx(c); c = ZSTD_createCCtx(); }
            frames = 2; vx_stat_add("aborted_mid_frame", 1);
        }
        if (g_driver == 9 && frame == 0) frames = 2;
    }
    ZSTD_freeCCtx(c); ZSTD_freeCDict(cd);
    long waits = vs_counter(1), sw = vs_counter(4), pts = vs_steps(); int nth = vs_nthreads();
    vs_end();
    if (produced == (size_t)-1 || vx_failed) return;

    /* ---- oracles on the complete frame ---- */
    const void* dict = dictMode ? g_dict : NULL; size_t dictLen = dictMode ? 1500 : 0;
    size_t r;
    { ZSTD_DCtx* d = ZSTD_createDCtx(); r = ZSTD_decompress_usingDict(d, g_out, n + 32, g_dst, produced, dict, dictLen); ZSTD_freeDCtx(d); }
    if (ZSTD_isError(r)) { vx_fail("driver %d: frame does not decode: %s", g_driver, ZSTD_getErrorName(r)); return; }
    if (r != n || memcmp(g_out, g_src, n)) { vx_fail("driver %d: frame decodes to different content", g_driver); return; }
    refcheck_t rc; rc_init(&rc); rc.interop = 1; rc.expectChecksum = checksum; rc.expectFCS = (nsteps == 1) ? 1 : 0;
    if (ref_check(&rc, g_dst, produced, dict, dictLen, g_src, n, g_scratch, SRCMAX)) { vx_fail("driver %d: conformance: %s", g_driver, rc.err); return; }
    if (ldm && g_driver == 3 && rc.maxOffset < 3 * g_jobsize) { vx_fail("driver %d: long-distance matching enabled but the planted %zu-byte repeat at distance %zu was not used (max offset %zu)", g_driver, g_jobsize / 2, 4 * g_jobsize - 23, rc.maxOffset); return; }
    /* C07: one output per subject, whatever the schedule and the number of workers */
    uint64_t h = vx_hash(g_dst, produced) | 1;
    int slot = (g_driver * 64 + overlap * 5 + dictMode * 16 + (abortAt >= 0 ? 0 : 0)) & 4095;
    if (g_driver == 6 || g_driver == 9 || g_driver == 10) slot = (g_driver * 64) & 4095;
    if (g_driver == 13) slot = (13 * 64 + pairIdx) & 4095;
    if (g_driver == 14) slot = (14 * 64 + (int)(n % 61)) & 4095;
    if (g_driver == 16) slot = (16 * 64) & 4095;
    if (g_driver == 17) slot = (17 * 64) & 4095;
    if (g_driver == 15) slot = (15 * 64 + pairIdx) & 4095;
    if (g_driver == 12) slot = (12 * 64 + (int)(n % 61)) & 4095;                /* D12's input and call boundaries depend on its choices: one subject per (n) */   /* second frame is the same subject for every abort point / worker change */
    uint64_t prev = __sync_val_compare_and_swap(&g_first[slot], 0, h);
    if (prev != 0 && prev != h) { vx_fail("differential: driver %d: output differs between schedules / worker counts for the same input and parameters", g_driver); return; }
    vx_obs_u64(h); vx_obs_u64((uint64_t)sw);
    if (sw > 4) vx_nontrivial();
    vx_stat_add("blocking_waits", waits); vx_stat_add("sched_points", pts); vx_stat_max("max_threads", nth); vx_stat_max("max_points_per_exec", pts);
    if (vx_want_sample()) vx_sample("%s | %ld sched points, %ld switches, %ld blocking waits, %zu bytes out", desc, pts, sw, waits, produced);
}

int main(int argc, char** argv) { return vx_main(argc, argv, init, body); }
