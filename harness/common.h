/* Shared pieces of the property harnesses: own XXH64, reference-decoder wrapper with the C05
 * conformance rules, input-shape grammar, parameter vectors. */
#ifndef VF_COMMON_H
#define VF_COMMON_H
#include "vx.h"
#include "edu_decoder.h"
#define ZSTD_STATIC_LINKING_ONLY
#include "zstd.h"
#include "zstd_errors.h"

typedef unsigned char u8;

/* ------------------------------------------------------------------ XXH64, written from the xxHash spec */
static uint64_t vf_rotl(uint64_t x, int r) { return (x << r) | (x >> (64 - r)); }
static uint64_t vf_rd64(const u8* p) { uint64_t v = 0; for (int i = 7; i >= 0; i--) v = (v << 8) | p[i]; return v; }
static uint32_t vf_rd32(const u8* p) { return (uint32_t)p[0] | ((uint32_t)p[1] << 8) | ((uint32_t)p[2] << 16) | ((uint32_t)p[3] << 24); }
#define VF_P1 11400714785074694791ULL
#define VF_P2 14029467366897019727ULL
#define VF_P3 1609587929392839161ULL
#define VF_P4 9650029242287828579ULL
#define VF_P5 2870177450012600261ULL
static uint64_t vf_round(uint64_t acc, uint64_t in) { acc += in * VF_P2; acc = vf_rotl(acc, 31); return acc * VF_P1; }
static uint64_t vf_merge(uint64_t acc, uint64_t v) { v = vf_round(0, v); acc ^= v; return acc * VF_P1 + VF_P4; }
static uint64_t vf_xxh64(const void* data, size_t len, uint64_t seed) {
    const u8* p = (const u8*)data; const u8* end = p + len; uint64_t h;
    if (len >= 32) {
        uint64_t v1 = seed + VF_P1 + VF_P2, v2 = seed + VF_P2, v3 = seed, v4 = seed - VF_P1;
        do { v1 = vf_round(v1, vf_rd64(p)); v2 = vf_round(v2, vf_rd64(p + 8)); v3 = vf_round(v3, vf_rd64(p + 16)); v4 = vf_round(v4, vf_rd64(p + 24)); p += 32; } while (p + 32 <= end);
        h = vf_rotl(v1, 1) + vf_rotl(v2, 7) + vf_rotl(v3, 12) + vf_rotl(v4, 18);
        h = vf_merge(h, v1); h = vf_merge(h, v2); h = vf_merge(h, v3); h = vf_merge(h, v4);
    } else h = seed + VF_P5;
    h += (uint64_t)len;
    while (p + 8 <= end) { h ^= vf_round(0, vf_rd64(p)); h = vf_rotl(h, 27) * VF_P1 + VF_P4; p += 8; }
    if (p + 4 <= end) { h ^= (uint64_t)vf_rd32(p) * VF_P1; h = vf_rotl(h, 23) * VF_P2 + VF_P3; p += 4; }
    while (p < end) { h ^= (*p) * VF_P5; h = vf_rotl(h, 11) * VF_P1; p++; }
    h ^= h >> 33; h *= VF_P2; h ^= h >> 29; h *= VF_P3; h ^= h >> 32;
    return h;
}

/* ------------------------------------------------------------------ reference decode + conformance (C05 oracle) */
typedef struct {
    /* expectations supplied by the caller; -1 / 0 = not judged */
    size_t maxBlockSize;        /* ZSTD_c_maxBlockSize in force (0: only the format's limit) */
    long   expectDictID;        /* -1: not judged; else the value the frame must carry (0 = must be absent) */
    int    expectChecksum;      /* -1 not judged, 0 must be absent, 1 must be present */
    int    expectFCS;           /* -1 not judged, 0 must be absent, 1 must be present */
    int    magicless;
    int    interop;             /* judge the conservative interoperability rules (compressor output only) */
    /* results */
    char   err[200];
    size_t nframes, nblocks, nseq, nrep, maxOffset, windowSize, regenerated, consumed;
    unsigned blockTypes;        /* bit t set when a block of type t was seen */
    unsigned litTypes, seqModes;
    int    sawDictRef;          /* a match reached into the dictionary */
    /* running */
    size_t frameOut, blockIdx, fcs; int hasFCS, singleSeg, checksumFlag; unsigned dictID; unsigned storedChecksum; int haveStored;
    int    firstBlockRLE; size_t lastFseTableRemaining; int sawFseTable; size_t nbSeqThisBlock; int nbSeqTwoByteZero;
    size_t dictLen;
} refcheck_t;

static void rc_fail(refcheck_t* c, const char* fmt, ...) {
    if (c->err[0]) return;
    va_list ap; va_start(ap, fmt); vsnprintf(c->err, sizeof c->err, fmt, ap); va_end(ap);
}
static void rc_header(void* o, size_t W, size_t fcs, unsigned dictID, int ck, int ss, int desc) {
    refcheck_t* c = (refcheck_t*)o;
    c->windowSize = W; c->fcs = fcs; c->dictID = dictID; c->checksumFlag = ck; c->singleSeg = ss;
    c->hasFCS = ss || (desc >> 6);
    c->frameOut = 0; c->blockIdx = 0; c->firstBlockRLE = 0; c->haveStored = 0;
    if (c->interop && (desc & 0x10)) rc_fail(c, "header: unused bit set");
    if (c->expectChecksum >= 0 && ck != c->expectChecksum) rc_fail(c, "header: checksum flag %d, expected %d", ck, c->expectChecksum);
    if (c->expectFCS >= 0 && c->hasFCS != c->expectFCS) rc_fail(c, "header: content size presence %d, expected %d", c->hasFCS, c->expectFCS);
    if (c->expectDictID >= 0 && (long)dictID != c->expectDictID) rc_fail(c, "header: dictID %u, expected %ld", dictID, c->expectDictID);
}
static void rc_block(void* o, int type, size_t field, size_t regen, int last) {
    refcheck_t* c = (refcheck_t*)o;
    size_t lim = 128 * 1024; if (c->windowSize < lim) lim = c->windowSize;
    /* the format's Block_Maximum_Size is min(Window_Size, 128 KiB); single-segment frames have Window_Size = content size */
    if (regen > lim && !(c->singleSeg && regen <= 128 * 1024 && c->windowSize == 0)) rc_fail(c, "block %zu: regenerated %zu > Block_Maximum_Size %zu", c->blockIdx, regen, lim);
    if (c->maxBlockSize && regen > c->maxBlockSize) rc_fail(c, "block %zu: regenerated %zu > maxBlockSize %zu", c->blockIdx, regen, c->maxBlockSize);
    if (type == 2 && field > lim) rc_fail(c, "block %zu: compressed size %zu > Block_Maximum_Size", c->blockIdx, field);
    if (c->interop) {
        if (type == 2 && field >= regen) rc_fail(c, "block %zu: compressed block (%zu) not smaller than its content (%zu)", c->blockIdx, field, regen);
        if (c->blockIdx == 0 && type == 1 && !last) rc_fail(c, "first block is RLE and is followed by more blocks");
        if (type == 2 && c->sawFseTable && c->lastFseTableRemaining < 4) rc_fail(c, "block %zu: last FSE table + bitstream tail is %zu < 4 bytes", c->blockIdx, c->lastFseTableRemaining);
        if (type == 2 && c->nbSeqTwoByteZero) rc_fail(c, "block %zu: zero sequences in 2-byte form", c->blockIdx);
    }
    c->blockTypes |= 1u << type;
    c->frameOut += regen; c->blockIdx++; c->nblocks++; c->sawFseTable = 0; c->nbSeqTwoByteZero = 0;
}
static void rc_checksum(void* o, unsigned stored) { refcheck_t* c = (refcheck_t*)o; c->storedChecksum = stored; c->haveStored = 1; }
static void rc_seq(void* o, size_t ll, size_t ml, size_t off, unsigned offVal, size_t pos, size_t W, size_t dictLen) {
    refcheck_t* c = (refcheck_t*)o; (void)ll;
    c->nseq++; if (offVal <= 3) c->nrep++;
    if (off > c->maxOffset) c->maxOffset = off;
    if (off == 0) rc_fail(c, "sequence with offset 0 at position %zu", pos);
    if (ml < 3) rc_fail(c, "sequence with match length %zu < 3 at position %zu", ml, pos);
    if (pos <= W) { if (off > pos + dictLen) rc_fail(c, "offset %zu beyond history %zu+dict %zu", off, pos, dictLen); if (off > pos) c->sawDictRef = 1; }
    else if (off > W) rc_fail(c, "offset %zu beyond window %zu at position %zu", off, W, pos);
}
static void rc_lit(void* o, int type, int sf) { refcheck_t* c = (refcheck_t*)o; (void)sf; c->litTypes |= 1u << type; }
static void rc_nbseq(void* o, size_t n, size_t rem) { refcheck_t* c = (refcheck_t*)o; (void)rem; c->nbSeqThisBlock = n; }
static void rc_seqtable(void* o, int part, int mode, size_t desc, size_t remAtStart) {
    refcheck_t* c = (refcheck_t*)o; (void)desc;
    c->seqModes |= 1u << (part * 4 + mode);
    if (mode == 2) { c->sawFseTable = 1; c->lastFseTableRemaining = remAtStart; }
}

static void rc_init(refcheck_t* c) { memset(c, 0, sizeof *c); c->expectDictID = -1; c->expectChecksum = -1; c->expectFCS = -1; }

/* Decode a concatenation of frames (zstd + skippable) with R.  Returns decoded length or (size_t)-1 with c->err set. */
static size_t ref_decode(refcheck_t* c, const void* src, size_t srcLen, const void* dict, size_t dictLen, u8* dst, size_t cap) {
    const u8* ip = (const u8*)src; size_t left = srcLen, total = 0;
    static u8 tmp[18];
    dictionary_t* volatile pd = NULL;
    c->dictLen = dictLen; c->consumed = 0;
    r_hooks.opaque = c; r_hooks.header = rc_header; r_hooks.block = rc_block; r_hooks.checksum = rc_checksum; r_hooks.seq = rc_seq;
    r_hooks.lit = rc_lit; r_hooks.nbseq = rc_nbseq; r_hooks.seqtable = rc_seqtable;
    if (setjmp(r_jmp)) { rc_fail(c, "R: %s", r_errmsg); if (pd) R_free_dictionary(pd); return (size_t)-1; }
    pd = R_create_dictionary();
    if (dict && dictLen >= 8) R_parse_dictionary(pd, dict, dictLen);
    while (left > 0) {
        if (!c->magicless && left >= 8 && (vf_rd32(ip) & 0xFFFFFFF0u) == 0x184D2A50u) {
            size_t sz = vf_rd32(ip + 4);
            if (sz + 8 > left) { rc_fail(c, "skippable frame overruns input"); break; }
            ip += sz + 8; left -= sz + 8; c->nframes++; continue;
        }
        size_t got, used;
        if (c->magicless) {
            /* R needs the magic: decode header-less frames through a copy with the magic put back */
            u8* t = (u8*)malloc(left + 4); t[0] = 0x28; t[1] = 0xB5; t[2] = 0x2F; t[3] = 0xFD; memcpy(t + 4, ip, left);
            got = R_decompress_with_dict(dst + total, cap - total, t, left + 4, pd); used = r_consumed - 4; free(t);
        } else {
            got = R_decompress_with_dict(dst + total, cap - total, ip, left, pd); used = r_consumed;
        }
        (void)tmp;
        if (c->hasFCS && c->fcs != got) rc_fail(c, "frame content size field %zu but %zu bytes regenerated", c->fcs, got);
        if (c->checksumFlag) {
            unsigned want = (unsigned)(vf_xxh64(dst + total, got, 0) & 0xFFFFFFFFu);
            if (!c->haveStored || c->storedChecksum != want) rc_fail(c, "checksum field %08x, content hashes to %08x", c->storedChecksum, want);
        }
        total += got; ip += used; left -= used; c->nframes++;
    }
    R_free_dictionary(pd); pd = NULL;
    c->regenerated = total; c->consumed = srcLen - left;
    return c->err[0] ? (size_t)-1 : total;
}

/* full check of compressor output: R accepts, equals the source, header truthful, window/block/interop rules */
static int ref_check(refcheck_t* c, const void* frame, size_t flen, const void* dict, size_t dictLen, const void* expect, size_t elen, u8* scratch, size_t scratchCap) {
    size_t n = ref_decode(c, frame, flen, dict, dictLen, scratch, scratchCap);
    if (n == (size_t)-1) return 1;
    if (n != elen) { rc_fail(c, "R regenerates %zu bytes, source has %zu", n, elen); return 1; }
    if (elen && memcmp(scratch, expect, elen)) { size_t i = 0; while (scratch[i] == ((const u8*)expect)[i]) i++; rc_fail(c, "R output differs from source at byte %zu", i); return 1; }
    return 0;
}

/* ------------------------------------------------------------------ input shapes */
/* An input = fixed warm-up + a list of segments.  W = window size, B = block size of the configuration. */
enum { SEG_LIT = 0, SEG_REP = 1, SEG_PAD = 2 };
typedef struct { u8 kind, a, b; } seg_t;
static const int LIT_N[] = {1, 2, 3, 8, 40, 300};
enum { NLITN = 6, NLITCLASS = 4 };
static const int REP_LEN_SMALL[] = {3, 4, 5, 6, 7, 8, 18, 35, 130};
static const int REP_LEN_BIG[] = {3, 4, 5, 6, 7, 8, 18, 35, 130, 65538, 65539, 131075};
enum { NREPOFF = 17 };
/* offset classes: literal small, rep1..3, around 256, around W, around B */
static long rep_offset(int cls, size_t W, size_t B, const long rep[3]) {
    switch (cls) {
    case 0: return 1; case 1: return 2; case 2: return 3; case 3: return 4; case 4: return 8;
    case 5: return rep[0]; case 6: return rep[1]; case 7: return rep[2];
    case 8: return 255; case 9: return 256; case 10: return 257;
    case 11: return (long)W - 8; case 12: return (long)W - 1; case 13: return (long)W; case 14: return (long)W + 1;
    case 15: return (long)B - 1; default: return (long)B + 1;
    }
}
typedef struct { uint32_t lcg; long rep[3]; } shape_state_t;
static u8 shape_byte(shape_state_t* s, int cls) {
    s->lcg = s->lcg * 1103515245u + 12345u;
    unsigned r = (s->lcg >> 16) & 0x7fff;
    switch (cls) { case 0: return (u8)('a' + (r & 1)); case 1: return (u8)(r % 200 + 20); case 3: return (u8)(r % 11); default: return (u8)'z'; }   /* class 3: small alphabet of low byte values (short Huffman table descriptions) */
}
/* alphabet index -> segment; `big` adds the > 64 KiB lengths */
static int shape_alphabet_size(int big) { return NLITN * NLITCLASS + NREPOFF * (big ? 12 : 9) + 4; }
static seg_t shape_alphabet(int idx, int big) {
    seg_t s; int nl = NLITN * NLITCLASS, nr = NREPOFF * (big ? 12 : 9);
    if (idx < nl) { s.kind = SEG_LIT; s.a = (u8)(idx % NLITN); s.b = (u8)(idx / NLITN); }
    else if (idx < nl + nr) { idx -= nl; s.kind = SEG_REP; s.a = (u8)(idx % NREPOFF); s.b = (u8)(idx / NREPOFF); }
    else { s.kind = SEG_PAD; s.a = (u8)(idx - nl - nr); s.b = 0; }
    return s;
}
static size_t shape_render(const seg_t* segs, int nseg, size_t W, size_t B, size_t warm, u8* out, size_t cap, int big) {
    shape_state_t st; st.lcg = 12345; st.rep[0] = 1; st.rep[1] = 4; st.rep[2] = 8;
    size_t pos = 0;
    for (; pos < warm && pos < cap; pos++) out[pos] = shape_byte(&st, (pos / 16) & 1);   /* mixed-entropy warm-up */
    for (int i = 0; i < nseg; i++) {
        seg_t s = segs[i];
        if (s.kind == SEG_LIT) {
            int n = LIT_N[s.a]; for (int k = 0; k < n && pos < cap; k++) out[pos++] = shape_byte(&st, s.b);
        } else if (s.kind == SEG_REP) {
            long off = rep_offset(s.a, W, B, st.rep); int len = big ? REP_LEN_BIG[s.b] : REP_LEN_SMALL[s.b];
            if (off <= 0 || (size_t)off > pos) { for (int k = 0; k < 5 && pos < cap; k++) out[pos++] = shape_byte(&st, 1); continue; }
            for (int k = 0; k < len && pos < cap; k++) { out[pos] = out[pos - off]; pos++; }
            if (off != st.rep[0]) { st.rep[2] = st.rep[1]; st.rep[1] = st.rep[0]; st.rep[0] = off; }
        } else {
            /* pad with fresh literals up to a block edge minus delta */
            size_t target = ((pos / B) + 1) * B - s.a;
            if (target <= pos) target += B;
            while (pos < target && pos < cap) out[pos++] = shape_byte(&st, 1);
        }
    }
    return pos;
}
static void shape_describe(const seg_t* segs, int nseg, char* buf, size_t cap) {
    size_t o = 0; buf[0] = 0;
    for (int i = 0; i < nseg && o + 24 < cap; i++) {
        if (segs[i].kind == SEG_LIT) o += snprintf(buf + o, cap - o, "LIT(%d,c%d) ", LIT_N[segs[i].a], segs[i].b);
        else if (segs[i].kind == SEG_REP) o += snprintf(buf + o, cap - o, "REP(o%d,l%d) ", segs[i].a, segs[i].b);
        else o += snprintf(buf + o, cap - o, "PAD(-%d) ", segs[i].a);
    }
}

/* simple deterministic fillers used by several harnesses */
static void fill_text(u8* p, size_t n, uint32_t seed) {   /* compressible: words from a small vocabulary */
    static const char* words[] = {"alpha ", "beta ", "gamma ", "delta ", "epsilon ", "zstd ", "window ", "block ", "a ", "the "};
    size_t o = 0; uint32_t s = seed * 2654435761u + 1;
    while (o < n) { s = s * 1103515245u + 12345u; const char* w = words[(s >> 16) % 10]; for (; *w && o < n; w++) p[o++] = (u8)*w; }
}
static void fill_noise(u8* p, size_t n, uint32_t seed) { uint32_t s = seed * 2246822519u + 7; for (size_t i = 0; i < n; i++) { s = s * 1103515245u + 12345u; p[i] = (u8)(s >> 16); } }

/* ------------------------------------------------------------------ parameter vectors */
typedef struct {
    int level;                  /* used when strategy == 0 (level-only vector) */
    int strategy;               /* 1..9, 0 = take everything from level */
    int windowLog, hashLog, chainLog, searchLog, minMatch, targetLength;
    int rowFinder;              /* 0 auto 1 enable 2 disable */
    int ldm;                    /* 0/1 */
    int splitter;               /* 0 auto 1 enable 2 disable */
    int targetCBlockSize, maxBlockSize, literalMode, checksum, contentSize, magicless;
} pvec_t;

static pvec_t pvec_base(int strategy) {
    pvec_t p; memset(&p, 0, sizeof p);
    p.strategy = strategy; p.level = 3;
    p.windowLog = 10; p.hashLog = 7; p.chainLog = 7; p.searchLog = 2; p.minMatch = strategy >= 6 ? 3 : 4; p.targetLength = strategy >= 7 ? 16 : 0;
    if (strategy == 1) p.minMatch = 5;
    p.contentSize = 1;
    return p;
}
static size_t pvec_apply(ZSTD_CCtx* c, const pvec_t* p) {
    size_t r = 0;
#define SETP(k, v) do { size_t e_ = ZSTD_CCtx_setParameter(c, k, v); if (ZSTD_isError(e_) && !r) r = e_; } while (0)
    if (p->strategy == 0) SETP(ZSTD_c_compressionLevel, p->level);
    else {
        SETP(ZSTD_c_strategy, p->strategy); SETP(ZSTD_c_windowLog, p->windowLog); SETP(ZSTD_c_hashLog, p->hashLog); SETP(ZSTD_c_chainLog, p->chainLog);
        SETP(ZSTD_c_searchLog, p->searchLog); SETP(ZSTD_c_minMatch, p->minMatch); SETP(ZSTD_c_targetLength, p->targetLength);
    }
    if (p->strategy == 0 && p->windowLog) SETP(ZSTD_c_windowLog, p->windowLog);
    if (p->rowFinder) SETP(ZSTD_c_useRowMatchFinder, p->rowFinder == 1 ? ZSTD_ps_enable : ZSTD_ps_disable);
    if (p->ldm) { SETP(ZSTD_c_enableLongDistanceMatching, ZSTD_ps_enable); SETP(ZSTD_c_ldmHashLog, 7); SETP(ZSTD_c_ldmMinMatch, 16); SETP(ZSTD_c_ldmHashRateLog, 1); }
    if (p->splitter) SETP(ZSTD_c_useBlockSplitter, p->splitter == 1 ? ZSTD_ps_enable : ZSTD_ps_disable);
    if (p->targetCBlockSize) SETP(ZSTD_c_targetCBlockSize, p->targetCBlockSize);
    if (p->maxBlockSize) SETP(ZSTD_c_maxBlockSize, p->maxBlockSize);
    if (p->literalMode) SETP(ZSTD_c_literalCompressionMode, p->literalMode == 1 ? ZSTD_ps_enable : ZSTD_ps_disable);
    if (p->checksum) SETP(ZSTD_c_checksumFlag, 1);
    if (!p->contentSize) SETP(ZSTD_c_contentSizeFlag, 0);
    if (p->magicless) SETP(ZSTD_c_format, ZSTD_f_zstd1_magicless);
#undef SETP
    return r;
}
/* deviation-bounded choice of a parameter vector: strategy is a free choice, every other field deviates from its base */
static const int PV_LEVELS[] = {-5, -1, 1, 2, 3, 4, 5, 6, 7, 9, 12, 13, 16, 18, 19, 22};
static pvec_t pvec_choose(int withLevels) {
    int ns = 9 + (withLevels ? (int)(sizeof PV_LEVELS / sizeof PV_LEVELS[0]) : 0);
    int s = vx_choose(ns);
    pvec_t p;
    if (s < 9) p = pvec_base(s + 1);
    else { p = pvec_base(0); p.strategy = 0; p.level = PV_LEVELS[s - 9]; p.windowLog = 0; }
    { static const int wl[] = {0, 11, 17}; int d = vx_deviate(3); if (d) p.windowLog = wl[d]; }
    if (p.strategy) {
        { static const int mm[] = {0, 3, 4, 5, 6, 7}; int d = vx_deviate(6); if (d) p.minMatch = mm[d]; }
        { static const int hl[] = {0, 6, 12}; int d = vx_deviate(3); if (d) p.hashLog = hl[d]; }
        { static const int cl[] = {0, 6, 12}; int d = vx_deviate(3); if (d) p.chainLog = cl[d]; }
        { static const int sl[] = {0, 1, 6}; int d = vx_deviate(3); if (d) p.searchLog = sl[d]; }
        { static const int tl[] = {0, 4, 999}; int d = vx_deviate(3); if (d) p.targetLength = tl[d]; }
    }
    p.rowFinder = vx_deviate(3);
    p.ldm = vx_deviate(2);
    p.splitter = vx_deviate(3);
    { static const int tc[] = {0, 1340, 4096}; p.targetCBlockSize = tc[vx_deviate(3)]; }
    { static const int mb[] = {0, 1024, 4096}; p.maxBlockSize = mb[vx_deviate(3)]; }
    p.literalMode = vx_deviate(3);
    p.checksum = vx_deviate(2);
    p.contentSize = !vx_deviate(2);
    p.magicless = vx_deviate(2);
    return p;
}
static void pvec_describe(const pvec_t* p, char* buf, size_t cap) {
    snprintf(buf, cap, "strat=%d lvl=%d wlog=%d hlog=%d clog=%d slog=%d mml=%d tlen=%d row=%d ldm=%d split=%d tcbs=%d mbs=%d lit=%d ck=%d cs=%d ml=%d",
             p->strategy, p->level, p->windowLog, p->hashLog, p->chainLog, p->searchLog, p->minMatch, p->targetLength, p->rowFinder, p->ldm, p->splitter,
             p->targetCBlockSize, p->maxBlockSize, p->literalMode, p->checksum, p->contentSize, p->magicless);
}
static size_t pvec_window(const pvec_t* p) { return p->windowLog ? ((size_t)1 << p->windowLog) : 0; }
static size_t pvec_block(const pvec_t* p) {
    size_t b = 128 * 1024; size_t w = pvec_window(p);
    if (w && w < b) b = w;
    if (p->maxBlockSize && (size_t)p->maxBlockSize < b) b = (size_t)p->maxBlockSize;
    return b;
}
#endif
