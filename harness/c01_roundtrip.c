/* C01 / C05: one-shot compression over input shapes x parameter vectors x entry points.
 *   --mode rt     round trip through the library decoder (C01)
 *   --mode conf   every produced frame is judged by the reference decoder R and the conformance rules (C05)
 *   --set shapes|ab|absuffix     which input family is enumerated
 *   --big 1       window 2^17 shapes with > 64 KiB matches
 */
#include "common.h"
#define ZDICT_STATIC_LINKING_ONLY
#include "zdict.h"

#define CAP (2u << 20)
static u8 *g_src, *g_dst, *g_out, *g_scratch;
static u8 g_dict[512];
static const char* g_mode; static const char* g_set; static int g_big, g_conf, g_K;

/* base shapes: K segments each, chosen so that the default run already has literals, a match, a repcode and a block edge */
static const seg_t BASES[][5] = {
    {{SEG_LIT, 4, 1}, {SEG_REP, 4, 6}, {SEG_LIT, 1, 1}, {SEG_REP, 5, 3}, {SEG_LIT, 2, 1}},
    {{SEG_LIT, 5, 0}, {SEG_REP, 9, 7}, {SEG_PAD, 1, 0}, {SEG_REP, 12, 5}, {SEG_LIT, 0, 2}},
    {{SEG_LIT, 3, 2}, {SEG_REP, 0, 8}, {SEG_REP, 6, 2}, {SEG_PAD, 0, 0}, {SEG_REP, 13, 6}},
};
enum { NBASES = 3 };

static void init(void) {
    g_mode = vx_opt("--mode", "rt"); g_set = vx_opt("--set", "shapes"); g_big = (int)vx_opt_int("--big", 0); g_K = (int)vx_opt_int("--K", 4);
    g_conf = !strcmp(g_mode, "conf");
    g_src = (u8*)malloc(CAP); g_dst = (u8*)malloc(ZSTD_compressBound(CAP)); g_out = (u8*)malloc(CAP + 64); g_scratch = (u8*)malloc(CAP + 64);
}

static void body(void) {
    char sdesc[160] = "", pdesc[256];
    size_t n = 0;
    /* ---- entry point and parameter vector ---- */
    int isBlocks = !strcmp(g_set, "blocks");
    int entry = vx_choose(isBlocks ? 8 : 5);    /* 0 compress2, 1 compress_advanced, 2 ZSTD_compress, 3 compressCCtx, 4 compress_usingDict(NULL); blocks family also: 5 compress_usingCDict, 6 refCDict + compress2, 7 loadDictionary + compress2 (512-byte raw-content dictionary) */
    pvec_t p;
    if (entry == 0 || entry >= 6) p = pvec_choose(1);
    else if (entry == 1) {
        p = pvec_base(vx_choose(9) + 1);
        { static const int wl[] = {0, 11, 17}; int d = vx_deviate(3); if (d) p.windowLog = wl[d]; }
        { static const int mm[] = {0, 3, 4, 5, 6, 7}; int d = vx_deviate(6); if (d) p.minMatch = mm[d]; }
        { static const int hl[] = {0, 6, 12}; int d = vx_deviate(3); if (d) p.hashLog = hl[d]; }
        { static const int sl[] = {0, 1, 6}; int d = vx_deviate(3); if (d) p.searchLog = sl[d]; }
        p.checksum = vx_deviate(2); p.contentSize = !vx_deviate(2);
    } else { p = pvec_base(0); p.strategy = 0; p.windowLog = 0; p.level = PV_LEVELS[vx_choose((int)(sizeof PV_LEVELS / sizeof PV_LEVELS[0]))]; }
    if (g_big && p.windowLog && p.windowLog < 17) p.windowLog = 17;
    size_t W = pvec_window(&p); if (!W) W = g_conf ? 1024 : (g_big ? (1u << 17) : 1024);
    if (g_conf && p.strategy == 0 && (entry == 0 || entry >= 6)) { p.windowLog = 10; W = 1024; }
    size_t B = pvec_block(&p); if (B > W) B = W;
    /* ---- input ---- */
    if (!strcmp(g_set, "shapes")) {
        seg_t segs[8]; int base = vx_choose(NBASES); int asz = shape_alphabet_size(g_big);
        for (int i = 0; i < g_K; i++) { int d = vx_deviate(asz + 1); segs[i] = d ? shape_alphabet(d - 1, g_big) : BASES[base][i]; }
        /* conformance mode: inputs of 3-5 windows so that offsets near W meet a full window */
        size_t warm = g_conf ? W * 3 + 17 : W + 64;
        n = shape_render(segs, g_K, W, B, warm, g_src, CAP, g_big);
        shape_describe(segs, g_K, sdesc, sizeof sdesc);
    } else if (!strcmp(g_set, "longlen")) {
        if (p.strategy == 0 && !(p.level == 1 || p.level == 3 || p.level == 5 || p.level == 9 || p.level == 16 || p.level == 19)) { vx_obs_u64(51); return; }     /* 600 KB at every level would only cost time */
        if (entry >= 3 && p.level != 3 && p.level != 16) { vx_obs_u64(52); return; }
        /* lengths at and above the 64 KiB long-length escape, placed against block edges, in blocks with few or many other
         * sequences (the block splitter only acts on blocks with many), literal or match */
        static const size_t LENS[] = {65535, 65536, 65537, 65538, 65539, 65540, 70001, 131071, 131075};
        int li = vx_choose(9), edge = vx_choose(4), many = vx_choose(2), isLit = vx_choose(2), twice = vx_choose(2);
        size_t len = LENS[li], pos = 0, blk = 128 * 1024;
        fill_noise(g_src, 140000, 7); pos = 140000;                               /* material to copy from */
        if (many) { for (int k = 0; k < 400; k++) { memcpy(g_src + pos, g_src + 1000 + (size_t)k * 37, 9); pos += 9; g_src[pos++] = (u8)k; } }
        /* start of the long run relative to a block edge */
        { size_t target = ((pos / blk) + 1) * blk + (edge == 0 ? 0 : edge == 1 ? (size_t)-1 : edge == 2 ? 1 : 4097); while (pos < target) { g_src[pos] = (u8)(pos * 2654435761u >> 11); pos++; } }
        for (int rep = 0; rep <= twice; rep++) {
            if (isLit) { fill_noise(g_src + pos, len, 11 + (uint32_t)rep); pos += len; } else { memcpy(g_src + pos, g_src + 17 + rep, len); pos += len; }
            if (many) for (int k = 0; k < 350; k++) { memcpy(g_src + pos, g_src + 2000 + (size_t)k * 41, 8 + k % 5); pos += 8 + (size_t)(k % 5); g_src[pos++] = (u8)(k * 3); }
            else { memcpy(g_src + pos, g_src + 500, 40); pos += 40; }
        }
        n = pos; snprintf(sdesc, sizeof sdesc, "longlen %s=%zu edge%d many%d twice%d", isLit ? "lit" : "match", len, edge, many, twice);
        if (entry == 0) { p.splitter = 1 + vx_choose(2); if (p.windowLog && p.windowLog < 19) p.windowLog = 19; }
    } else if (isBlocks) {
        /* block-type sequences: each of the first 2-3 blocks of the frame has its own character, so that every decision the
         * compressor takes per block (raw / RLE / compressed, new / repeated / no Huffman table, FSE table modes) meets every
         * predecessor.  Block size = the configuration's (1 KiB with the small windows; 128 KiB for the level-only entries,
         * which are run at three levels).  Types: 0 skewed bytes over [0,200)+{201}; 1 the same with 200 in place of 201;
         * 2 skewed over [0,199); 3 uniform noise; 4 run of 'z'; 5 run of 0x00; 6 words; 7 skewed over [0,12); 8 back-to-back copies of earlier data followed by text over another alphabet; 9 nearly incompressible literals over all byte values with a few matches; 10 almost a run. */
        size_t blk = (entry >= 2 && entry <= 5) ? 128 * 1024 : B;
        if (entry >= 2 && entry <= 5 && !(p.level == 1 || p.level == 3 || p.level == 7)) { vx_obs_u64(53); return; }
        /* block-size class for the parameter-vector entries: the configuration's own (1 KiB), or 8 KiB blocks with and without targetCBlockSize 1340 (sub-blocks) */
        int cls = (entry == 0 || entry >= 6) ? vx_choose(entry == 0 ? 4 : 3) : 0;
        if (!vx_thorough && (cls == 1 || cls == 2) && p.strategy != 0) { vx_obs_u64(56); return; }      /* quick tier: the 8 KiB classes with level vectors only */      /* class 3: 128 KiB blocks with sub-blocks, second block = 50 KiB of literal-free copies then new text */
        if (cls == 3) { p.windowLog = 17; W = B = blk = 128 * 1024; p.targetCBlockSize = 1340; p.maxBlockSize = 0; }
        else if (cls) { p.windowLog = 13; W = 8192; B = 8192; blk = 8192; p.targetCBlockSize = cls == 2 ? 1340 : 0; if (p.maxBlockSize) p.maxBlockSize = 0; }
        int big128 = !vx_thorough && blk == 128 * 1024 && cls != 3;      /* quick tier: 128 KiB blocks with two blocks out of six characters */
        static const int SUB6[] = {0, 1, 3, 4, 8, 9, 10};
        int nb = (cls || big128) ? 2 : 2 + vx_choose(2), ty[3]; for (int i = 0; i < nb; i++) ty[i] = (cls == 3 && i == 1) ? 8 : big128 ? SUB6[vx_choose(7)] : (i == 2 && !vx_thorough) ? SUB6[vx_choose(7)] : vx_choose(11);
        static const int D0[] = {0, -1, 1}; int d0 = D0[vx_deviate(3)]; int tailKind = vx_deviate(3);   /* first block exactly / one short / one over; last block full, half, 300 bytes */
        size_t pos = 0; uint32_t sd = 77;
        for (int i = 0; i < nb; i++) {
            size_t len = blk; if (i == 0) len = (size_t)((long)blk + d0); if (i == nb - 1 && tailKind) len = tailKind == 1 ? blk / 2 + 17 : 300;
            u8* q = g_src + pos;
            for (size_t k = 0; k < len; k++) { sd = sd * 1103515245u + 12345u; unsigned r = (sd >> 8) & 0xffff, v = r % 200; v = v * v / 200 * v / 200;
                switch (ty[i]) {
                case 0: q[k] = (u8)((r >> 9) % 61 == 0 ? 201 : v); break;
                case 1: q[k] = (u8)((r >> 9) % 61 == 0 ? 200 : v); break;
                case 2: q[k] = (u8)(v > 198 ? 198 : v); break;
                case 3: q[k] = (u8)(r >> 3); break;
                case 4: q[k] = 'z'; break;
                case 5: q[k] = 0; break;
                case 10: q[k] = (k == len * 3 / 4 + 5) ? 'Z' : (k + 2 == len) ? 'x' : (k == len / 2 + 40) ? 0 : 'z'; break;      /* 10: almost a run: three stray bytes whose bits are subsets of the run byte's, away from the block start (compresses to a handful of bytes; must not become a run block) */
                case 6: q[k] = (u8)("the block of words and the words of the block "[(k + (r & 3) * (k % 7 == 0)) % 47]); break;
                case 7: q[k] = (u8)(v % 12); break;
                case 9: q[k] = (k % 512 >= 448 && k >= 512) ? q[k - 300] : (u8)((r & 3) ? (r >> 2) & 0x3f : (r >> 2) & 0xff); break;      /* 9: all 256 byte values, 64 of them three times as likely (a Huffman table does not pay for itself, re-using one does), with a 64-byte match every 512 bytes */
                default: q[k] = (u8)('A' + (v * 7 / 200 * 3 + (r & 1)) % 26); break;      /* 8: text over another alphabet; its first 2/5 are replaced below by back-to-back 64-byte copies of earlier data (sequences without literals) */
                } }
            if (ty[i] == 8 && pos >= 256) for (size_t j = 0; (j + 1) * 64 <= len * 2 / 5; j++) memcpy(q + j * 64, g_src + pos - 256 + (j * 29) % 190, 64);
            pos += len;
        }
        n = pos; snprintf(sdesc, sizeof sdesc, "blocks %d%d%c first%+d tail%d blk=%zu cls%d", ty[0], ty[1], nb == 3 ? '0' + ty[2] : '-', d0, tailKind, blk, cls);
    } else if (!strcmp(g_set, "litband")) {
        /* literal-entropy sweep: block A has Huffman-friendly literals over a small alphabet; blocks B and C share one nearly flat distribution over all 256 byte
         * values (a fraction h/40 of the bytes comes from 64 hot values) plus a few matches.  Sweeping h moves the Huffman gain of B / C across the thresholds
         * "worth a new table", "worth only with a re-used table", "not worth it", for three block sizes. */
        int h = vx_choose(41), bs = vx_choose(3); static const size_t BS[] = {4096, 8192, 32768}; size_t blk = BS[bs]; uint32_t sd = 91;
        if (entry >= 2 && !(p.level == 1 || p.level == 3 || p.level == 7 || p.level == 13 || p.level == 19)) { vx_obs_u64(54); return; }
        if (entry == 0 || entry == 1) { p.windowLog = bs == 0 ? 12 : bs == 1 ? 13 : 15; W = (size_t)1 << p.windowLog; p.maxBlockSize = 0; p.targetCBlockSize = 0; }
        else { vx_obs_u64(55); return; }      /* the block size is set through the window: parameter-vector entries only */
        for (int b = 0; b < 3; b++) for (size_t k = 0; k < blk; k++) { sd = sd * 1103515245u + 12345u; unsigned r = (sd >> 8) & 0xffff, v = r % 200; v = v * v / 200 * v / 200;
            g_src[n] = b == 0 ? (u8)v : (k % 512 >= 448 && k >= 512) ? g_src[n - 300] : (u8)(((r >> 10) % 40 < (unsigned)h) ? (r & 0x3f) : (r & 0xff)); n++; }
        snprintf(sdesc, sizeof sdesc, "litband hot=%d/40 blk=%zu", h, blk);
    } else if (!strcmp(g_set, "lens")) {
        /* every input length 0..L in three textures (checksum / content-size bookkeeping is per length, not per content) */
        int L = (int)vx_opt_int("--L", 200); int len = vx_choose(L + 1), tex = vx_choose(3);
        if (tex == 0) fill_text(g_src, (size_t)len, 5); else if (tex == 1) fill_noise(g_src, (size_t)len, 6); else memset(g_src, 0, (size_t)len);
        n = (size_t)len; snprintf(sdesc, sizeof sdesc, "len=%d texture%d", len, tex);
        if (entry <= 1) p.checksum = 1;
    } else if (!strcmp(g_set, "ab")) {
        /* every string over {a,b} of length <= L */
        int L = (int)vx_opt_int("--L", 12); int len = vx_choose(L + 1);
        for (int i = 0; i < len; i++) g_src[i] = (u8)('a' + vx_choose(2));
        n = (size_t)len; snprintf(sdesc, sizeof sdesc, "ab^%d %.*s", len, len, (char*)g_src);
    } else {
        /* fixed 256-byte prefix + every {a,b} suffix of length <= L */
        int L = (int)vx_opt_int("--L", 10); int len = vx_choose(L + 1);
        fill_text(g_src, 256, 3);
        for (int i = 0; i < len; i++) g_src[256 + i] = (u8)('a' + vx_choose(2));
        n = 256 + (size_t)len; snprintf(sdesc, sizeof sdesc, "text256+ab^%d", len);
    }
    /* the source ends exactly at the end of its heap allocation: a read past the declared source meets a redzone */
    const u8* const S = g_src + (CAP - n); if (n) memmove(g_src + (CAP - n), g_src, (n));
    pvec_describe(&p, pdesc, sizeof pdesc);
    vx_label("entry=%d %s | %s n=%zu", entry, pdesc, sdesc, n);

    /* ---- compress ---- */
    size_t bound = ZSTD_compressBound(n), csz; const u8* dict = NULL; size_t dictLen = 0; unsigned wantID = 0;
    ZSTD_CCtx* cctx = ZSTD_createCCtx();
    if (entry == 0) {
        size_t e = pvec_apply(cctx, &p);
        if (ZSTD_isError(e)) { vx_fail("setParameter rejected a vector of in-range values: %s", ZSTD_getErrorName(e)); ZSTD_freeCCtx(cctx); return; }
        csz = ZSTD_compress2(cctx, g_dst, bound, S, n);
    } else if (entry == 1) {
        ZSTD_parameters zp; memset(&zp, 0, sizeof zp);
        zp.cParams.windowLog = (unsigned)p.windowLog; zp.cParams.hashLog = (unsigned)p.hashLog; zp.cParams.chainLog = (unsigned)p.chainLog;
        zp.cParams.searchLog = (unsigned)p.searchLog; zp.cParams.minMatch = (unsigned)p.minMatch; zp.cParams.targetLength = (unsigned)p.targetLength;
        zp.cParams.strategy = (ZSTD_strategy)p.strategy;
        zp.fParams.checksumFlag = p.checksum; zp.fParams.contentSizeFlag = p.contentSize; zp.fParams.noDictIDFlag = 0;
        csz = ZSTD_compress_advanced(cctx, g_dst, bound, S, n, NULL, 0, zp);
    } else if (entry == 2) csz = ZSTD_compress(g_dst, bound, S, n, p.level);
    else if (entry == 3) csz = ZSTD_compressCCtx(cctx, g_dst, bound, S, n, p.level);
    else if (entry == 4) csz = ZSTD_compress_usingDict(cctx, g_dst, bound, S, n, NULL, 0, p.level);
    else {
        fill_text(g_dict, sizeof g_dict, 21); dict = g_dict; dictLen = sizeof g_dict;
        /* dictionary identity: raw content (no ID) or a structured dictionary whose ID sits on either side of the 1 / 2 / 4-byte field boundaries */
        {   static const unsigned IDS[] = {0, 255, 256, 65535, 65536}; static u8 sd[5][4096]; static size_t sl[5]; int idc = (entry == 5 || vx_thorough) ? vx_choose(5) : (vx_choose(2) ? 4 : 0);
            if (idc) { if (!sl[idc]) { static u8 smp[8192]; size_t ss[8]; fill_text(smp, sizeof smp, 33); for (int k = 0; k < 8; k++) ss[k] = 1024; ZDICT_params_t zp; memset(&zp, 0, sizeof zp); zp.dictID = IDS[idc]; zp.compressionLevel = 3;
                         size_t r = ZDICT_finalizeDictionary(sd[idc], sizeof sd[idc], g_dict, sizeof g_dict, smp, ss, 8, zp); sl[idc] = ZDICT_isError(r) ? 0 : r; }
                       if (sl[idc]) { dict = sd[idc]; dictLen = sl[idc]; wantID = IDS[idc]; } } }
        ZSTD_CDict* cd = NULL;
        if (entry == 5) { cd = ZSTD_createCDict(dict, dictLen, p.level); csz = ZSTD_compress_usingCDict(cctx, g_dst, bound, S, n, cd); }
        else {
            size_t e = pvec_apply(cctx, &p);
            if (ZSTD_isError(e)) { vx_fail("setParameter rejected a vector of in-range values: %s", ZSTD_getErrorName(e)); ZSTD_freeCCtx(cctx); return; }
            if (entry == 6) { cd = ZSTD_createCDict(dict, dictLen, p.strategy ? 3 : p.level); e = ZSTD_CCtx_refCDict(cctx, cd); } else e = ZSTD_CCtx_loadDictionary(cctx, dict, dictLen);
            csz = ZSTD_isError(e) ? e : ZSTD_compress2(cctx, g_dst, bound, S, n);
        }
        ZSTD_freeCDict(cd);
    }
    ZSTD_freeCCtx(cctx);
    if (ZSTD_isError(csz)) { vx_fail("compression into ZSTD_compressBound failed: %s", ZSTD_getErrorName(csz)); return; }

    /* ---- decode ---- */
    if (dict && !p.magicless && ZSTD_getDictID_fromFrame(g_dst, csz) != wantID) { vx_fail("frame carries dictionary ID %u, the dictionary used has %u", ZSTD_getDictID_fromFrame(g_dst, csz), wantID); return; }
    if (!g_conf) {
        ZSTD_DCtx* d = ZSTD_createDCtx();
        if (p.magicless) ZSTD_DCtx_setParameter(d, ZSTD_d_format, ZSTD_f_zstd1_magicless);
        for (int v = 0; v < 4; v++) {
            size_t cap = n + ((v & 1) ? 0 : 32);           /* exact and roomy destination */
            size_t r;
            if (dict) r = ZSTD_decompress_usingDict(d, g_out, cap, g_dst, csz, dict, dictLen);
            else if (!p.magicless && (v & 2)) r = ZSTD_decompress(g_out, cap, g_dst, csz); else r = ZSTD_decompressDCtx(d, g_out, cap, g_dst, csz);
            if (ZSTD_isError(r)) { vx_fail("decompress of own output failed: %s", ZSTD_getErrorName(r)); break; }
            if (r != n) { vx_fail("round trip length %zu != %zu", r, n); break; }
            if (n && memcmp(g_out, S, n)) { vx_fail("round trip content differs"); break; }
        }
        ZSTD_freeDCtx(d);
        if (vx_failed) return;
        vx_obs_u64(vx_hash(g_dst, csz));
        if (csz < n) vx_nontrivial();
    } else {
        refcheck_t c; rc_init(&c);
        c.interop = 1; c.magicless = p.magicless; c.maxBlockSize = (entry == 0 || entry >= 6) ? (size_t)p.maxBlockSize : 0;
        if (entry <= 1 || entry >= 6) { c.expectChecksum = p.checksum; c.expectFCS = p.contentSize; } else { c.expectChecksum = 0; c.expectFCS = 1; }
        c.expectDictID = (long)wantID;
        if (ref_check(&c, g_dst, csz, dict, dictLen, S, n, g_scratch, CAP)) { vx_fail("conformance: %s", c.err); return; }
        if ((entry <= 1 || entry >= 6) && p.windowLog && c.windowSize > ((size_t)1 << p.windowLog)) { vx_fail("conformance: declared window %zu larger than requested 2^%d", c.windowSize, p.windowLog); return; }
        vx_obs_u64(vx_hash(g_dst, csz));
        vx_stat_add("sequences", (long)c.nseq); vx_stat_add("blocks", (long)c.nblocks); vx_stat_max("max_offset", (long)c.maxOffset);
        if (c.maxOffset + 8 >= c.windowSize && n > c.windowSize) vx_stat_add("frames_with_offset_near_window", 1);
        if (c.nseq) vx_nontrivial();
    }
    if (vx_want_sample()) vx_sample("entry=%d %s | %s n=%zu -> %zu bytes", entry, pdesc, sdesc, n, csz);
}

int main(int argc, char** argv) { return vx_main(argc, argv, init, body); }
