/* C20: seekable format.  Archives from every small compression history; the reader's state graph is closed:
 * from every reachable reader state every (offset, length) read is issued and compared with the content.
 * The reader (contrib/seekable_format/zstdseek_decompress.c) is included textually so that its private state
 * can be read for the state key; the writer is linked normally. */
#include "common.h"
#include "zstd_seekable.h"
#undef MIN
#undef MAX
#undef ERROR
#include "zstdseek_decompress.c"
#include <malloc.h>

static u8 g_x[64], g_arch[8192], g_out[256], g_mut[8192];
static int g_corrupt;

static void init(void) { g_corrupt = (int)vx_opt_int("--corrupt", 0);
    /* a reader object is two 128 KiB buffers: keep such blocks on the heap instead of one mmap/munmap per reader */
    mallopt(M_MMAP_THRESHOLD, 1 << 30); mallopt(M_TRIM_THRESHOLD, 1 << 30); }

typedef struct { size_t n; size_t cOff[80], dOff[80], cSize[80], dSize[80]; } layout20_t;
/* frame layout computed from the archive itself with the plain library inspectors (independent of the seek table) */
static int plain_layout(const u8* a, size_t alen, layout20_t* L) {
    size_t pos = 0, d = 0; L->n = 0;
    while (pos < alen) {
        if (ZSTD_isSkippableFrame(a + pos, alen - pos)) break;      /* the seek table */
        size_t cs = ZSTD_findFrameCompressedSize(a + pos, alen - pos); if (ZSTD_isError(cs)) return 1;
        unsigned long long ds = ZSTD_getFrameContentSize(a + pos, cs);
        if (ds == ZSTD_CONTENTSIZE_UNKNOWN) { size_t r = ZSTD_decompress(g_out, sizeof g_out, a + pos, cs); if (ZSTD_isError(r)) return 1; ds = r; }
        if (ds == ZSTD_CONTENTSIZE_ERROR || L->n >= 79) return 1;
        L->cOff[L->n] = pos; L->dOff[L->n] = d; L->cSize[L->n] = cs; L->dSize[L->n] = (size_t)ds; L->n++; pos += cs; d += (size_t)ds;
    }
    L->cOff[L->n] = pos; L->dOff[L->n] = d;
    return 0;
}

/* custom-file access with an injectable failure */
typedef struct { const u8* p; size_t n, pos; int failAt, calls; } cf_t;
static int cf_read(void* o, void* b, size_t n) { cf_t* f = (cf_t*)o; if (++f->calls == f->failAt) return -1; if (f->pos + n > f->n) return -1; memcpy(b, f->p + f->pos, n); f->pos += n; return 0; }
static int cf_seek(void* o, long long off, int origin) { cf_t* f = (cf_t*)o; long long np = origin == SEEK_SET ? off : origin == SEEK_END ? (long long)f->n + off : (long long)f->pos + off; if (np < 0 || np > (long long)f->n) return -1; f->pos = (size_t)np; return 0; }

static ZSTD_seekable* open_reader(int access, const u8* a, size_t alen, FILE** fp, cf_t* cf, size_t* err) {
    ZSTD_seekable* zs = ZSTD_seekable_create(); *fp = NULL; *err = 0;
    if (access == 0) *err = ZSTD_seekable_initBuff(zs, a, alen);
    else if (access == 1) { *fp = fmemopen((void*)a, alen, "rb"); *err = ZSTD_seekable_initFile(zs, *fp); }
    else { cf->p = a; cf->n = alen; cf->pos = 0; ZSTD_seekable_customFile c = { cf, cf_read, cf_seek }; *err = ZSTD_seekable_initAdvanced(zs, c); }
    return zs;
}
static void close_reader(ZSTD_seekable* zs, FILE* fp) { ZSTD_seekable_free(zs); if (fp) fclose(fp); }

static uint64_t reader_key(const ZSTD_seekable* zs) {
    uint64_t h = 5; h = vx_mix(h, zs->decompressedOffset); h = vx_mix(h, zs->curFrame); h = vx_mix(h, zs->in.pos); h = vx_mix(h, zs->in.size);
    return h;
}

/* seek tables larger than the reader's 128 KiB load buffer: frame counts around the multiples of (buffer / entry size) for 8- and 12-byte entries.
 * One byte per frame; every accessor of every frame against the layout walked with the plain inspectors; reads around the buffer boundaries. */
static void body_bigtable(void) {
    static const unsigned NF[] = {10922, 10923, 10924, 16384, 16385, 21845, 21846, 32767, 32768, 32769, 36000};
    unsigned nf = NF[vx_choose(11)]; int ck = vx_choose(2), access = vx_choose(3);
    vx_label("bigtable frames=%u ck=%d access=%d", nf, ck, access);
    size_t cap = (size_t)nf * 40 + 4096, alen = 0; u8* arch = (u8*)malloc(cap); u8* x = (u8*)malloc(nf);
    size_t* cOff = (size_t*)malloc(sizeof(size_t) * (nf + 2)); size_t* cSz = (size_t*)malloc(sizeof(size_t) * (nf + 2)); size_t* dOff = (size_t*)malloc(sizeof(size_t) * (nf + 2)); size_t* dSz = (size_t*)malloc(sizeof(size_t) * (nf + 2));
    for (unsigned i = 0; i < nf; i++) x[i] = (u8)(i * 7 + i / 251);
    ZSTD_seekable_CStream* zcs = ZSTD_seekable_createCStream(); size_t e = ZSTD_seekable_initCStream(zcs, 1, ck, 1);
    if (ZSTD_isError(e)) { vx_fail("initCStream: %s", ZSTD_getErrorName(e)); goto out; }
    {   ZSTD_inBuffer in = { x, nf, 0 };
        while (in.pos < in.size) { ZSTD_outBuffer out = { arch + alen, cap - alen, 0 }; size_t r = ZSTD_seekable_compressStream(zcs, &out, &in); alen += out.pos; if (ZSTD_isError(r) || alen + 64 > cap) { vx_fail("compressStream: %s", ZSTD_getErrorName(r)); goto out; } }
        size_t r = 1; while (r) { ZSTD_outBuffer out = { arch + alen, cap - alen, 0 }; r = ZSTD_seekable_endStream(zcs, &out); alen += out.pos; if (ZSTD_isError(r)) { vx_fail("endStream: %s", ZSTD_getErrorName(r)); goto out; } if (out.pos == 0 && r) { vx_fail("endStream: archive buffer too small"); goto out; } } }
    unsigned nw = 0;      /* frames found by walking the archive with the plain inspectors (the writer may close the archive with one empty frame) */
    {   size_t pos = 0, d = 0;
        while (pos < alen && !ZSTD_isSkippableFrame(arch + pos, alen - pos)) { size_t cs = ZSTD_findFrameCompressedSize(arch + pos, alen - pos); unsigned long long ds = ZSTD_isError(cs) ? 0 : ZSTD_getFrameContentSize(arch + pos, cs);
            if (!ZSTD_isError(cs) && ds == ZSTD_CONTENTSIZE_UNKNOWN) { u8 t[8]; size_t r = ZSTD_decompress(t, sizeof t, arch + pos, cs); ds = ZSTD_isError(r) ? 99 : r; }
            if (ZSTD_isError(cs) || nw > nf || ds > 1) { vx_fail("archive of %u one-byte frames: frame %u at byte %zu of %zu: %s", nf, nw, pos, alen, ZSTD_isError(cs) ? ZSTD_getErrorName(cs) : "unexpected frame"); goto out; }
            cOff[nw] = pos; cSz[nw] = cs; dOff[nw] = d; dSz[nw] = (size_t)ds; nw++; pos += cs; d += (size_t)ds; }
        if (d != nf) { vx_fail("archive frames hold %zu bytes, expected %u", d, nf); goto out; } }
    {   FILE* fp; cf_t cf; memset(&cf, 0, sizeof cf); size_t err; ZSTD_seekable* zs = open_reader(access, arch, alen, &fp, &cf, &err);
        if (ZSTD_isError(err)) vx_fail("reader init fails on a valid archive with %u frames: %s", nw, ZSTD_getErrorName(err));
        else if (ZSTD_seekable_getNumFrames(zs) != nw) vx_fail("seek table lists %u frames, the archive has %u", ZSTD_seekable_getNumFrames(zs), nw);
        else {
            for (unsigned i = 0; i < nw && !vx_failed; i++) {
                unsigned long long co = ZSTD_seekable_getFrameCompressedOffset(zs, i), dofs = ZSTD_seekable_getFrameDecompressedOffset(zs, i); size_t cs = ZSTD_seekable_getFrameCompressedSize(zs, i), ds = ZSTD_seekable_getFrameDecompressedSize(zs, i);
                if (co != cOff[i] || dofs != dOff[i] || cs != cSz[i] || ds != dSz[i]) vx_fail("seek table entry %u of %u (c=%llu,d=%llu,cs=%zu,ds=%zu) disagrees with the frame layout (c=%zu,d=%zu,cs=%zu,ds=%zu)", i, nw, co, dofs, cs, ds, cOff[i], dOff[i], cSz[i], dSz[i]);
            }
            static const long AT[] = {0, 1, 10921, 10922, 10923, 16383, 16384, 21844, 21845, 21846, 32765, 32766, 32767, 32768, -3, -1};
            for (int a = 0; a < 16 && !vx_failed; a++) { long off = AT[a] < 0 ? (long)nf + AT[a] : AT[a]; if (off < 0 || off >= (long)nf) continue;
                for (size_t ln = 1; ln <= 3 && off + (long)ln <= (long)nf && !vx_failed; ln++) { u8 o[8]; memset(o, 0xEE, sizeof o); size_t r = ZSTD_seekable_decompress(zs, o, ln, (unsigned long long)off);
                    if (ZSTD_isError(r)) vx_fail("read(offset %ld, length %zu) of a %u-frame archive fails: %s", off, ln, nw, ZSTD_getErrorName(r)); else if (r != ln || memcmp(o, x + off, ln) || o[ln] != 0xEE) vx_fail("read(offset %ld, length %zu) of a %u-frame archive returns wrong bytes", off, ln, nw); } }
        }
        close_reader(zs, fp); }
    vx_obs_u64(vx_hash(arch, alen > 4096 ? 4096 : alen)); vx_obs_u64(nf); vx_nontrivial(); vx_stat_add("archives_built", 1); vx_stat_add("reads", 48);
out:
    ZSTD_seekable_freeCStream(zcs); free(arch); free(x); free(cOff); free(cSz); free(dOff); free(dSz);
}

/* frames larger than one block: 300 KB of content, maxFrameSize {default, 200000, 65536}, checksum on / off, the whole content offered in one call or in
 * 50 000-byte pieces, output room 1000 bytes or ample; every frame read back through the seekable reader (whole frames and ranges across frame edges) */
static void body_bigframes(void) {
    static const unsigned MFS[] = {0, 200000, 65536}; unsigned mfs = MFS[vx_choose(3)]; int ck = vx_choose(2), whole = vx_choose(2), small = vx_choose(2), access = vx_choose(3), tex = vx_choose(2);
    vx_label("bigframes maxFrame=%u ck=%d inputWhole=%d outRoom=%d access=%d texture%d", mfs, ck, whole, small ? 1000 : 0, access, tex);
    size_t n = 300000, cap = ZSTD_compressBound(n) + 65536, alen = 0; u8* x = (u8*)malloc(n); u8* arch = (u8*)malloc(cap); u8* o = (u8*)malloc(n + 16);
    if (tex) fill_noise(x, n, 5); else { fill_text(x, n, 4); fill_noise(x + 100000, 30000, 6); }
    ZSTD_seekable_CStream* zcs = ZSTD_seekable_createCStream(); size_t e = ZSTD_seekable_initCStream(zcs, 1, ck, mfs);
    if (ZSTD_isError(e)) { vx_fail("initCStream: %s", ZSTD_getErrorName(e)); goto out; }
    {   size_t pos = 0; long guard = 0;
        while (pos < n) { size_t give = whole ? n - pos : (n - pos > 50000 ? 50000 : n - pos); ZSTD_inBuffer in = { x + pos, give, 0 };
            while (in.pos < in.size) { size_t room = small ? 1000 : cap - alen; if (room > cap - alen) room = cap - alen; ZSTD_outBuffer out = { arch + alen, room, 0 }; size_t r = ZSTD_seekable_compressStream(zcs, &out, &in); alen += out.pos;
                if (ZSTD_isError(r) || ++guard > 2000000 || alen + 2000 > cap) { vx_fail("compressStream: %s", ZSTD_isError(r) ? ZSTD_getErrorName(r) : "no end"); goto out; } }
            pos += give; }
        size_t r = 1; while (r) { size_t room = small ? 1000 : cap - alen; ZSTD_outBuffer out = { arch + alen, room, 0 }; r = ZSTD_seekable_endStream(zcs, &out); alen += out.pos; if (ZSTD_isError(r) || ++guard > 2000000) { vx_fail("endStream: %s", ZSTD_isError(r) ? ZSTD_getErrorName(r) : "no end"); goto out; } } }
    {   size_t r = ZSTD_decompress(o, n + 16, arch, alen); if (ZSTD_isError(r) || r != n || memcmp(o, x, n)) { vx_fail("regular decoder does not regenerate the content from the archive"); goto out; } }
    {   FILE* fp; cf_t cf; memset(&cf, 0, sizeof cf); size_t err; ZSTD_seekable* zs = open_reader(access, arch, alen, &fp, &cf, &err);
        if (ZSTD_isError(err)) vx_fail("reader init fails on a valid archive: %s", ZSTD_getErrorName(err));
        else {
            unsigned nf = ZSTD_seekable_getNumFrames(zs); size_t tot = 0;
            for (unsigned i = 0; i < nf && !vx_failed; i++) { size_t ds = ZSTD_seekable_getFrameDecompressedSize(zs, i); if (ZSTD_isError(ds) || tot + ds > n) { vx_fail("frame %u: bad decompressed size", i); break; }
                memset(o, 0xEE, ds + 1); size_t r = ZSTD_seekable_decompressFrame(zs, o, ds, i); if (ZSTD_isError(r)) vx_fail("decompressFrame(%u) of an intact archive fails: %s", i, ZSTD_getErrorName(r)); else if (r != ds || memcmp(o, x + tot, ds) || o[ds] != 0xEE) vx_fail("decompressFrame(%u) returns wrong bytes", i); tot += ds; }
            if (!vx_failed && tot != n) vx_fail("frames hold %zu bytes, the content has %zu", tot, n);
            static const size_t AT[][2] = {{0, 1}, {0, 70000}, {65530, 12}, {131070, 5}, {199990, 20}, {150000, 150000}, {299999, 1}, {1, 299999}};
            for (int a = 0; a < 8 && !vx_failed; a++) { memset(o, 0xEE, AT[a][1] + 1); size_t r = ZSTD_seekable_decompress(zs, o, AT[a][1], AT[a][0]);
                if (ZSTD_isError(r)) vx_fail("read(offset %zu, length %zu) of an intact archive fails: %s", AT[a][0], AT[a][1], ZSTD_getErrorName(r)); else if (r != AT[a][1] || memcmp(o, x + AT[a][0], AT[a][1]) || o[AT[a][1]] != 0xEE) vx_fail("read(offset %zu, length %zu) returns wrong bytes", AT[a][0], AT[a][1]); }
        }
        close_reader(zs, fp); }
    vx_obs_u64(vx_hash(arch, alen > 4096 ? 4096 : alen)); vx_nontrivial(); vx_stat_add("archives_built", 1);
out:
    ZSTD_seekable_freeCStream(zcs); free(arch); free(x); free(o);
}

static void body(void) {
    if (g_corrupt == 2) { body_bigtable(); return; }
    if (g_corrupt == 3) { body_bigframes(); return; }
    /* ---- content and compression history (free choices) ---- */
    int kind = vx_choose(3), n = 1 + vx_choose(3) * 13 + (kind == 2 ? 1 : 0);      /* 1, 14, 27 (+1) */
    static const unsigned MFS[] = {1, 2, 3, 5, 8, 64}; unsigned mfs = MFS[vx_choose(6)]; int ck = vx_choose(2);
    static const size_t INCH[] = {1, 3, 1000}, OUTC[] = {1, 3, 4096}; size_t inch = INCH[vx_choose(3)], outc = OUTC[vx_choose(3)];
    int endPat = vx_choose(5), access = vx_choose(3);
    for (int i = 0; i < n; i++) g_x[i] = kind == 0 ? (u8)('a' + i % 7) : kind == 1 ? (u8)(i * 73 + 11) : 0;
    vx_label("content%d n=%d maxFrame=%u ck=%d in=%zu out=%zu endPattern=%d access=%d", kind, n, mfs, ck, inch, outc, endPat, access);
    ZSTD_seekable_CStream* zcs = ZSTD_seekable_createCStream();
    size_t e = ZSTD_seekable_initCStream(zcs, 3, ck, mfs);
    if (ZSTD_isError(e)) { vx_fail("initCStream: %s", ZSTD_getErrorName(e)); ZSTD_seekable_freeCStream(zcs); return; }
    size_t alen = 0, consumed = 0; int guard = 0;
    while (consumed < (size_t)n && !vx_failed) {
        size_t give = inch > (size_t)n - consumed ? (size_t)n - consumed : inch;
        ZSTD_inBuffer in = { g_x + consumed, give, 0 };
        while (in.pos < in.size && !vx_failed) {
            ZSTD_outBuffer out = { g_arch + alen, outc > sizeof g_arch - alen ? sizeof g_arch - alen : outc, 0 };
            size_t r = ZSTD_seekable_compressStream(zcs, &out, &in); alen += out.pos;
            if (ZSTD_isError(r)) vx_fail("compressStream: %s", ZSTD_getErrorName(r));
            if (++guard > 100000) vx_fail("compressStream does not finish");
        }
        consumed += give;
        /* explicit endFrame patterns: every 4 bytes; twice in a row at byte 7; right after an automatic frame end */
        int doEnd = (endPat == 1 && consumed % 4 == 0) || (endPat == 2 && consumed == 7) || (endPat == 3 && mfs > 1 && consumed % mfs == 0) || (endPat == 4 && consumed == 1);
        for (int rep = 0; rep < ((endPat == 2 && doEnd) ? 2 : doEnd) && !vx_failed; rep++) {
            size_t r = 1;
            while (r != 0 && !vx_failed) { ZSTD_outBuffer out = { g_arch + alen, outc, 0 }; r = ZSTD_seekable_endFrame(zcs, &out); alen += out.pos; if (ZSTD_isError(r)) vx_fail("endFrame: %s", ZSTD_getErrorName(r)); if (++guard > 100000) vx_fail("endFrame does not finish"); }
        }
    }
    {   size_t r = 1; while (r != 0 && !vx_failed) { ZSTD_outBuffer out = { g_arch + alen, outc, 0 }; r = ZSTD_seekable_endStream(zcs, &out); alen += out.pos; if (ZSTD_isError(r)) vx_fail("endStream: %s", ZSTD_getErrorName(r)); if (++guard > 200000) vx_fail("endStream does not finish"); } }
    ZSTD_seekable_freeCStream(zcs);
    if (vx_failed) return;
    /* ---- a regular decoder regenerates the content; frames + seek table are valid ---- */
    {   size_t r = ZSTD_decompress(g_out, sizeof g_out, g_arch, alen);
        if (ZSTD_isError(r) || r != (size_t)n || memcmp(g_out, g_x, (size_t)n)) { vx_fail("regular decoder does not regenerate the content from the archive: %s", ZSTD_isError(r) ? ZSTD_getErrorName(r) : "differs"); return; }
        refcheck_t rc; rc_init(&rc); static u8 scratch[512];
        if (ref_check(&rc, g_arch, alen, NULL, 0, g_x, (size_t)n, scratch, sizeof scratch)) { vx_fail("reference decoder on the archive: %s", rc.err); return; }
    }
    layout20_t L; if (plain_layout(g_arch, alen, &L)) { vx_fail("archive is not a sequence of frames followed by a skippable seek table"); return; }
    for (size_t f = 0; f < L.n; f++) if (L.dSize[f] > mfs) { vx_fail("frame %zu holds %zu bytes, maxFrameSize is %u", f, L.dSize[f], mfs); return; }

    FILE* fp; cf_t cf; memset(&cf, 0, sizeof cf); size_t err;
    if (!g_corrupt) {
        /* ---- accessors against the independent layout, indices 0..numFrames+1 ---- */
        ZSTD_seekable* zs = open_reader(access, g_arch, alen, &fp, &cf, &err);
        if (ZSTD_isError(err)) { vx_fail("reader init fails on a valid archive: %s", ZSTD_getErrorName(err)); close_reader(zs, fp); return; }
        unsigned nf = ZSTD_seekable_getNumFrames(zs);
        if (nf != L.n) vx_fail("seek table lists %u frames, the archive has %zu", nf, L.n);
        ZSTD_seekTable* st = ZSTD_seekTable_create_fromSeekable(zs);
        for (unsigned i = 0; i <= nf + 1 && !vx_failed; i++) {
            unsigned long long co = ZSTD_seekable_getFrameCompressedOffset(zs, i), dofs = ZSTD_seekable_getFrameDecompressedOffset(zs, i);
            size_t cs = ZSTD_seekable_getFrameCompressedSize(zs, i), ds = ZSTD_seekable_getFrameDecompressedSize(zs, i);
            size_t ds2 = st ? ZSTD_seekTable_getFrameDecompressedSize(st, i) : ds, cs2 = st ? ZSTD_seekTable_getFrameCompressedSize(st, i) : cs;
            if (i < nf) {
                if (co != L.cOff[i] || dofs != L.dOff[i] || cs != L.cSize[i] || ds != L.dSize[i] || ds2 != ds || cs2 != cs) vx_fail("seek table entry %u (c=%llu,d=%llu,cs=%zu,ds=%zu) disagrees with the frame layout (c=%zu,d=%zu,cs=%zu,ds=%zu)", i, co, dofs, cs, ds, L.cOff[i], L.dOff[i], L.cSize[i], L.dSize[i]);
            } else {
                if (co != ZSTD_SEEKABLE_FRAMEINDEX_TOOLARGE || dofs != ZSTD_SEEKABLE_FRAMEINDEX_TOOLARGE) vx_fail("offset accessor for frame index %u (numFrames %u) does not return FRAMEINDEX_TOOLARGE", i, nf);
                if (!ZSTD_isError(cs) || !ZSTD_isError(ds) || !ZSTD_isError(ds2) || !ZSTD_isError(cs2)) vx_fail("size accessor for frame index %u (numFrames %u) does not return an error", i, nf);
            }
        }
        for (int o = 0; o < n && !vx_failed; o++) { unsigned fi = ZSTD_seekable_offsetToFrameIndex(zs, (unsigned long long)o); if (fi >= nf || L.dOff[fi] > (size_t)o || L.dOff[fi] + L.dSize[fi] <= (size_t)o) vx_fail("offsetToFrameIndex(%d) = %u, not the frame holding that byte", o, fi); }
        ZSTD_seekTable_free(st);
        close_reader(zs, fp);
        if (vx_failed) return;
        /* identical archives (many compression histories converge) have identical reader graphs: explore each (archive, access) once */
        vx_stat_add("archives_built", 1);
        if (vx_visited(vx_mix(vx_hash(g_arch, alen), (uint64_t)access + 77))) { vx_obs_u64(vx_hash(g_arch, alen)); return; }
        /* ---- closed reader graph: BFS over reader states, each reached by its shortest read history ---- */
        typedef struct { int len; int off[6], ln[6]; } hist_t;
        static hist_t queue[4096]; static uint64_t seen[4096]; int qh = 0, qt = 0, nseen = 0; long reads = 0;
        queue[qt].len = 0; qt++;
        while (qh < qt && !vx_failed) {
            hist_t H = queue[qh++];
            for (int off = 0; off <= n && !vx_failed; off++) for (int ln = 0; off + ln <= n && !vx_failed; ln++) {
                if (ln == 0 && off < n) continue;                 /* zero-length reads only at the end of content */
                zs = open_reader(access, g_arch, alen, &fp, &cf, &err);
                int bad = 0;
                for (int k = 0; k < H.len && !bad; k++) { size_t r = ZSTD_seekable_decompress(zs, g_out, (size_t)H.ln[k], (unsigned long long)H.off[k]); if (ZSTD_isError(r)) bad = 1; }
                memset(g_out, 0xEE, sizeof g_out);
                size_t r = ZSTD_seekable_decompress(zs, g_out, (size_t)ln, (unsigned long long)off); reads++;
                if (bad || ZSTD_isError(r)) vx_fail("read(offset %d, length %d) after %d earlier reads fails: %s", off, ln, H.len, ZSTD_isError(r) ? ZSTD_getErrorName(r) : "replay");
                else if (r != (size_t)ln || memcmp(g_out, g_x + off, (size_t)ln)) vx_fail("read(offset %d, length %d) after %d earlier reads returns %zu bytes / wrong bytes", off, ln, H.len, r);
                else if (g_out[ln] != 0xEE) vx_fail("read(offset %d, length %d) wrote beyond its destination", off, ln);
                else {
                    uint64_t k = reader_key(zs); int known = 0; for (int q = 0; q < nseen; q++) if (seen[q] == k) known = 1;
                    if (!known && nseen < 4096 && qt < 4096 && H.len < 6) { seen[nseen++] = k; queue[qt] = H; queue[qt].off[H.len] = off; queue[qt].ln[H.len] = ln; queue[qt].len = H.len + 1; qt++; }
                }
                close_reader(zs, fp);
            }
        }
        vx_stat_add("reader_states", nseen + 1); vx_stat_add("reads", reads); vx_stat_max("frames_max", (long)L.n);
        vx_obs_u64(vx_hash(g_arch, alen)); vx_obs_u64((uint64_t)nseen); if (L.n > 1) vx_nontrivial();
        if (vx_want_sample()) vx_sample("content%d n=%d maxFrame=%u ck=%d in=%zu out=%zu endPattern=%d access=%d: archive %zu bytes, %zu frames, %d reader states, %ld reads", kind, n, mfs, ck, inch, outc, endPat, access, alen, L.n, nseen + 1, reads);
        /* a failing read callback is an error, not a crash */
        if (access == 2) for (int fa = 1; fa <= 6 && !vx_failed; fa++) {
            cf_t cf2; memset(&cf2, 0, sizeof cf2); cf2.failAt = fa; zs = open_reader(2, g_arch, alen, &fp, &cf2, &err);
            if (!ZSTD_isError(err)) { size_t r = ZSTD_seekable_decompress(zs, g_out, (size_t)n, 0); if (!ZSTD_isError(r) && (r != (size_t)n || memcmp(g_out, g_x, (size_t)n))) vx_fail("read after an I/O failure returns wrong data as success"); }
            close_reader(zs, fp);
        }
    } else {
        /* ---- every single-byte substitution and truncation of the archive (each distinct archive once) ---- */
        if (access == 1) { vx_obs_u64(1); return; }
        if (vx_visited(vx_mix(vx_hash(g_arch, alen), (uint64_t)access + 991))) { vx_obs_u64(vx_hash(g_arch, alen)); return; }
        long nm = 0, nacc = 0;
        for (size_t p = 0; p <= alen && !vx_failed; p++) for (int k = 0; k < (p == alen ? 1 : 4) && !vx_failed; k++) {
            size_t ml = alen; memcpy(g_mut, g_arch, alen);
            if (p == alen) { if (alen < 2) continue; ml = alen - 1 - (size_t)(vx_n % 3); } else g_mut[p] = k == 0 ? (u8)(g_mut[p] ^ 0x01) : k == 1 ? (u8)(g_mut[p] ^ 0x80) : k == 2 ? 0 : 0xFF;
            if (ml == alen && g_mut[p] == g_arch[p]) continue;
            u8* exact = (u8*)malloc(ml ? ml : 1); memcpy(exact, g_mut, ml);
            ZSTD_seekable* zs = open_reader(access == 1 ? 0 : access, exact, ml, &fp, &cf, &err); nm++;
            if (!ZSTD_isError(err)) {
                unsigned nf = ZSTD_seekable_getNumFrames(zs);
                for (unsigned i = 0; i <= nf + 1 && i < 100; i++) { (void)ZSTD_seekable_getFrameCompressedOffset(zs, i); (void)ZSTD_seekable_getFrameDecompressedSize(zs, i); (void)ZSTD_seekable_getFrameCompressedSize(zs, i); }
                u8* dst = (u8*)malloc((size_t)n + 1);
                for (int off = 0; off < n; off += (n > 8 ? 5 : 1)) {
                    size_t r = ZSTD_seekable_decompress(zs, dst, (size_t)(n - off), (unsigned long long)off);
                    if (!ZSTD_isError(r)) { nacc++; if (r > (size_t)(n - off)) vx_fail("corrupted archive: read returns %zu > requested %d", r, n - off);
                        else if (ck && p < L.cOff[L.n] && (r != (size_t)(n - off) || memcmp(dst, g_x + off, r))) {   /* damage inside the frames; a seek table with other sizes is a different, well-formed table */
                            /* with checksums on, wrong data must not be reported as success - unless the damage only shortened the table so that the read legitimately ends earlier */
                            if (r == (size_t)(n - off)) vx_fail("corrupted archive (byte %zu) with checksums: read(offset %d) succeeds with wrong bytes", p, off); } }
                }
                free(dst);
            }
            close_reader(zs, fp); free(exact);
        }
        vx_stat_add("mutants", nm); vx_stat_add("mutant_reads_accepted", nacc); vx_obs_u64(vx_hash(g_arch, alen)); vx_nontrivial();
    }
}

int main(int argc, char** argv) { return vx_main(argc, argv, init, body); }
