/* C03: decoding untrusted bytes.  Every single-byte substitution and every truncation of each seed (catalogue
 * frames, compressor output, legacy frames, dictionaries) through every decode / inspection entry point, with
 * exactly-sized heap buffers so that ASan redzones abut; plus exhaustive short tails after a valid prefix. */
#include "catalogue.h"
#include "zstd_decompress_internal.h"   /* ZSTD_NO_FORWARD_PROGRESS_MAX is internal; we only use the public bound 16 */
#include "zbuff.h"

static int g_stride, g_maxlen, g_mode, g_allvals;
static u8 g_rawdict[512];
static long n_decodes, n_accepted;
static int* g_sel; static int g_nsel;

static void init(void) {
    g_stride = (int)vx_opt_int("--stride", 8); g_maxlen = (int)vx_opt_int("--maxlen", 300); g_mode = (int)vx_opt_int("--mode", 0); g_allvals = (int)vx_opt_int("--allvals", 64);
    load_catalogue(vx_opt("--cat", "build/catalogue-quick.bin"));
    { const char* extra = vx_opt("--extra", NULL); if (extra) load_catalogue(extra); }
    add_compressor_streams();
    for (int i = 0; i < g_nrec; i++) if (g_rec[i].clen + 64 > g_ample) g_ample = g_rec[i].clen + 64;
    g_tmp = (u8*)malloc(g_ample);
    fill_text(g_rawdict, sizeof g_rawdict, 5);
    /* every stride-th record, plus always: the compressor-made streams, the legacy seeds and the families built for a specific decoder shortcut */
    g_sel = (int*)malloc(sizeof(int) * (size_t)g_nrec);
    /* --sel 1: only the special families (their own unit, so that they are never the part a deadline cuts off); --sel 2: only the strided catalogue; 0: both */
    int selMode = (int)vx_opt_int("--sel", 0);
    for (int i = 0; i < g_nrec; i++) {
        int special = !strncmp(g_rec[i].name, "rawtail", 7) || !strncmp(g_rec[i].name, "legacy", 6) || !strncmp(g_rec[i].name, "hdr cks", 7) || !strncmp(g_rec[i].name, "compressor", 10) || strstr(g_rec[i].name, "rle blocks=") != NULL;
        int strided = (i % g_stride == 0) && !special;
        if ((special && selMode != 2) || (strided && selMode != 1)) g_sel[g_nsel++] = i;
    }
}

#define CHECK_RET(what, r, cap) do { if (!ZSTD_isError(r) && (r) > (cap)) { vx_fail("%s returned %zu > capacity %zu", what, (size_t)(r), (size_t)(cap)); return 1; } } while (0)

/* run every entry point on `in[0..n)`; buffers are exact-size heap copies; returns 1 after vx_fail */
static int run_all(const u8* in0, size_t n, const u8* dict, size_t dictLen, size_t expectLen) {
    u8* in = (u8*)malloc(n ? n : 1); if (n) memcpy(in, in0, n);
    size_t caps[4] = { 0, expectLen, expectLen ? expectLen - 1 : 0, expectLen + 1000 };
    int rc = 0;
    for (int ci = 0; ci < 4 && !rc; ci++) {
        size_t cap = caps[ci]; u8* dst = (u8*)malloc(cap ? cap : 1);
        size_t r = ZSTD_decompress(dst, cap, in, n); n_decodes++; if (!ZSTD_isError(r)) n_accepted++;
        if (!ZSTD_isError(r) && r > cap) { vx_fail("ZSTD_decompress returned %zu > capacity %zu", r, cap); rc = 1; }
        if (!rc && ci >= 2) {
            ZSTD_DCtx* d = ZSTD_createDCtx();
            r = ZSTD_decompress_usingDict(d, dst, cap, in, n, dict ? dict : g_rawdict, dict ? dictLen : sizeof g_rawdict); n_decodes++;
            if (!ZSTD_isError(r) && r > cap) { vx_fail("decompress_usingDict returned %zu > capacity %zu", r, cap); rc = 1; }
            if (!rc && dict) { ZSTD_DDict* dd = ZSTD_createDDict(dict, dictLen); if (dd) { r = ZSTD_decompress_usingDDict(d, dst, cap, in, n, dd); n_decodes++; if (!ZSTD_isError(r) && r > cap) { vx_fail("usingDDict returned %zu > capacity", r); rc = 1; } ZSTD_freeDDict(dd); } }
            /* buffer-less */
            if (!rc) {
                ZSTD_decompressBegin(d); size_t pos = 0, opos = 0;
                for (int it = 0; it < 100000; it++) {
                    size_t need = ZSTD_nextSrcSizeToDecompress(d); if (need == 0 || need > n - pos) break;
                    size_t g = ZSTD_decompressContinue(d, dst + opos, cap - opos, in + pos, need); n_decodes++;
                    if (ZSTD_isError(g)) break; if (g > cap - opos) { vx_fail("decompressContinue produced %zu > remaining capacity %zu", g, cap - opos); rc = 1; break; }
                    pos += need; opos += g;
                }
            }
            ZSTD_freeDCtx(d);
        }
        free(dst);
    }
    /* streaming: whole, byte-by-byte, split at the middle; small and ample output; zero-progress watchdog */
    for (int seg = 0; seg < 3 && !rc; seg++) for (int oc = 0; oc < 2 && !rc; oc++) {
        if (oc == 0 && expectLen > 700) continue;          /* 1-byte outputs for large contents would only cost time */
        ZSTD_DCtx* d = ZSTD_createDCtx(); if (dict) ZSTD_DCtx_loadDictionary(d, dict, dictLen);
        size_t cap = oc ? expectLen + 1000 : 1; u8* dst = (u8*)malloc(cap);
        size_t pos = 0; int idle = 0;
        for (long it = 0; it < 4000000; it++) {
            size_t give = seg == 0 ? n - pos : seg == 1 ? (pos < n ? 1 : 0) : (pos < n / 2 ? n / 2 - pos : n - pos);
            ZSTD_inBuffer ib = { in + pos, give, 0 }; ZSTD_outBuffer ob = { dst, cap, 0 };
            size_t r = ZSTD_decompressStream(d, &ob, &ib); n_decodes++;
            if (ZSTD_isError(r)) break;
            if (ib.pos > ib.size || ob.pos > ob.size) { vx_fail("decompressStream moved a position beyond its buffer"); rc = 1; break; }
            pos += ib.pos;
            if (ib.pos == 0 && ob.pos == 0) { if (++idle > 40) { if (give > 0) { vx_fail("decompressStream makes no progress and reports no error over 40 calls with input available"); rc = 1; } break; } } else idle = 0;
            if (r == 0 && pos >= n) break;
            if (pos >= n && ob.pos == 0) break;
        }
        free(dst); ZSTD_freeDCtx(d);
    }
    /* inspectors */
    if (!rc) {
        ZSTD_frameHeader fh; size_t r;
        r = ZSTD_getFrameHeader(&fh, in, n); (void)r;
        r = ZSTD_getFrameHeader_advanced(&fh, in, n, ZSTD_f_zstd1_magicless); (void)r;
        r = ZSTD_findFrameCompressedSize(in, n); if (!ZSTD_isError(r) && r > n) { vx_fail("findFrameCompressedSize %zu > input %zu", r, n); rc = 1; }
        (void)ZSTD_decompressBound(in, n); (void)ZSTD_getFrameContentSize(in, n); (void)ZSTD_findDecompressedSize(in, n); (void)ZSTD_getDictID_fromFrame(in, n);
        (void)ZSTD_isFrame(in, n); (void)ZSTD_isSkippableFrame(in, n); (void)ZSTD_decompressionMargin(in, n); (void)ZSTD_frameHeaderSize(in, n);
        { u8* sk = (u8*)malloc(64); unsigned mv = 0; r = ZSTD_readSkippableFrame(sk, 64, &mv, in, n); if (!ZSTD_isError(r) && r > 64) { vx_fail("readSkippableFrame returned %zu > 64", r); rc = 1; } free(sk); }
        n_decodes += 10;
    }
    /* block-level API on the bytes after the header */
    if (!rc && n > 9) {
        ZSTD_DCtx* d = ZSTD_createDCtx(); ZSTD_decompressBegin(d);
        size_t cap = expectLen + 64; u8* dst = (u8*)malloc(cap);
        size_t r = ZSTD_decompressBlock(d, dst, cap, in + 9, n - 9); n_decodes++;
        if (!ZSTD_isError(r) && r > cap) { vx_fail("decompressBlock returned %zu > capacity", r); rc = 1; }
        free(dst); ZSTD_freeDCtx(d);
    }
    /* deprecated ZBUFF streaming decoder */
    if (!rc) {
        ZBUFF_DCtx* z = ZBUFF_createDCtx(); ZBUFF_decompressInit(z);
        size_t cap = expectLen + 64; u8* dst = (u8*)malloc(cap); size_t pos = 0;
        for (int it = 0; it < 100000; it++) { size_t dl = cap, sl = n - pos; size_t r = ZBUFF_decompressContinue(z, dst, &dl, in + pos, &sl); n_decodes++; if (ZSTD_isError(r)) break; if (dl > cap || sl > n - pos) { vx_fail("ZBUFF moved beyond its buffers"); rc = 1; break; } pos += sl; if ((!sl && !dl) || r == 0) break; }
        free(dst); ZBUFF_freeDCtx(z);
    }
    free(in);
    return rc;
}

static void body(void) {
    if (g_mode == 1) {
        /* exhaustive short tails: a valid magic (or a valid header) followed by every 2-byte value and a choice of third bytes */
        int lostep = (int)vx_opt_int("--lostep", 1); int hi = vx_choose(256), lo = vx_choose(256 / lostep) * lostep + (hi % lostep), pre = vx_choose(3);
        vx_label("tails prefix%d ;; hi=%02x lo=%02x", pre, hi, lo);
        static const u8 P0[] = {0x28, 0xB5, 0x2F, 0xFD}, P1[] = {0x28, 0xB5, 0x2F, 0xFD, 0x00, 0x58}, P2[] = {0x28, 0xB5, 0x2F, 0xFD, 0x24, 0x05};
        const u8* P = pre == 0 ? P0 : pre == 1 ? P1 : P2; size_t pl = pre == 0 ? 4 : 6;
        u8 buf[16]; memcpy(buf, P, pl);
        for (int t = 0; t < 256; t += (vx_thorough ? 1 : 17)) {
            buf[pl] = (u8)hi; buf[pl + 1] = (u8)lo; buf[pl + 2] = (u8)t; buf[pl + 3] = 0x01; buf[pl + 4] = 0x00;
            for (size_t len = pl + 2; len <= pl + 5; len += (t ? 3 : 1)) {
                /* light set of entry points: one-shot at two capacities, streaming, frame walk */
                u8* in = (u8*)malloc(len); memcpy(in, buf, len);
                for (int ci = 0; ci < 2; ci++) { size_t cap = ci ? 300 : 0; u8* dst = (u8*)malloc(cap + 1); size_t r = ZSTD_decompress(dst, cap, in, len); n_decodes++; if (!ZSTD_isError(r)) n_accepted++; if (!ZSTD_isError(r) && r > cap) { vx_fail("ZSTD_decompress returned %zu > capacity %zu", r, cap); } free(dst); }
                { ZSTD_DCtx* d = ZSTD_createDCtx(); u8* dst = (u8*)malloc(300); ZSTD_inBuffer ib = { in, len, 0 }; size_t r = 1; int it = 0, idle = 0;
                  /* a short input can legitimately regenerate a lot (a run-length block): only calls WITHOUT progress count against the decoder */
                  while (!ZSTD_isError(r) && r != 0 && it++ < 100000 && idle < 40) { size_t ipos = ib.pos; ZSTD_outBuffer ob = { dst, 300, 0 }; r = ZSTD_decompressStream(d, &ob, &ib); n_decodes++; if (ib.pos == ib.size && ob.pos == 0) break; idle = (ib.pos == ipos && ob.pos == 0) ? idle + 1 : 0; }
                  if (idle >= 40 || it >= 100000) vx_fail("decompressStream makes no progress and reports no error on a %zu-byte input (%d calls)", len, it);
                  free(dst); ZSTD_freeDCtx(d); }
                (void)ZSTD_findFrameCompressedSize(in, len); (void)ZSTD_decompressBound(in, len); (void)ZSTD_getFrameContentSize(in, len);
                free(in);
                if (vx_failed) return;
            }
        }
        vx_obs_u64((uint64_t)((hi * 256 + lo) * 4 + pre)); vx_obs_u64((uint64_t)n_accepted); vx_nontrivial(); vx_stat_add("decodes", n_decodes); vx_stat_add("mutants_accepted", n_accepted); n_decodes = n_accepted = 0;
        return;
    }
    if (g_mode == 2) {
        /* valid frames whose last block keeps raw literals followed by a sequences section of every small size, with every
         * length of the last literal run: the decoder may reference such literals in place only when enough readable
         * bytes follow them inside the input (wildcopy over-length) - input buffers are exact-size heap copies */
        int k = 1 + vx_choose(26), L = vx_choose(110), t = vx_choose(3), ck = vx_choose(2);
        vx_label("rawlit k=%d L=%d tail=%d ck=%d", k, L, t, ck);
        static u8 src[4096], frame[8192]; size_t n = 0; uint32_t s = 7;
        for (int i = 0; i < 64; i++) { s = s * 1103515245u + 12345u; src[n++] = (u8)(s >> 16); }
        for (int i = 0; i < k - 1; i++) { s = s * 1103515245u + 12345u; src[n++] = (u8)(s >> 16); src[n++] = (u8)(s >> 8); memcpy(src + n, src + 3 + (i * 5) % 50, 5 + (size_t)(i % 3)); n += 5 + (size_t)(i % 3); }
        for (int i = 0; i < L; i++) { s = s * 1103515245u + 12345u; src[n++] = (u8)(s >> 16); }
        memcpy(src + n, src + 10, 7); n += 7;
        for (int i = 0; i < (t == 0 ? 0 : t == 1 ? 1 : 5); i++) { s = s * 1103515245u + 12345u; src[n++] = (u8)(s >> 16); }
        ZSTD_CCtx* c = ZSTD_createCCtx(); ZSTD_CCtx_setParameter(c, ZSTD_c_compressionLevel, 1); ZSTD_CCtx_setParameter(c, ZSTD_c_literalCompressionMode, ZSTD_ps_disable);
        ZSTD_CCtx_setParameter(c, ZSTD_c_checksumFlag, ck); ZSTD_CCtx_setParameter(c, ZSTD_c_minMatch, 4);
        size_t fl = ZSTD_compress2(c, frame, sizeof frame, src, n); ZSTD_freeCCtx(c);
        if (ZSTD_isError(fl)) { vx_fail("setup compression failed"); return; }
        run_all(frame, fl, NULL, 0, n);
        vx_obs_u64(vx_hash(frame, fl)); vx_nontrivial(); vx_stat_add("decodes", n_decodes); n_decodes = n_accepted = 0;
        return;
    }
    int idx = g_sel[vx_choose(g_nsel)];
    const rec_t* r = &g_rec[idx];
    /* --parts N: the byte positions of a record are dealt to N executions (position mod N), so that no single execution is long */
    int nparts = (int)vx_opt_int("--parts", 1), part = nparts > 1 ? vx_choose(nparts) : 0;
    if (nparts > 1) vx_label("rec#%d part%d/%d %s ;; len=%zu content=%zu dict=%zu", idx, part, nparts, r->name, r->flen, r->clen, r->dlen);
    else vx_label("rec#%d %s ;; len=%zu content=%zu dict=%zu", idx, r->name, r->flen, r->clen, r->dlen);
    int synth = !strncmp(r->name, "legacy-synth", 12);      /* hand-built legacy frames up to 9 KB: intact, truncations and thinned substitutions */
    if ((int)r->flen > g_maxlen && !synth) { vx_obs_u64(1); return; }
    u8* mut = (u8*)malloc(r->flen + 1);
    const u8* dict = r->dlen ? r->dict : NULL;
    /* intact, every truncation, every single-byte substitution */
    if (run_all(r->frame, r->flen, dict, r->dlen, r->clen)) goto done;
    int family = !strncmp(r->name, "rawtail", 7) || r->clen > 4096 || synth;      /* ~800 near-identical frames, and frames regenerating a lot: intact decode, truncations, thinned substitutions */
    for (size_t k = 0; k < r->flen; k += (synth && k > 24 && k + 48 < r->flen ? 263 : !strncmp(r->name, "rawtail", 7) && k >= 10 && k + 64 < r->flen ? 32 : family && k + 48 < r->flen ? 8 : 1)) if ((int)(k % (size_t)nparts) == part && run_all(r->frame, k, dict, r->dlen, r->clen)) goto done;
    int rawtail = !strncmp(r->name, "rawtail", 7);      /* ~800 near-identical frames that differ in their last bytes: header and tail positions only */
    for (size_t p = 0; p < r->flen; p += (synth && p > 24 && p + 48 < r->flen ? 521 : rawtail && p >= 10 && p + 64 < r->flen ? 64 : family && p + 48 < r->flen ? 16 : 1)) {
        if ((int)(p % (size_t)nparts) != part) continue;
        int all = (int)r->flen <= g_allvals;
        static const int few[] = {0x01, 0x80, 0xFF, 0x7F, 0x10, 0xFE, 0x02};
        for (int k = 0; k < (all ? 255 : 7); k++) {
            memcpy(mut, r->frame, r->flen);
            if (all) mut[p] = (u8)(mut[p] + 1 + k); else if (k < 4) mut[p] ^= (u8)few[k]; else if (k == 4) mut[p] = 0; else if (k == 5) mut[p] = 0xFF; else mut[p] = (u8)(mut[p] + 1);
            if (mut[p] == r->frame[p]) continue;
            if (run_all(mut, r->flen, dict, r->dlen, r->clen)) goto done;
        }
    }
    /* corrupted dictionary with the intact frame (decoder side of "arbitrary bytes as a dictionary") */
    if (r->dlen && r->dlen <= 600 && part == 0) {
        u8* dm = (u8*)malloc(r->dlen);
        for (size_t p = 0; p < r->dlen && p < 200; p++) for (int k = 0; k < 3; k++) {
            memcpy(dm, r->dict, r->dlen); dm[p] = k == 0 ? (u8)(dm[p] ^ 0x80) : k == 1 ? 0 : 0xFF; if (dm[p] == r->dict[p]) continue;
            if (run_all(r->frame, r->flen, dm, r->dlen, r->clen)) { free(dm); goto done; }
        }
        free(dm);
    }
    vx_obs_u64((uint64_t)idx); vx_obs_u64((uint64_t)n_accepted);
    if (n_decodes > 1000) vx_nontrivial();
    if (vx_want_sample()) vx_sample("rec#%d %s: %zu bytes, %ld decodes of mutants, %ld still accepted", idx, r->name, r->flen, n_decodes, n_accepted);
done:
    vx_stat_add("decodes", n_decodes); vx_stat_add("mutants_accepted", n_accepted); n_decodes = n_accepted = 0;
    free(mut);
}

int main(int argc, char** argv) { return vx_main(argc, argv, init, body); }
