/* c19_helper — the library's verdict on a .zst file, for the C19 oracle.
 *   c19_helper [-D dict] in.zst [out]          library verdict + decoded bytes
 *   c19_helper -c [-D dict] in out             make a test input: one frame, level 3, checksum (so inputs do not come from the CLI under test)
 * Walks every frame of `in` with ZSTD_decompressStream (skippable frames included), writes the decoded bytes to
 * `out` (if given) and prints one line:  ACCEPT <decoded bytes> <frames>   or   REJECT <reason> <decoded bytes so far>.
 * Reject = any library error, input ending inside a frame (truncation), bytes after the last complete frame that do
 * not start a frame (trailing garbage -> library error on the next header), or no frame at all (empty input).
 * Exit status: 0 accept, 1 reject, 2 usage / I/O error.
 */
#include <stdio.h>
#include <stdlib.h>
#include <string.h>
#include "zstd.h"

static void* slurp(const char* path, size_t* n) {
    FILE* f = fopen(path, "rb"); char* b; long sz;
    if (!f) { perror(path); exit(2); }
    fseek(f, 0, SEEK_END); sz = ftell(f); fseek(f, 0, SEEK_SET);
    b = malloc((size_t)sz + 1);
    if (!b || fread(b, 1, (size_t)sz, f) != (size_t)sz) { fprintf(stderr, "read error %s\n", path); exit(2); }
    fclose(f); *n = (size_t)sz; return b;
}

int main(int argc, char** argv) {
    const char *dict = NULL, *in = NULL, *out = NULL; int i, cmode = 0;
    for (i = 1; i < argc; i++) {
        if (!strcmp(argv[i], "-D") && i + 1 < argc) dict = argv[++i];
        else if (!strcmp(argv[i], "-c")) cmode = 1;
        else if (!in) in = argv[i];
        else out = argv[i];
    }
    if (!in) { fprintf(stderr, "usage: c19_helper [-c] [-D dict] in [out]\n"); return 2; }
    size_t n, dn = 0; void* src = slurp(in, &n); void* d = dict ? slurp(dict, &dn) : NULL;
    if (cmode) {   /* generate a test input: one frame, level 3, checksum, optional dictionary (independent of the CLI under test) */
        ZSTD_CCtx* cctx = ZSTD_createCCtx(); size_t const cap = ZSTD_compressBound(n); void* cb = malloc(cap); size_t r;
        ZSTD_CCtx_setParameter(cctx, ZSTD_c_compressionLevel, 3);
        ZSTD_CCtx_setParameter(cctx, ZSTD_c_checksumFlag, 1);
        if (d && ZSTD_isError(ZSTD_CCtx_loadDictionary(cctx, d, dn))) return 2;
        r = ZSTD_compress2(cctx, cb, cap, src, n);
        if (ZSTD_isError(r) || !out) { fprintf(stderr, "compress: %s\n", ZSTD_getErrorName(r)); return 2; }
        FILE* f = fopen(out, "wb");
        if (!f || fwrite(cb, 1, r, f) != r || fclose(f)) { perror(out); return 2; }
        printf("COMPRESSED %zu\n", r);
        return 0;
    }
    ZSTD_DCtx* dctx = ZSTD_createDCtx();
    ZSTD_DCtx_setParameter(dctx, ZSTD_d_windowLogMax, 31);
    if (d) { size_t r = ZSTD_DCtx_loadDictionary(dctx, d, dn); if (ZSTD_isError(r)) { printf("REJECT dict:%s 0\n", ZSTD_getErrorName(r)); return 1; } }
    FILE* fo = out ? fopen(out, "wb") : NULL;
    if (out && !fo) { perror(out); return 2; }
    size_t const ocap = ZSTD_DStreamOutSize(); void* obuf = malloc(ocap);
    ZSTD_inBuffer ib = { src, n, 0 };
    unsigned long long total = 0; unsigned frames = 0; size_t ret = 0; const char* why = NULL;
    if (n == 0) why = "empty-input";
    while (!why) {
        ZSTD_outBuffer ob = { obuf, ocap, 0 };
        size_t const before = ib.pos;
        ret = ZSTD_decompressStream(dctx, &ob, &ib);
        if (ZSTD_isError(ret)) { why = ZSTD_getErrorName(ret); break; }
        if (ob.pos && fo && fwrite(obuf, 1, ob.pos, fo) != ob.pos) { perror("write"); return 2; }
        total += ob.pos;
        if (ret == 0) { frames++; if (ib.pos == ib.size) break; continue; }   /* frame done; more input => next frame */
        if (ib.pos == ib.size && ob.pos < ob.size) { why = "truncated-input"; break; }   /* needs more, none left, output flushed */
        if (ib.pos == before && ob.pos == 0) { why = "no-progress"; break; }
    }
    if (fo && fclose(fo)) { perror("close"); return 2; }
    if (why) { printf("REJECT %s %llu\n", why, total); return 1; }
    printf("ACCEPT %llu %u\n", total, frames);
    return 0;
}
