/* C15: correctness does not wear out.  Build: ZSTD_WINDOW_OVERFLOW_CORRECT_FREQUENTLY=1 and lowered
 * ZSTD_CURRENT_MAX / ZSTD_INDEXOVERFLOW_MARGIN (verification hook), so index rebasing and the "index too close
 * to max" reset are reached with a few hundred KB.  All histories of <= d frames on one context; every frame
 * round-trips, conforms (reference decoder) and equals the fresh-context output. */
#include "common.h"
#include "zstd_compress_internal.h"

#define SRCMAX (400u << 10)
static u8 *g_src, *g_dst, *g_ref, *g_out, *g_scratch, *g_dict; static int g_depth, g_mode;

static void init(void) {
    g_depth = (int)vx_opt_int("--depth", 3); g_mode = (int)vx_opt_int("--mode", 0);
    g_src = (u8*)malloc(SRCMAX); g_dst = (u8*)malloc(ZSTD_compressBound(SRCMAX)); g_ref = (u8*)malloc(ZSTD_compressBound(SRCMAX)); g_out = (u8*)malloc(SRCMAX + 64); g_scratch = (u8*)malloc(SRCMAX + 64); g_dict = (u8*)malloc(4096);
    fill_text(g_dict, 4096, 55);
}
static size_t make(int shape, size_t n, u8* p) {
    switch (shape) {
    case 0: fill_text(p, n, 3); break;
    case 1: fill_noise(p, n, 4); for (size_t i = 600; i + 80 < n; i += 1500) memcpy(p + i, p + i - 511, 80); break;
    case 2: memset(p, 'k', n); for (size_t i = 1023; i < n; i += 1024) p[i] = (u8)(i >> 10); break;
    case 3: fill_text(p, n, 8); for (size_t i = 5000; i + 3000 < n; i += 9000) memcpy(p + i, p + i - 4097, 3000); break;
    case 4: for (size_t i = 0; i < n; i++) p[i] = (u8)((i * 13 + (i >> 7)) & 0x7f); break;
    case 5: { fill_noise(p, n < 4096 ? n : 4096, 12); for (size_t i = 4096; i < n; i++) p[i] = p[i - 4096]; for (size_t i = 5000; i < n; i += 1371) p[i] = (u8)(i >> 4); break; }   /* one 4 KiB record again and again, a few bytes edited per copy: the long-distance matcher's food */
    default: {   /* ring-resonant records: every 1792-byte stretch (the flushed chunk of api 4) is 28 records of 32 bytes (8-byte token that depends only on the
                  * record's rank + 24 fresh bytes) followed by a copy of those 28 records.  With a flush after every such chunk the streaming ring restarts
                  * less than one block after the window size, so the bytes of an old chunk are overwritten by a chunk with the same tokens at the same
                  * places and new payloads: an index entry that outlives its bytes compares equal to the new data and decodes to the old */
        uint32_t sd = 9;
        for (size_t i = 0; i + 1792 <= n; i += 1792) { for (size_t r = 0; r < 28; r++) { u8* rec = p + i + r * 32;
                for (int k = 0; k < 8; k++) rec[k] = (u8)(0x80 | ((r * 37 + (size_t)k * 11) & 0x7f));
                for (int k = 8; k < 32; k++) { sd = sd * 1103515245u + 12345u; rec[k] = (u8)(sd >> 16); } }
            memcpy(p + i + 896, p + i, 896); }
        for (size_t i = n - n % 1792; i < n; i++) p[i] = 'x';
        break; }
    }
    return n;
}
typedef struct { int shape, size, strat, api; } op_t;     /* api: 0 compress2, 1 streaming chunks, 2 with prefix, 3 LDM, 4 streaming with a flush after every 1792-byte chunk */
static const size_t SIZES[] = {1024, 20000, 300000};
static size_t run_op(ZSTD_CCtx* c, const op_t* o, u8* dst, size_t* srcLen) {
    size_t n = make(o->shape, SIZES[o->size], g_src); *srcLen = n;
    u8* const X = (u8*)malloc(n ? n : 1); memcpy(X, g_src, n);      /* the compressor reads from an allocation of exactly the input size */
    size_t ret;
    ZSTD_CCtx_reset(c, ZSTD_reset_session_and_parameters);
    ZSTD_CCtx_setParameter(c, ZSTD_c_strategy, o->strat); ZSTD_CCtx_setParameter(c, ZSTD_c_windowLog, 10 + (o->strat % 3) * 3); ZSTD_CCtx_setParameter(c, ZSTD_c_hashLog, 8 + o->strat % 4); ZSTD_CCtx_setParameter(c, ZSTD_c_chainLog, 8 + o->strat % 3);
    ZSTD_CCtx_setParameter(c, ZSTD_c_searchLog, 2); ZSTD_CCtx_setParameter(c, ZSTD_c_minMatch, o->strat >= 6 ? 3 : 4); ZSTD_CCtx_setParameter(c, ZSTD_c_checksumFlag, 1);
    if (o->api == 2) ZSTD_CCtx_refPrefix(c, g_dict, 4096);
    if (o->api == 3) { ZSTD_CCtx_setParameter(c, ZSTD_c_enableLongDistanceMatching, ZSTD_ps_enable); ZSTD_CCtx_setParameter(c, ZSTD_c_ldmHashLog, 8); ZSTD_CCtx_setParameter(c, ZSTD_c_ldmHashRateLog, 2); ZSTD_CCtx_setParameter(c, ZSTD_c_windowLog, 16); }
    if (o->api != 1 && o->api != 4) { ret = ZSTD_compress2(c, dst, ZSTD_compressBound(n), X, n); free(X); return ret; }
    /* api 4: every chunk is flushed, at positions that are not block-aligned: the internal input ring wraps in the middle of blocks */
    ZSTD_outBuffer out = { dst, ZSTD_compressBound(n), 0 }; size_t pos = 0, chunk = o->api == 4 ? 1792 : 7777;
    for (;;) { size_t end = pos + chunk > n ? n : pos + chunk; ZSTD_inBuffer in = { X, end, pos }; ZSTD_EndDirective dir = end == n ? ZSTD_e_end : (o->api == 4 ? ZSTD_e_flush : ZSTD_e_continue); size_t r;
        do { r = ZSTD_compressStream2(c, &out, &in, dir); if (ZSTD_isError(r)) { free(X); return r; } } while (dir != ZSTD_e_continue && r != 0);
        pos = in.pos; if (end == n) break; }
    free(X); return out.pos;
}

static void body_compress(void) {
    int len = 1 + vx_choose(g_depth); op_t ops[6];
    for (int i = 0; i < len; i++) { ops[i].shape = vx_choose(7); ops[i].size = vx_deviate(3); if (i < len - 1 && ops[i].size == 0) ops[i].size = 2; ops[i].strat = 1 + vx_choose(9); ops[i].api = vx_deviate(5); }
    char hs[200] = ""; size_t ho = 0; for (int i = 0; i < len; i++) ho += snprintf(hs + ho, sizeof hs - ho, "(s%d,%zuK,strat%d,api%d) ", ops[i].shape, SIZES[ops[i].size] >> 10, ops[i].strat, ops[i].api);
    vx_label("%s", hs);
    ZSTD_CCtx* c = ZSTD_createCCtx(); long corrections = 0;
    for (int i = 0; i < len && !vx_failed; i++) {
        size_t n, r = run_op(c, &ops[i], g_dst, &n);
        if (ZSTD_isError(r)) { vx_fail("frame %d of the history fails: %s", i + 1, ZSTD_getErrorName(r)); break; }
        corrections = (long)c->blockState.matchState.window.nbOverflowCorrections;
        /* round trip */
        size_t d; { ZSTD_DCtx* dc = ZSTD_createDCtx(); if (ops[i].api == 2) ZSTD_DCtx_refPrefix(dc, g_dict, 4096); d = ZSTD_decompressDCtx(dc, g_out, SRCMAX, g_dst, r); ZSTD_freeDCtx(dc); }
        if (ZSTD_isError(d) || d != n || memcmp(g_out, g_src, n)) { vx_fail("frame %d of the history does not round trip (%s)", i + 1, ZSTD_isError(d) ? ZSTD_getErrorName(d) : "content"); break; }
        /* conformance with the reference decoder (window rule after rebasing) */
        refcheck_t rc; rc_init(&rc); rc.interop = 1; rc.expectChecksum = 1;
        if (ref_check(&rc, g_dst, r, ops[i].api == 2 ? g_dict : NULL, ops[i].api == 2 ? 4096 : 0, g_src, n, g_scratch, SRCMAX)) { vx_fail("frame %d of the history: %s", i + 1, rc.err); break; }
        /* identical to a fresh context (only worth the time for the last frame) */
        if (i == len - 1) {
            ZSTD_CCtx* f = ZSTD_createCCtx(); size_t n2, r2 = run_op(f, &ops[i], g_ref, &n2); ZSTD_freeCCtx(f);
            if (ZSTD_isError(r2) || r2 != r || memcmp(g_ref, g_dst, r)) vx_fail("frame %d of the history differs from the fresh-context output", i + 1);
        }
    }
    ZSTD_freeCCtx(c);
    vx_obs_u64(vx_hash(g_dst, 64)); vx_obs_u64((uint64_t)corrections);
    if (corrections > 0) vx_nontrivial();
    vx_stat_add("overflow_corrections_seen", corrections); vx_stat_add("frames", len);
    if (vx_want_sample()) vx_sample("%s: %ld index corrections in the last frame's window", hs, corrections);
}

/* --mode 2: a context that has already seen 1.0 - 1.1 MB (3 frames of 300 KB and 5..10 of 20 KB): with the lowered index limit of this build the next frame starts beyond
 * "too close to the maximum index" and the match state is reset pre-emptively; every (shape, size, strategy, api) as that next frame */
static void body_marathon(void) {
    static const int PRE[] = {8, 10, 13}; int pre = vx_thorough ? 8 + vx_choose(6) : PRE[vx_choose(3)], preStrat = vx_choose(2) ? 2 : 5; op_t o; o.shape = vx_choose(7); o.size = 1 + vx_choose(2); o.strat = 1 + vx_choose(9); o.api = vx_choose(5);
    vx_label("marathon 3 x 300K + %d x 20K strat%d, then (s%d,%zuK,strat%d,api%d)", pre - 3, preStrat, o.shape, SIZES[o.size] >> 10, o.strat, o.api);
    ZSTD_CCtx* c = ZSTD_createCCtx(); op_t w = { 0, 2, preStrat, 0 }; size_t n, r = 0;
    for (int i = 0; i < pre; i++) { w.shape = i % 5; w.size = i < 3 ? 2 : 1;      /* 3 x 300 KB + (5..10) x 20 KB: the index ends between the "too close" mark (995 328) and the limit (1 126 400) */
        r = run_op(c, &w, g_dst, &n); if (ZSTD_isError(r)) { vx_fail("warm-up frame %d fails: %s", i + 1, ZSTD_getErrorName(r)); ZSTD_freeCCtx(c); return; } }
    r = run_op(c, &o, g_dst, &n); long resets = (long)c->blockState.matchState.window.nbOverflowCorrections;
    if (ZSTD_isError(r)) vx_fail("frame after %d x 300 KB fails: %s", pre, ZSTD_getErrorName(r));
    else {
        size_t d; { ZSTD_DCtx* dc = ZSTD_createDCtx(); if (o.api == 2) ZSTD_DCtx_refPrefix(dc, g_dict, 4096); d = ZSTD_decompressDCtx(dc, g_out, SRCMAX, g_dst, r); ZSTD_freeDCtx(dc); }
        if (ZSTD_isError(d) || d != n || memcmp(g_out, g_src, n)) vx_fail("frame after %d x 300 KB does not round trip (%s)", pre, ZSTD_isError(d) ? ZSTD_getErrorName(d) : "content");
        else { ZSTD_CCtx* f = ZSTD_createCCtx(); size_t n2, r2 = run_op(f, &o, g_ref, &n2); ZSTD_freeCCtx(f); if (ZSTD_isError(r2) || r2 != r || memcmp(g_ref, g_dst, r)) vx_fail("frame after %d x 300 KB differs from the fresh-context output", pre); }
    }
    ZSTD_freeCCtx(c);
    vx_obs_u64(vx_hash(g_dst, 64)); vx_obs_u64((uint64_t)resets); vx_nontrivial(); vx_stat_add("frames", pre + 1);
}

static void body_decode(void) {
    /* long streams through a 1 KiB-window streaming decoder with tiny outputs: the output ring restarts many times */
    int shape = vx_choose(7), strat = 1 + vx_choose(9), ocap = vx_choose(3);
    vx_label("decode shape%d strat%d outcap%d", shape, strat, ocap);
    size_t n = make(shape, 60 * 1024, g_src);
    ZSTD_CCtx* c = ZSTD_createCCtx(); ZSTD_CCtx_setParameter(c, ZSTD_c_strategy, strat); ZSTD_CCtx_setParameter(c, ZSTD_c_windowLog, 10); ZSTD_CCtx_setParameter(c, ZSTD_c_contentSizeFlag, 0);
    ZSTD_outBuffer co = { g_dst, ZSTD_compressBound(n), 0 }; ZSTD_inBuffer ci = { g_src, n, 0 }; size_t r = ZSTD_compressStream2(c, &co, &ci, ZSTD_e_continue); r = ZSTD_compressStream2(c, &co, &ci, ZSTD_e_end); ZSTD_freeCCtx(c);
    if (ZSTD_isError(r) || r) { vx_fail("setup compression failed"); return; }
    ZSTD_DCtx* d = ZSTD_createDCtx(); ZSTD_DCtx_setParameter(d, ZSTD_d_windowLogMax, 10);
    static const size_t OC[] = {1, 7, 1000}; size_t pos = 0, opos = 0; size_t h = 1; long it = 0;
    while (!ZSTD_isError(h) && it++ < 4000000) { ZSTD_inBuffer in = { g_dst, pos + 100 > co.pos ? co.pos : pos + 100, pos }; ZSTD_outBuffer out = { g_out + opos, OC[ocap], 0 };
        h = ZSTD_decompressStream(d, &out, &in); if (ZSTD_isError(h)) break; if (in.pos == pos && out.pos == 0 && pos >= co.pos) break; pos = in.pos; opos += out.pos; if (h == 0 && pos >= co.pos) break; }
    ZSTD_freeDCtx(d);
    if (ZSTD_isError(h)) vx_fail("long stream through the 1 KiB-window decoder fails: %s", ZSTD_getErrorName(h));
    else if (opos != n || memcmp(g_out, g_src, n)) vx_fail("long stream through the 1 KiB-window decoder regenerates other bytes");
    vx_obs_u64(vx_hash(g_dst, co.pos)); vx_nontrivial(); vx_stat_add("decoder_ring_restarts_at_least", (long)(n / 4096));
}

static void body(void) { if (g_mode == 0) body_compress(); else if (g_mode == 2) body_marathon(); else body_decode(); }
int main(int argc, char** argv) { return vx_main(argc, argv, init, body); }
