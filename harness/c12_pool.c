/* C12: the real lib/common/pool.c under the deterministic scheduler, for every client program of a small
 * grammar and every schedule inside the bound.  pool.c is included textually (through the shim) so the
 * harness can read the private POOL_ctx fields for its state key; the library's own pool.o is left out of
 * the link. */
#include "vf_pthread_shim.h"
#include "common.h"
#include "vsched.h"
#undef MIN
#undef MAX
#undef ERROR
#include "pool.c"

#define MAXJ 16
#define MAXOPS 6
enum { OP_ADD, OP_ADD_POSTING, OP_TRYADD, OP_TRYADD_POSTING, OP_JOIN, OP_RESIZE1, OP_RESIZE2, OP_RESIZE3, OP_ADD_BPOSTING, NOPS };
static const char* OPN[] = {"add", "add(posting)", "tryAdd", "tryAdd(posting)", "joinJobs", "resize1", "resize2", "resize3", "add(posting by a blocking add)"};

typedef struct { int id, posting, child; } jobarg_t;
static POOL_ctx* g_pool;
static jobarg_t g_job[MAXJ];
static int g_exec[MAXJ], g_acc[MAXJ], g_done[MAXJ], g_nj;
static int g_prog[2][MAXOPS], g_nops[2], g_pc[2], g_finalJoin, g_threads, g_queue, g_nclients;
static int g_caching, g_maxops, g_maxthreads, g_spurious, g_unlockpt;
static long g_blocked_waits;

VX_HARNESS_SHARED static void job_fn(void* a) {
    jobarg_t* j = (jobarg_t*)a;
    if (++g_exec[j->id] > 1) { vx_fail("job executed more than once"); }
    if (g_acc[j->id] == 0) vx_fail("job ran although its post was refused");
    if (j->posting == 2) { g_acc[j->child] = 2; POOL_add(g_pool, job_fn, &g_job[j->child]); if (g_acc[j->child] == 2) g_acc[j->child] = 1; }
    else if (j->posting) { g_acc[j->child] = 2; int r = POOL_tryAdd(g_pool, job_fn, &g_job[j->child]); g_acc[j->child] = r ? 1 : 0; }
    g_done[j->id] = 1;
}

VX_HARNESS_SHARED static int new_job(int posting) {
    int id = g_nj++; g_job[id].id = id; g_job[id].posting = posting; g_job[id].child = -1;
    if (posting) { int c = g_nj++; g_job[c].id = c; g_job[c].posting = 0; g_job[c].child = -1; g_job[id].child = c; }
    return id;
}

VX_HARNESS_SHARED static void run_client(int who) {
    for (g_pc[who] = 0; g_pc[who] < g_nops[who]; g_pc[who]++) {
        int op = g_prog[who][g_pc[who]];
        switch (op) {
        case OP_ADD: case OP_ADD_POSTING: case OP_ADD_BPOSTING: { int j = new_job(op == OP_ADD_POSTING ? 1 : op == OP_ADD_BPOSTING ? 2 : 0); g_acc[j] = 2; POOL_add(g_pool, job_fn, &g_job[j]); if (g_acc[j] == 2) g_acc[j] = 1; break; }
        case OP_TRYADD: case OP_TRYADD_POSTING: { int j = new_job(op == OP_TRYADD_POSTING); g_acc[j] = 2; int r = POOL_tryAdd(g_pool, job_fn, &g_job[j]); g_acc[j] = r ? 1 : 0; break; }
        case OP_JOIN: {
            int before[MAXJ]; for (int j = 0; j < MAXJ; j++) before[j] = (g_acc[j] == 1);
            POOL_joinJobs(g_pool);
            for (int j = 0; j < MAXJ; j++) if (before[j] && !g_done[j]) vx_fail("joinJobs returned while a previously accepted job had not finished");
            break; }
        default: if (POOL_resize(g_pool, (size_t)(op - OP_RESIZE1 + 1))) vx_fail("resize reported failure"); break;
        }
    }
    g_pc[who] = 99;
}
VX_HARNESS_SHARED static void* client_thread(void* a) { (void)a; run_client(1); return NULL; }

static int cb_pick(int n, int kind) { return vx_pick(n, kind == 2 ? VX_PREEMPT : VX_DEV); }
static void cb_fail(const char* what) { vx_fail("%s", what); vx_abort_exec(); }
static uint64_t cb_key(void) {
    uint64_t h = 77;
    if (g_pool) {
        POOL_ctx* p = g_pool;
        h = vx_mix(h, p->queueHead); h = vx_mix(h, p->queueTail); h = vx_mix(h, p->queueSize); h = vx_mix(h, p->numThreadsBusy); h = vx_mix(h, (uint64_t)p->queueEmpty);
        h = vx_mix(h, p->threadLimit); h = vx_mix(h, p->threadCapacity); h = vx_mix(h, (uint64_t)p->shutdown);
        for (size_t i = p->queueHead; !p->queueEmpty && (i != p->queueTail || i == p->queueHead); ) {
            jobarg_t* j = (jobarg_t*)p->queue[i].opaque; h = vx_mix(h, j ? (uint64_t)(j - g_job) : 99);
            i = (i + 1) % p->queueSize; if (i == p->queueTail) break;
        }
    }
    for (int j = 0; j < MAXJ; j++) h = vx_mix(h, (uint64_t)(g_exec[j] * 16 + g_acc[j] * 4 + g_done[j]));
    h = vx_mix(h, (uint64_t)(g_pc[0] * 100 + g_pc[1])); h = vx_mix(h, (uint64_t)g_nj);
    /* the program itself is part of the state: its remaining operations decide the future */
    h = vx_mix(h, (uint64_t)(g_threads * 1000 + g_queue * 100 + g_nclients * 10 + g_finalJoin));
    for (int c = 0; c < 2; c++) { h = vx_mix(h, (uint64_t)g_nops[c]); for (int i = 0; i < g_nops[c]; i++) h = vx_mix(h, (uint64_t)g_prog[c][i]); }
    return h;
}

static void init(void) {
    g_caching = (int)vx_opt_int("--cache", 0); g_maxops = (int)vx_opt_int("--ops", 3); g_maxthreads = (int)vx_opt_int("--threads", 2);
    g_spurious = (int)vx_opt_int("--spurious", 0); g_unlockpt = (int)vx_opt_int("--unlockpt", 0);
}

VX_HARNESS_SHARED static void body(void) {
    memset(g_exec, 0, sizeof g_exec); memset(g_acc, 0, sizeof g_acc); memset(g_done, 0, sizeof g_done); g_nj = 0; g_pool = NULL;
    /* ---- the client program (free choices, all made before any thread starts) ---- */
    g_threads = 1 + vx_choose(g_maxthreads); g_queue = vx_choose(3);
    g_nclients = 1 + vx_choose(2);
    int budget = g_maxops;
    for (int c = 0; c < 2; c++) {
        g_nops[c] = 0; g_pc[c] = 0;
        if (c >= g_nclients) continue;
        int n = vx_choose(budget + 1); budget -= n; g_nops[c] = n;
        for (int i = 0; i < n; i++) g_prog[c][i] = vx_choose(NOPS);
    }
    g_finalJoin = vx_choose(2);
    char desc[200]; int o = snprintf(desc, sizeof desc, "pool(threads=%d,queue=%d) main:[", g_threads, g_queue);
    for (int i = 0; i < g_nops[0]; i++) o += snprintf(desc + o, sizeof desc - o, "%s%s", i ? "," : "", OPN[g_prog[0][i]]);
    o += snprintf(desc + o, sizeof desc - o, "] client:[");
    for (int i = 0; i < g_nops[1]; i++) o += snprintf(desc + o, sizeof desc - o, "%s%s", i ? "," : "", OPN[g_prog[1][i]]);
    snprintf(desc + o, sizeof desc - o, "]%s free", g_finalJoin ? " joinJobs" : "");
    vx_label("%s", desc);
    if (g_nclients == 2 && g_nops[1] == 0) return;       /* same program as the one-client form */
    {   /* well-formedness: a job that posts may still be running when free starts unless the program joins first;
         * posting into a pool being destroyed is client misuse, outside the property */
        int posting = 0;
        for (int c = 0; c < 2; c++) for (int i = 0; i < g_nops[c]; i++) if (g_prog[c][i] == OP_ADD_POSTING || g_prog[c][i] == OP_TRYADD_POSTING) posting = 1;
        if (posting && !g_finalJoin) return;
        /* one job may post its child with the blocking call: on an ideal pool of >= 2 threads that is never resized to 1 the other
         * thread(s) run only jobs that end, so capacity for the child always appears and the program cannot deadlock; any deadlock is
         * the implementation's (a blocked post that is not woken when one of several busy workers becomes free) */
        int bposting = 0, shrink = 0;
        for (int c = 0; c < 2; c++) for (int i = 0; i < g_nops[c]; i++) { if (g_prog[c][i] == OP_ADD_BPOSTING) bposting++; if (g_prog[c][i] == OP_RESIZE1) shrink = 1; }
        if (bposting && (bposting > 1 || shrink || g_threads < 2 || !g_finalJoin)) return;
    }

    vs_config_t cfg; memset(&cfg, 0, sizeof cfg);
    cfg.pick = cb_pick; cfg.fail = cb_fail; cfg.horizon = 20000; cfg.spurious = g_spurious; cfg.unlock_is_point = g_unlockpt;
    if (g_caching) { cfg.statekey = cb_key; cfg.visited = vx_visited; }
    vs_begin(&cfg);
    g_pool = POOL_create((size_t)g_threads, (size_t)g_queue);
    if (!g_pool) { vx_fail("POOL_create failed"); vx_abort_exec(); }
    pthread_t ct;
    if (g_nclients == 2) pthread_create(&ct, NULL, client_thread, NULL);
    run_client(0);
    if (g_nclients == 2) pthread_join(ct, NULL);
    if (g_finalJoin) {
        POOL_joinJobs(g_pool);
        for (int j = 0; j < g_nj; j++) if (g_acc[j] == 1 && !g_done[j]) vx_fail("final joinJobs returned while an accepted job had not finished");
    }
    POOL_free(g_pool); g_pool = NULL;
    g_blocked_waits = vs_counter(1);
    vs_end();
    for (int j = 0; j < g_nj; j++) {
        if (g_acc[j] == 1 && g_exec[j] != 1) vx_fail("accepted job executed %d times", g_exec[j]);
        if (g_acc[j] == 0 && g_exec[j] != 0) vx_fail("refused job executed");
    }
    vx_obs_u64(cb_key()); vx_obs_u64((uint64_t)vs_counter(4));
    if (vs_counter(4) > 2 && g_nj) vx_nontrivial();
    vx_stat_add("blocking_waits", g_blocked_waits); vx_stat_add("sched_points", vs_steps()); vx_stat_max("max_threads", vs_nthreads());
    if (vx_want_sample()) vx_sample("%s | %ld sched points, %ld thread switches", desc, vs_steps(), vs_counter(4));
}

int main(int argc, char** argv) { return vx_main(argc, argv, init, body); }
