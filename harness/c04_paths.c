/* C04: every decoding path yields the specified output.  Each catalogue record (frames built from the
 * specification, incl. features the compressor never emits) goes through every decode path, after every short
 * decoder history on the same DCtx, and must equal what the independent reference decoder R regenerates.
 * The same harness is linked against differently configured builds of the decoder (see checks/C04.py). */
#include "catalogue.h"

static int g_stride; static u8 *g_o1, *g_o2;

static void init(void) {
    g_stride = (int)vx_opt_int("--stride", 1);
    load_catalogue(vx_opt("--cat", "build/catalogue-quick.bin")); add_compressor_streams();
    for (int i = 0; i < g_nrec; i++) if (g_rec[i].clen + 64 > g_ample) g_ample = g_rec[i].clen + 64;
    g_tmp = (u8*)malloc(g_ample); g_o1 = (u8*)malloc(g_ample + 4096); g_o2 = (u8*)malloc(2 * g_ample + (1u << 20));
}

static void use_dict(ZSTD_DCtx* d, const rec_t* r, ZSTD_DDict* dd, int how) {
    if (!r->dlen) return;
    if (how == 0) ZSTD_DCtx_loadDictionary(d, r->dict, r->dlen); else if (how == 1) ZSTD_DCtx_refDDict(d, dd); else ZSTD_DCtx_refPrefix_advanced(d, r->dict, r->dlen, ZSTD_dct_auto);
}

/* one decode path on an existing DCtx; returns 0 and fills *got, or 1 after vx_fail */
static int decode_path(ZSTD_DCtx* d, const rec_t* r, ZSTD_DDict* dd, int path, const u8* expect, size_t elen, const char* ctx) {
    size_t ret = 0; u8* out = g_o1; size_t cap;
    switch (path) {
    case 0: /* one-shot, exact destination */ cap = elen; use_dict(d, r, dd, 0); ret = ZSTD_decompressDCtx(d, out, cap, r->frame, r->flen); break;
    case 1: /* one-shot, roomy destination: literal buffer placement differs */ cap = elen + 64 + 2 * 131072 > g_ample + 4096 ? g_ample + 4096 : elen + 64 + 2 * 131072; use_dict(d, r, dd, 1); ret = ZSTD_decompressDCtx(d, out, cap, r->frame, r->flen); break;
    case 2: { /* streaming with a stable output buffer */
        use_dict(d, r, dd, 1); ZSTD_DCtx_setParameter(d, ZSTD_d_stableOutBuffer, 1);
        ZSTD_inBuffer in = { r->frame, r->flen, 0 }; ZSTD_outBuffer o = { out, elen + 32, 0 }; size_t h = 1; int it = 0; size_t pos = 0;
        while (pos < r->flen && !ZSTD_isError(h) && it++ < 1000000) { ZSTD_inBuffer one = { r->frame, pos + 7 > r->flen ? r->flen : pos + 7, pos }; h = ZSTD_decompressStream(d, &o, &one); pos = one.pos; }
        (void)in; ret = ZSTD_isError(h) ? h : o.pos; ZSTD_DCtx_setParameter(d, ZSTD_d_stableOutBuffer, 0); break; }
    case 3: { /* streaming, 3-byte input slices, 5-byte output slices */
        use_dict(d, r, dd, 0); size_t pos = 0, opos = 0, h = 1; long it = 0;
        while (!ZSTD_isError(h) && it++ < 4000000) { ZSTD_inBuffer one = { r->frame, pos + 3 > r->flen ? r->flen : pos + 3, pos }; ZSTD_outBuffer o = { out + opos, (opos + 5 > g_ample ? g_ample - opos : 5), 0 };
            h = ZSTD_decompressStream(d, &o, &one); if (ZSTD_isError(h)) break; if (one.pos == pos && o.pos == 0 && pos >= r->flen) break; pos = one.pos; opos += o.pos; }
        ret = ZSTD_isError(h) ? h : opos; break; }
    case 4: { /* buffer-less */
        size_t pos = 0, opos = 0; ret = 0;
        while (pos < r->flen) {
            if (r->dlen) ZSTD_decompressBegin_usingDict(d, r->dict, r->dlen); else ZSTD_decompressBegin(d);
            for (;;) { size_t need = ZSTD_nextSrcSizeToDecompress(d); if (need == 0) break; if (need > r->flen - pos) { ret = (size_t)-ZSTD_error_srcSize_wrong; break; }
                size_t g = ZSTD_decompressContinue(d, out + opos, g_ample + 4096 - opos, r->frame + pos, need); if (ZSTD_isError(g)) { ret = g; break; } pos += need; opos += g; }
            if (ZSTD_isError(ret)) break;
        }
        if (!ZSTD_isError(ret)) ret = opos; break; }
    default: { /* in place: compressed data at the end of the output buffer, advertised margin */
        size_t margin = ZSTD_decompressionMargin(r->frame, r->flen); if (ZSTD_isError(margin)) { vx_fail("%s: decompressionMargin fails: %s", ctx, ZSTD_getErrorName(margin)); return 1; }
        size_t bs = elen + margin; if (bs < r->flen || bs > 2 * g_ample + (1u << 20)) { vx_fail("%s: margin %zu unusable", ctx, margin); return 1; }
        out = g_o2; memmove(out + bs - r->flen, r->frame, r->flen); use_dict(d, r, dd, 1);
        ret = ZSTD_decompressDCtx(d, out, bs, out + bs - r->flen, r->flen); break; }
    }
    if (ZSTD_isError(ret)) { vx_fail("%s: path %d rejects a frame the reference decoder accepts: %s", ctx, path, ZSTD_getErrorName(ret)); return 1; }
    if (ret != elen || (elen && memcmp(out, expect, elen))) { size_t i = 0; while (i < elen && i < ret && out[i] == expect[i]) i++; vx_fail("%s: path %d output differs from the reference decoder (length %zu vs %zu, first difference at %zu)", ctx, path, ret, elen, i); return 1; }
    return 0;
}

static void body(void) {
    int ncat = g_nrec - 12, nsel = (ncat + g_stride - 1) / g_stride;
    int w = vx_choose(nsel + 12); int idx = (w < nsel) ? w * g_stride : ncat + (w - nsel); if (idx >= g_nrec) idx = g_nrec - 1;
    const rec_t* r = &g_rec[idx];
    vx_label("rec#%d %s ;; len=%zu content=%zu dict=%zu", idx, r->name, r->flen, r->clen, r->dlen);
    /* the oracle: R's own output for this record (not the generator's expectation) */
    refcheck_t rc; rc_init(&rc);
    size_t elen = ref_decode(&rc, r->frame, r->flen, r->dict, r->dlen, g_tmp, g_ample);
    if (elen == (size_t)-1) { vx_fail("reference decoder rejects a catalogue record: %s", rc.err); return; }
    if (elen != r->clen || memcmp(g_tmp, r->content, elen)) { vx_fail("generator expectation and reference decoder disagree"); return; }
    ZSTD_DDict* dd = r->dlen ? ZSTD_createDDict(r->dict, r->dlen) : NULL;
    if (r->dlen && !dd) { vx_fail("createDDict refuses the record's dictionary"); return; }
    long npaths = 0;
    /* histories on the same DCtx before the frame under test */
    for (int hist = 0; hist < 7 && !vx_failed; hist++) {
        ZSTD_DCtx* d = ZSTD_createDCtx(); char ctx[64]; snprintf(ctx, sizeof ctx, "history %d", hist);
        const rec_t* o1 = &g_rec[(idx + 1) % g_nrec]; const rec_t* o2 = &g_rec[(idx + 97) % g_nrec];
        switch (hist) {
        case 0: break;                                                                                                           /* cold */
        case 1: case 2: { const rec_t* o = hist == 1 ? o1 : o2; ZSTD_DDict* od = o->dlen ? ZSTD_createDDict(o->dict, o->dlen) : NULL;          /* another frame with its own tables decoded first */
            if (od) ZSTD_DCtx_refDDict(d, od); (void)ZSTD_decompressDCtx(d, g_o1, g_ample, o->frame, o->flen); ZSTD_DCtx_reset(d, ZSTD_reset_session_and_parameters); ZSTD_freeDDict(od); break; }
        case 3: { ZSTD_inBuffer in = { o1->frame, o1->flen / 2, 0 }; ZSTD_outBuffer o = { g_o1, g_ample, 0 }; if (o1->dlen) ZSTD_DCtx_loadDictionary(d, o1->dict, o1->dlen);            /* proper prefix, then reset */
            (void)ZSTD_decompressStream(d, &o, &in); ZSTD_DCtx_reset(d, ZSTD_reset_session_and_parameters); break; }
        case 4: { u8* bad = (u8*)malloc(o2->flen + 1); memcpy(bad, o2->frame, o2->flen); if (o2->flen > 8) bad[o2->flen - 3] ^= 0x5A; (void)ZSTD_decompressDCtx(d, g_o1, g_ample, bad, o2->flen); free(bad);           /* failure, then reset */
            ZSTD_DCtx_reset(d, ZSTD_reset_session_only); break; }
        case 5: if (decode_path(d, r, dd, 1, g_tmp, elen, "warm-up")) break; break;                                            /* same frame twice: warm dictionary / tables */
        default: { ZSTD_inBuffer in = { r->frame, r->flen, 0 }; ZSTD_outBuffer o = { g_o1, g_ample, 0 }; use_dict(d, r, dd, 1); (void)ZSTD_decompressStream(d, &o, &in);                /* streamed once: buffers sized, then other paths */
            ZSTD_DCtx_reset(d, ZSTD_reset_session_only); break; }
        }
        for (int path = 0; path < 6 && !vx_failed; path++) {
            if (hist >= 1 && hist <= 4 && (path == 3)) continue;      /* the slow slicing path once per record is enough */
            if (path == 5 && r->dlen && hist) continue;
            ZSTD_DCtx_reset(d, ZSTD_reset_session_and_parameters);
            decode_path(d, r, dd, path, g_tmp, elen, ctx); npaths++;
        }
        ZSTD_freeDCtx(d);
    }
    ZSTD_freeDDict(dd);
    vx_obs_u64((uint64_t)idx); vx_obs_u64(vx_hash(g_tmp, elen)); if (rc.nseq || rc.nblocks > 1) vx_nontrivial();
    vx_stat_add("path_decodes", npaths); vx_stat_add("sequences_in_catalogue", (long)rc.nseq);
    if (vx_want_sample()) vx_sample("rec#%d %s: %zu -> %zu bytes, %ld path decodes after 7 histories", idx, r->name, r->flen, elen, npaths);
}

int main(int argc, char** argv) { return vx_main(argc, argv, init, body); }
