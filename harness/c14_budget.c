/* C14: memory budgets.  Contexts live in caller memory of exactly the estimated size, between PROT_NONE pages.
 *  --mode levels   all level pairs l <= L x input sizes x {compressCCtx, compress2, 3 streaming patterns}
 *  --mode cparams  cParams vectors (<= D deviations over each field's {min, min+1, mid, max-1, max}) with *_usingCParams / _usingCCtxParams
 *  --mode dstream  every window descriptor x window limits: static DStream succeeds iff window <= limit; heap peak <= estimate
 *  --mode sizeof   ZSTD_sizeof_* >= bytes currently held according to a counting allocator, after every call of short histories
 *  --mode dseq     sequences of <= 3 frames with differently distributed needs on one static / heap DStream
 *  --mode dicts    static CDict / DDict of exactly the estimated size
 */
#include "catalogue.h"
#include <sys/mman.h>

static const char* g_mode; static int g_maxL;
static u8 *g_src, *g_dst, *g_out;
#define SRCMAX (1100000u)

typedef struct { u8* map; size_t mapLen; u8* block; size_t size; } guarded_t;
/* a block of exactly `size` bytes; abutEnd: its end touches a PROT_NONE page (else its start does) */
static int guarded_alloc(guarded_t* g, size_t size, int abutEnd) {
    size_t pg = 4096, body = (size + pg - 1) / pg * pg + pg;   /* one spare page for alignment slack */
    g->mapLen = body + 2 * pg; g->map = (u8*)mmap(NULL, g->mapLen, PROT_READ | PROT_WRITE, MAP_PRIVATE | MAP_ANONYMOUS | MAP_NORESERVE, -1, 0);
    if (g->map == MAP_FAILED) return 1;
    mprotect(g->map, pg, PROT_NONE); mprotect(g->map + pg + body, pg, PROT_NONE);
    if (abutEnd) { size_t start = (size_t)(g->map + pg + body) - size; start &= ~(size_t)7; g->block = (u8*)start; } else g->block = g->map + pg;
    g->size = size; return 0;
}
static void guarded_free(guarded_t* g) { if (g->map) munmap(g->map, g->mapLen); g->map = NULL; }

static const int LEVELS[] = {-5, -1, 1, 2, 3, 4, 5, 6, 7, 8, 9, 10, 11, 12, 13, 14, 15, 16, 17, 18, 19, 20, 21, 22};
enum { NLEVELS = sizeof LEVELS / sizeof LEVELS[0] };
static const size_t SIZES[] = {0, 1, 16383, 16385, 131071, 131073, 262143, 262145, 1000000};
enum { NSIZES = sizeof SIZES / sizeof SIZES[0] };

static void dseq_init(void);
static void init(void) {
    g_mode = vx_opt("--mode", "levels"); g_maxL = (int)vx_opt_int("--maxL", 12);
    g_src = (u8*)malloc(SRCMAX); g_dst = (u8*)malloc(ZSTD_compressBound(SRCMAX)); g_out = (u8*)malloc(SRCMAX);
    fill_text(g_src, SRCMAX, 11); fill_noise(g_src + 300000, 50000, 3); memcpy(g_src + 700000, g_src + 1000, 200000);
    if (!strcmp(g_mode, "dseq")) dseq_init();
    if (!strcmp(g_mode, "dicts")) { load_catalogue(vx_opt("--cat", "build/catalogue-quick.bin")); }
}

static int rt_ok(size_t csz, size_t n) { size_t r = ZSTD_decompress(g_out, SRCMAX, g_dst, csz); return !ZSTD_isError(r) && r == n && !memcmp(g_out, g_src, n); }

static size_t stream_pattern(ZSTD_CCtx* c, int pat, size_t n) {
    ZSTD_outBuffer out = { g_dst, ZSTD_compressBound(SRCMAX), 0 };
    if (pat == 0) { ZSTD_inBuffer in = { g_src, n, 0 }; size_t r; do { r = ZSTD_compressStream2(c, &out, &in, ZSTD_e_end); } while (!ZSTD_isError(r) && r != 0); return ZSTD_isError(r) ? r : out.pos; }
    size_t pos = 0, chunk = pat == 1 ? 1000 : 70000;
    for (;;) {   /* first call is e_continue: source size unknown to the library */
        size_t end = pos + chunk > n ? n : pos + chunk; ZSTD_inBuffer in = { g_src, end, pos };
        size_t r = ZSTD_compressStream2(c, &out, &in, end == n ? ZSTD_e_end : ZSTD_e_continue);
        if (ZSTD_isError(r)) return r; pos = in.pos; if (end == n && r == 0) break;
    }
    return out.pos;
}

static void body_levels(void) {
    int Li = vx_choose(NLEVELS), li = vx_choose(Li + 1), si = vx_choose(NSIZES), api = vx_choose(5), abut = vx_choose(2);
    int L = LEVELS[Li], l = LEVELS[li]; size_t n = SIZES[si];
    vx_label("levels L=%d l=%d n=%zu api=%d abut=%d", L, l, n, api, abut);
    if (L > g_maxL) { vx_obs_u64(3); return; }
    size_t est = api < 2 ? ZSTD_estimateCCtxSize(L) : ZSTD_estimateCStreamSize(L);
    if (ZSTD_isError(est)) { vx_fail("estimate fails for level %d", L); return; }
    guarded_t g; if (guarded_alloc(&g, est, abut)) { vx_obs_u64(4); return; }
    ZSTD_CCtx* c = api < 2 ? ZSTD_initStaticCCtx(g.block, est) : ZSTD_initStaticCStream(g.block, est);
    if (!c) { vx_fail("initStatic rejects a block of the estimated size (%zu, level %d)", est, L); guarded_free(&g); return; }
    size_t r;
    if (api == 0) r = ZSTD_compressCCtx(c, g_dst, ZSTD_compressBound(n), g_src, n, l);
    else { ZSTD_CCtx_setParameter(c, ZSTD_c_compressionLevel, l); r = (api == 1) ? ZSTD_compress2(c, g_dst, ZSTD_compressBound(n), g_src, n) : stream_pattern(c, api - 2, n); }
    if (ZSTD_isError(r)) vx_fail("level %d within a static context sized for level %d fails (api %d, %zu bytes): %s", l, L, api, n, ZSTD_getErrorName(r));
    else if (!rt_ok(r, n)) vx_fail("static-context frame does not round trip");
    else { vx_obs_u64(vx_hash(g_dst, r > 64 ? 64 : r) ^ est); if (n > 1000) vx_nontrivial(); vx_stat_max("largest_static_block", (long)est); }
    if (!vx_failed && ZSTD_sizeof_CCtx(c) > est) vx_fail("sizeof_CCtx %zu larger than the static block %zu", ZSTD_sizeof_CCtx(c), est);
    guarded_free(&g);
    if (vx_want_sample()) vx_sample("static block of estimate(L=%d)=%zu bytes, level %d, %zu bytes, api %d -> %zu", L, est, l, n, api, ZSTD_isError(r) ? 0 : r);
}

static int pick5(int lo, int hi) { static int v[5]; v[0] = lo; v[1] = lo + 1; v[2] = (lo + hi) / 2; v[3] = hi - 1; v[4] = hi; int d = vx_deviate(6); return d ? v[d - 1] : -1; }
static void body_cparams(void) {
    ZSTD_compressionParameters cp = ZSTD_getCParams(3, 0, 0); int v;
    cp.strategy = (ZSTD_strategy)(1 + vx_choose(9));
    if ((v = pick5(ZSTD_WINDOWLOG_MIN, 24)) >= 0) cp.windowLog = (unsigned)v;
    if ((v = pick5(ZSTD_HASHLOG_MIN, 24)) >= 0) cp.hashLog = (unsigned)v;
    if ((v = pick5(ZSTD_CHAINLOG_MIN, 24)) >= 0) cp.chainLog = (unsigned)v;
    if ((v = pick5(ZSTD_SEARCHLOG_MIN, ZSTD_SEARCHLOG_MAX)) >= 0) cp.searchLog = (unsigned)v;
    if ((v = pick5(ZSTD_MINMATCH_MIN, ZSTD_MINMATCH_MAX)) >= 0) cp.minMatch = (unsigned)v;
    if ((v = pick5(ZSTD_TARGETLENGTH_MIN, 999)) >= 0) cp.targetLength = (unsigned)v;
    int row = vx_deviate(3), ldm = vx_deviate(2), useParams = vx_choose(2), stream = vx_choose(2), abut = vx_choose(2);
    size_t n = vx_choose(2) ? 200000 : 3000;
    vx_label("cparams w%u h%u c%u s%u m%u t%u strat%d row%d ldm%d params%d stream%d n=%zu", cp.windowLog, cp.hashLog, cp.chainLog, cp.searchLog, cp.minMatch, cp.targetLength, (int)cp.strategy, row, ldm, useParams, stream, n);
    if (ZSTD_isError(ZSTD_checkCParams(cp))) { vx_obs_u64(5); return; }
    ZSTD_CCtx_params* P = ZSTD_createCCtxParams(); ZSTD_parameters zp; memset(&zp, 0, sizeof zp); zp.cParams = cp; zp.fParams.contentSizeFlag = 1;
    ZSTD_CCtxParams_init_advanced(P, zp);
    if (row) ZSTD_CCtxParams_setParameter(P, ZSTD_c_useRowMatchFinder, row == 1 ? ZSTD_ps_enable : ZSTD_ps_disable);
    if (ldm) ZSTD_CCtxParams_setParameter(P, ZSTD_c_enableLongDistanceMatching, ZSTD_ps_enable);
    size_t est;
    if (useParams || row || ldm) est = stream ? ZSTD_estimateCStreamSize_usingCCtxParams(P) : ZSTD_estimateCCtxSize_usingCCtxParams(P);
    else est = stream ? ZSTD_estimateCStreamSize_usingCParams(cp) : ZSTD_estimateCCtxSize_usingCParams(cp);
    if (ZSTD_isError(est)) { vx_fail("estimate fails for valid cParams: %s", ZSTD_getErrorName(est)); ZSTD_freeCCtxParams(P); return; }
    if (est > (300u << 20)) { vx_obs_u64(6); ZSTD_freeCCtxParams(P); return; }
    guarded_t g; if (guarded_alloc(&g, est, abut)) { ZSTD_freeCCtxParams(P); return; }
    ZSTD_CCtx* c = stream ? ZSTD_initStaticCStream(g.block, est) : ZSTD_initStaticCCtx(g.block, est);
    if (!c) { vx_fail("initStatic rejects a block of the estimated size %zu", est); }
    else {
        size_t e = ZSTD_CCtx_setParametersUsingCCtxParams(c, P);
        size_t r = ZSTD_isError(e) ? e : (stream ? stream_pattern(c, 1 + (int)(n & 1), n) : ZSTD_compress2(c, g_dst, ZSTD_compressBound(n), g_src, n));
        if (ZSTD_isError(r)) vx_fail("compression with exactly the estimated parameters fails inside the estimated block (%zu bytes): %s", est, ZSTD_getErrorName(r));
        else if (!rt_ok(r, n)) vx_fail("static-context frame does not round trip");
        else { vx_obs_u64(est); vx_nontrivial(); }
    }
    guarded_free(&g); ZSTD_freeCCtxParams(P);
    if (vx_want_sample()) vx_sample("cParams w%u h%u c%u s%u m%u t%u strat%d row%d ldm%d -> static %s block of %zu bytes", cp.windowLog, cp.hashLog, cp.chainLog, cp.searchLog, cp.minMatch, cp.targetLength, (int)cp.strategy, row, ldm, stream ? "CStream" : "CCtx", est);
}

/* counting allocator for the heap-mode bound */
static long g_live, g_peak;
static void* ca_alloc(void* o, size_t n) { (void)o; size_t* p = (size_t*)malloc(n + 16); if (!p) return NULL; p[0] = n; g_live += (long)n; if (g_live > g_peak) g_peak = g_live; return p + 2; }
static void ca_free(void* o, void* q) { (void)o; if (!q) return; size_t* p = (size_t*)q - 2; g_live -= (long)p[0]; free(p); }

static size_t window_of(int wd) { size_t base = (size_t)1 << (10 + (wd >> 3)); return base + (base / 8) * (size_t)(wd & 7); }
static void body_dstream(void) {
    int wd = vx_choose(14 * 8);                      /* descriptors up to 8 MiB + 7/8 */
    static const size_t LIMS[] = {1024, 1152, 2048, 65536, 131072, 131073, 1u << 20, 5u << 20, 8u << 20, 15u << 20};
    int wi = vx_choose(10), withFcs = vx_choose(2), abut = vx_choose(2);
    size_t W = LIMS[wi], win = window_of(wd);
    vx_label("dstream wd=%d window=%zu limit=%zu fcs=%d", wd, win, W, withFcs);
    /* frame: magic, descriptor (optionally 1-byte content size... only if it fits), window descriptor, one raw last block of 5 bytes */
    /* frame: magic, descriptor byte 0 (no content size, no checksum), window descriptor, one raw last block of 5 bytes */
    u8 f[32]; size_t fl = 0; f[fl++] = 0x28; f[fl++] = 0xB5; f[fl++] = 0x2F; f[fl++] = 0xFD; f[fl++] = 0x00; f[fl++] = (u8)wd;
    f[fl++] = (u8)(1 | (0 << 1) | (5 << 3)); f[fl++] = 0; f[fl++] = 0; memcpy(f + fl, "hello", 5); fl += 5; (void)withFcs;
    size_t est = ZSTD_estimateDStreamSize(W);
    guarded_t g; if (guarded_alloc(&g, est, abut)) return;
    ZSTD_DStream* d = ZSTD_initStaticDStream(g.block, est);
    if (!d) { vx_fail("initStaticDStream rejects a block of estimateDStreamSize(%zu) = %zu", W, est); guarded_free(&g); return; }
    u8 ob[64]; ZSTD_inBuffer in = { f, fl, 0 }; ZSTD_outBuffer out = { ob, sizeof ob, 0 }; size_t r = 1; int it = 0;
    /* byte by byte so that the single-pass shortcut does not hide the buffer sizing */
    while (in.pos < fl && !ZSTD_isError(r) && it++ < 100) { ZSTD_inBuffer one = { f, in.pos + 1, in.pos }; r = ZSTD_decompressStream(d, &out, &one); in.pos = one.pos; }
    int ok = !ZSTD_isError(r) && r == 0 && out.pos == 5 && !memcmp(ob, "hello", 5);
    if (win <= W && !ok) vx_fail("window %zu <= limit %zu but the static stream sized by estimateDStreamSize(limit) fails: %s", win, W, ZSTD_isError(r) ? ZSTD_getErrorName(r) : "wrong output");
    if (win > W && ok) vx_fail("window %zu > limit %zu but decoding inside estimateDStreamSize(limit) = %zu bytes succeeds", win, W, est);
    guarded_free(&g);
    /* heap mode with windowLogMax: refusal above the limit, allocation peak below the documented function of it */
    if (!vx_failed && (W & (W - 1)) == 0) {
        int wlog = 0; while (((size_t)1 << wlog) < W) wlog++;
        ZSTD_customMem cm = { ca_alloc, ca_free, NULL }; g_live = g_peak = 0;
        ZSTD_DCtx* h = ZSTD_createDCtx_advanced(cm); ZSTD_DCtx_setParameter(h, ZSTD_d_windowLogMax, wlog);
        in.pos = 0; out.pos = 0; r = 1; it = 0;
        while (in.pos < fl && !ZSTD_isError(r) && it++ < 100) { ZSTD_inBuffer one = { f, in.pos + 1, in.pos }; r = ZSTD_decompressStream(h, &out, &one); in.pos = one.pos; }
        ok = !ZSTD_isError(r) && r == 0 && out.pos == 5;
        if (win > W && ok) vx_fail("heap stream with windowLogMax=%d accepts a frame with window %zu", wlog, win);
        if (win <= W && !ok) vx_fail("heap stream with windowLogMax=%d refuses a frame with window %zu: %s", wlog, win, ZSTD_isError(r) ? ZSTD_getErrorName(r) : "?");
        size_t budget = ZSTD_estimateDStreamSize(win < W ? win : W);
        if (!vx_failed && (size_t)g_peak > budget) vx_fail("heap stream held %ld bytes, estimateDStreamSize(min(limit, window)) is %zu", g_peak, budget);
        if (!vx_failed && ZSTD_sizeof_DStream(h) < (size_t)g_live) vx_fail("sizeof_DStream %zu under-reports the %ld bytes held", ZSTD_sizeof_DStream(h), g_live);
        ZSTD_freeDCtx(h);
        if (!vx_failed && g_live != 0) vx_fail("%ld bytes still held after freeDCtx", g_live);
    }
    vx_obs_u64((uint64_t)wd * 16 + (uint64_t)wi); if (win > 1024) vx_nontrivial();
    if (vx_want_sample()) vx_sample("window descriptor %d (%zu bytes) vs limit %zu: static block %zu bytes", wd, win, W, est);
}

static void body_sizeof(void) {
    /* histories of <= 3 operations on heap objects with a counting allocator; after each one sizeof >= held */
    ZSTD_customMem cm = { ca_alloc, ca_free, NULL }; g_live = g_peak = 0;
    int kind = vx_choose(3); char hist[200] = ""; size_t ho = 0;
    if (kind == 0) {
        ZSTD_CCtx* c = ZSTD_createCCtx_advanced(cm);
        for (int step = 0; step < 3 && !vx_failed; step++) {
            int op = vx_choose(7); size_t r = 0;
            ho += snprintf(hist + ho, sizeof hist - ho, "op%d ", op); vx_label("sizeof cctx ;; %s", hist);
            switch (op) {
            case 0: ZSTD_CCtx_setParameter(c, ZSTD_c_compressionLevel, 1); r = ZSTD_compress2(c, g_dst, 1u << 20, g_src, 50000); break;
            case 1: ZSTD_CCtx_setParameter(c, ZSTD_c_compressionLevel, 19); ZSTD_CCtx_setParameter(c, ZSTD_c_windowLog, 18); r = ZSTD_compress2(c, g_dst, 1u << 20, g_src, 300000); break;
            case 2: r = ZSTD_CCtx_loadDictionary(c, g_src + 5000, 20000); break;
            case 3: { ZSTD_inBuffer in = { g_src, 70000, 0 }; ZSTD_outBuffer out = { g_dst, 1u << 20, 0 }; r = ZSTD_compressStream2(c, &out, &in, ZSTD_e_continue); break; }
            case 4: ZSTD_CCtx_reset(c, ZSTD_reset_session_and_parameters); break;
            case 5: ZSTD_CCtx_setParameter(c, ZSTD_c_nbWorkers, 2); { ZSTD_inBuffer in = { g_src, 700000, 0 }; ZSTD_outBuffer out = { g_dst, 1u << 21, 0 }; ZSTD_CCtx_reset(c, ZSTD_reset_session_only); do { r = ZSTD_compressStream2(c, &out, &in, ZSTD_e_end); } while (!ZSTD_isError(r) && r); } ZSTD_CCtx_setParameter(c, ZSTD_c_nbWorkers, 0); break;
            default: ZSTD_CCtx_setParameter(c, ZSTD_c_enableLongDistanceMatching, ZSTD_ps_enable); ZSTD_CCtx_setParameter(c, ZSTD_c_windowLog, 20); ZSTD_CCtx_reset(c, ZSTD_reset_session_only); r = ZSTD_compress2(c, g_dst, 1u << 20, g_src, 100000); break;
            }
            (void)r;
            size_t so = ZSTD_sizeof_CCtx(c);
            if (so < (size_t)g_live) vx_fail("sizeof_CCtx reports %zu while the context holds %ld bytes [%s]", so, g_live, hist);
        }
        ZSTD_freeCCtx(c);
    } else if (kind == 1) {
        int lvl = 1 + vx_choose(3) * 9, dds = vx_choose(2); size_t dl = vx_choose(2) ? 3000 : 200000;
        vx_label("sizeof cdict ;; level %d dds %d dict %zu", lvl, dds, dl);
        ZSTD_CCtx_params* p = ZSTD_createCCtxParams(); ZSTD_CCtxParams_setParameter(p, ZSTD_c_compressionLevel, lvl); if (dds) ZSTD_CCtxParams_setParameter(p, ZSTD_c_enableDedicatedDictSearch, 1);
        ZSTD_CDict* cd = ZSTD_createCDict_advanced2(g_src, dl, ZSTD_dlm_byCopy, ZSTD_dct_rawContent, p, cm); ZSTD_freeCCtxParams(p);
        if (cd && ZSTD_sizeof_CDict(cd) < (size_t)g_live) vx_fail("sizeof_CDict reports %zu while it holds %ld bytes", ZSTD_sizeof_CDict(cd), g_live);
        ZSTD_freeCDict(cd);
    } else {
        size_t dl = vx_choose(2) ? 3000 : 200000; int byRef = vx_choose(2);
        vx_label("sizeof ddict ;; dict %zu byRef %d", dl, byRef);
        ZSTD_DDict* dd = ZSTD_createDDict_advanced(g_src, dl, byRef ? ZSTD_dlm_byRef : ZSTD_dlm_byCopy, ZSTD_dct_rawContent, cm);
        if (dd && ZSTD_sizeof_DDict(dd) < (size_t)g_live) vx_fail("sizeof_DDict reports %zu while it holds %ld bytes", ZSTD_sizeof_DDict(dd), g_live);
        ZSTD_DCtx* d = ZSTD_createDCtx_advanced(cm); ZSTD_DCtx_loadDictionary(d, g_src, dl);
        long before = g_live; (void)before;
        if (ZSTD_sizeof_DCtx(d) + (dd ? ZSTD_sizeof_DDict(dd) : 0) < (size_t)g_live) vx_fail("sizeof_DCtx + sizeof_DDict report %zu while %ld bytes are held", ZSTD_sizeof_DCtx(d) + ZSTD_sizeof_DDict(dd), g_live);
        ZSTD_freeDCtx(d); ZSTD_freeDDict(dd);
    }
    if (!vx_failed && g_live != 0) vx_fail("%ld bytes still held after free", g_live);
    vx_obs(hist, ho); vx_obs_u64((uint64_t)kind * 977 + (uint64_t)g_peak); vx_nontrivial();
    if (vx_want_sample()) vx_sample("kind %d %s: peak %ld bytes held", kind, hist, g_peak);
}

#include <malloc.h>
/* bytes currently obtained from the process heap (arena + mmap'd chunks): a static object must not change it */
static size_t heap_in_use(void) { struct mallinfo2 m = mallinfo2(); return (size_t)m.uordblks + (size_t)m.hblkhd; }
static void body_dicts(void) {
    /* static CDict / DDict of exactly the estimated size, dictionaries of the catalogue records + raw ones */
    int idx = vx_choose(g_nrec > 400 ? 400 : g_nrec) * (g_nrec > 400 ? g_nrec / 400 : 1); const rec_t* r = &g_rec[idx];
    int lvl = vx_choose(2) ? 1 : 19, abut = vx_choose(2), byRef = vx_choose(2);
    vx_label("dicts rec#%d level %d ;; dict=%zu", idx, lvl, r->dlen);
    if (r->dlen < 8) { vx_obs_u64(7); return; }
    ZSTD_compressionParameters cp = ZSTD_getCParams(lvl, 0, r->dlen);
    size_t ce = ZSTD_estimateCDictSize_advanced(r->dlen, cp, byRef ? ZSTD_dlm_byRef : ZSTD_dlm_byCopy);
    guarded_t g; if (guarded_alloc(&g, ce, abut)) return;
    int fill = vx_choose(2); if (fill) memset(g.block, 0xA7, ce);      /* the caller's memory need not be zeroed */
    size_t heap0 = heap_in_use();
    const ZSTD_CDict* cd = ZSTD_initStaticCDict(g.block, ce, r->dict, r->dlen, byRef ? ZSTD_dlm_byRef : ZSTD_dlm_byCopy, ZSTD_dct_auto, cp);
    if (heap_in_use() != heap0) vx_fail("ZSTD_initStaticCDict took %ld bytes from the heap", (long)(heap_in_use() - heap0));
    if (cd) {
        ZSTD_CCtx* c = ZSTD_createCCtx(); size_t cs = ZSTD_compress_usingCDict(c, g_dst, 1u << 20, r->content, r->clen > 60000 ? 60000 : r->clen, cd); ZSTD_freeCCtx(c);
        if (ZSTD_isError(cs)) vx_fail("compress_usingCDict with a static CDict fails: %s", ZSTD_getErrorName(cs));
        else {
            size_t de = ZSTD_estimateDDictSize(r->dlen, byRef ? ZSTD_dlm_byRef : ZSTD_dlm_byCopy); guarded_t g2;
            if (!guarded_alloc(&g2, de, abut)) {
                if (fill) memset(g2.block, 0xA7, de);
                size_t heap1 = heap_in_use();
                const ZSTD_DDict* dd = ZSTD_initStaticDDict(g2.block, de, r->dict, r->dlen, byRef ? ZSTD_dlm_byRef : ZSTD_dlm_byCopy, ZSTD_dct_auto);
                if (heap_in_use() != heap1) vx_fail("ZSTD_initStaticDDict took %ld bytes from the heap (load method %s)", (long)(heap_in_use() - heap1), byRef ? "byRef" : "byCopy");
                if (!dd) vx_fail("initStaticDDict rejects a block of estimateDDictSize = %zu for a dictionary the compressor loaded", de);
                else { ZSTD_DCtx* d = ZSTD_createDCtx(); size_t n = r->clen > 60000 ? 60000 : r->clen; size_t ds = ZSTD_decompress_usingDDict(d, g_out, SRCMAX, g_dst, cs, dd); ZSTD_freeDCtx(d);
                       if (ZSTD_isError(ds) || ds != n || memcmp(g_out, r->content, n)) vx_fail("static CDict / DDict round trip fails"); }
                guarded_free(&g2);
            }
        }
        vx_nontrivial();
    } else vx_stat_add("static_cdict_refused", 1);      /* structured dictionaries the loader refuses are not this check's subject */
    guarded_free(&g);
    vx_obs_u64((uint64_t)idx * 4 + (uint64_t)lvl);
    if (vx_want_sample()) vx_sample("rec#%d dict %zu bytes level %d: static CDict %zu bytes %s", idx, r->dlen, lvl, ce, cd ? "ok" : "refused");
}

/* a static context of exactly the estimated size keeps accepting every job the estimate covers, however long it has been in use:
 * 300 jobs at a level l <= L (small, so that most of the block stays unused), then one large job at level L; guard zones around the block */
static void body_wear(void) {
    static const int PAIRS[][2] = {{1, 1}, {3, 1}, {3, 3}, {6, 1}, {12, 1}, {12, 3}, {16, 2}, {19, 5}};
    int pi = vx_choose(8), kind = vx_choose(3), small = vx_choose(3); int L = PAIRS[pi][0], l = PAIRS[pi][1];
    static const size_t SMALL[] = {100, 3000, 40000}; size_t sn = SMALL[small];
    vx_label("wear kind%d L=%d l=%d small=%zu", kind, L, l, sn);
    size_t est = kind == 0 ? ZSTD_estimateCCtxSize(L) : kind == 1 ? ZSTD_estimateCStreamSize(L) : ZSTD_estimateDStreamSize((size_t)1 << 17);
    u8* blk = (u8*)malloc(est + 128); memset(blk, 0xA7, est + 128); void* ws = blk + 64;
    size_t big = 200000, r = 0; int runs = 300;
    if (kind < 2) {
        ZSTD_CCtx* c = kind == 0 ? ZSTD_initStaticCCtx(ws, est) : ZSTD_initStaticCStream(ws, est);
        if (!c) { vx_fail("static context of the estimated size (%zu bytes) cannot be created", est); goto out; }
        for (int i = 0; i <= runs && !vx_failed; i++) {
            int last = i == runs; size_t n = last ? big : sn; int lv = last ? L : l;
            if (kind == 0) r = ZSTD_compressCCtx(c, g_dst, 1u << 20, g_src, n, lv);
            else { ZSTD_CCtx_reset(c, ZSTD_reset_session_only); ZSTD_CCtx_setParameter(c, ZSTD_c_compressionLevel, lv); ZSTD_inBuffer in = { g_src, n, 0 }; ZSTD_outBuffer out = { g_dst, 1u << 20, 0 }; do { r = ZSTD_compressStream2(c, &out, &in, ZSTD_e_end); } while (r && !ZSTD_isError(r)); if (!ZSTD_isError(r)) r = out.pos; }
            if (ZSTD_isError(r)) { vx_fail("job %d on a static context sized for level %d (level %d, %zu bytes) is refused: %s", i + 1, L, lv, n, ZSTD_getErrorName(r)); break; }
            if (last || i % 50 == 0) { size_t d = ZSTD_decompress(g_out, SRCMAX, g_dst, r); if (ZSTD_isError(d) || d != n || memcmp(g_out, g_src, n)) { vx_fail("job %d on the static context does not round trip", i + 1); break; } }
        }
    } else {
        ZSTD_DCtx* d = ZSTD_initStaticDStream(ws, est);
        if (!d) { vx_fail("static DStream of the estimated size cannot be created"); goto out; }
        size_t c1 = ZSTD_compress(g_dst, 1u << 19, g_src, sn, 1); ZSTD_CCtx* cc = ZSTD_createCCtx(); ZSTD_CCtx_setParameter(cc, ZSTD_c_windowLog, 17); ZSTD_CCtx_setParameter(cc, ZSTD_c_compressionLevel, 3); size_t c2 = ZSTD_compress2(cc, g_dst + (1u << 19), 1u << 19, g_src, big); ZSTD_freeCCtx(cc);
        for (int i = 0; i <= runs && !vx_failed; i++) {
            int last = i == runs; const u8* f = last ? g_dst + (1u << 19) : g_dst; size_t fl = last ? c2 : c1, n = last ? big : sn;
            ZSTD_DCtx_reset(d, ZSTD_reset_session_only); ZSTD_inBuffer in = { f, fl, 0 }; ZSTD_outBuffer out = { g_out, SRCMAX, 0 }; r = 1;
            while (r && !ZSTD_isError(r) && in.pos < in.size) { ZSTD_inBuffer part = { f, in.pos + 1000 > fl ? fl : in.pos + 1000, in.pos }; r = ZSTD_decompressStream(d, &out, &part); in.pos = part.pos; }
            if (ZSTD_isError(r) || out.pos != n || memcmp(g_out, g_src, n)) { vx_fail("decoding job %d on a static DStream sized for a 128 KiB window fails: %s", i + 1, ZSTD_isError(r) ? ZSTD_getErrorName(r) : "content"); break; }
        }
    }
    for (size_t g = 0; g < 64 && !vx_failed; g++) if (blk[g] != 0xA7 || blk[64 + est + g] != 0xA7) vx_fail("bytes outside the caller-provided block were written");
    vx_obs_u64((uint64_t)pi * 16 + (uint64_t)kind * 4 + (uint64_t)small); vx_nontrivial();
out:
    free(blk);
}

/* --mode dseq: one static DStream sized by ZSTD_estimateDStreamSize(W) decodes every sequence of <= 3 frames whose windows are all <= W, whatever the
 * frames need individually (input staging buffer vs output ring: a small window with large blocks, a single-segment frame whose only block is as large
 * as the frame, frames of unknown size), with the input presented whole, in 1000-byte pieces or in 70 000-byte pieces and 4 KiB or ample output room.
 * Content is 6-bit noise: Huffman-compressed literals only, so compressed blocks are nearly as large as their content. */
enum { NDK = 8 };
static u8* g_dk[NDK]; static size_t g_dkLen[NDK], g_dkN[NDK]; static const char* g_dkName[NDK];
static void dseq_init(void) {
    static const struct { int wlog; size_t n; int fcs; const char* name; } K[NDK] = {
        {10, 5000, 0, "window 1 KiB, 5000 bytes, size unknown"}, {13, 40000, 0, "window 8 KiB, 40000 bytes, size unknown"}, {16, 200000, 0, "window 64 KiB, 200000 bytes, size unknown"},
        {17, 300000, 0, "window 128 KiB, 300000 bytes, size unknown"}, {0, 1000, 1, "single segment, 1000 bytes"}, {0, 60000, 1, "single segment, 60000 bytes"},
        {0, 120000, 1, "single segment, 120000 bytes"}, {0, 131072, 1, "single segment, 131072 bytes"} };
    for (size_t i = 0; i < SRCMAX; i++) g_src[i] = (u8)(g_src[i] & 0x3f);
    { uint32_t x = 12345; for (size_t i = 0; i < 400000; i++) { x = x * 1103515245u + 12345u; g_src[i] = (u8)((x >> 16) & 0x3f); } }
    for (int k = 0; k < NDK; k++) {
        ZSTD_CCtx* c = ZSTD_createCCtx(); ZSTD_CCtx_setParameter(c, ZSTD_c_compressionLevel, 1); g_dkN[k] = K[k].n; g_dkName[k] = K[k].name;
        g_dk[k] = (u8*)malloc(ZSTD_compressBound(K[k].n)); ZSTD_outBuffer out = { g_dk[k], ZSTD_compressBound(K[k].n), 0 };
        if (K[k].fcs) { g_dkLen[k] = ZSTD_compress2(c, g_dk[k], out.size, g_src, K[k].n); }
        else { ZSTD_CCtx_setParameter(c, ZSTD_c_windowLog, K[k].wlog); ZSTD_inBuffer in = { g_src, K[k].n / 2, 0 }; ZSTD_compressStream2(c, &out, &in, ZSTD_e_continue); in.size = K[k].n; while (ZSTD_compressStream2(c, &out, &in, ZSTD_e_end)) {} g_dkLen[k] = out.pos; }
        ZSTD_freeCCtx(c);
    }
}
static void body_dseq(void) {
    int nf = 2 + vx_choose(2), k[3]; for (int i = 0; i < nf; i++) k[i] = vx_choose(NDK);
    int slice = vx_choose(3), smallOut = vx_choose(2), big = vx_choose(2), heap = vx_choose(2), abut = vx_choose(2);
    size_t W = big ? (1u << 20) : (128u << 10);
    vx_label("dseq W=%zu %s frames=[%d,%d,%d] slice=%d smallout=%d", W, heap ? "heap" : "static", k[0], k[1], nf > 2 ? k[2] : -1, slice, smallOut);
    size_t est = ZSTD_estimateDStreamSize(W); guarded_t g; g.map = NULL; ZSTD_DStream* d;
    if (heap) { d = ZSTD_createDStream(); ZSTD_DCtx_setParameter(d, ZSTD_d_windowLogMax, big ? 20 : 17); }
    else { if (guarded_alloc(&g, est, abut)) return; d = ZSTD_initStaticDStream(g.block, est); }
    if (!d) { vx_fail("no DStream for limit %zu", W); guarded_free(&g); return; }
    size_t piece = slice == 0 ? (size_t)-1 : slice == 1 ? 1000 : 70000, cap = smallOut ? 4096 : SRCMAX;
    for (int i = 0; i < nf && !vx_failed; i++) {
        const u8* f = g_dk[k[i]]; size_t fl = g_dkLen[k[i]], n = g_dkN[k[i]], ipos = 0, opos = 0; size_t r = 1; long calls = 0;
        while (calls++ < 200000) {
            size_t end = piece > fl - ipos ? fl : ipos + piece; ZSTD_inBuffer in = { f, end, ipos }; ZSTD_outBuffer out = { g_out + opos, cap > SRCMAX - opos ? SRCMAX - opos : cap, 0 };
            r = ZSTD_decompressStream(d, &out, &in); opos += out.pos;
            int progress = in.pos != ipos || out.pos != 0; ipos = in.pos;
            if (ZSTD_isError(r) || r == 0) break;
            if (!progress && end == fl) break;
        }
        if (ZSTD_isError(r) || r != 0 || opos != n || memcmp(g_out, g_src, n))
            vx_fail("%s DStream for a window limit of %zu: frame %d of the sequence (%s, after %s) fails: %s", heap ? "heap" : "static (estimateDStreamSize)", W, i + 1, g_dkName[k[i]], i ? g_dkName[k[i - 1]] : "nothing", ZSTD_isError(r) ? ZSTD_getErrorName(r) : r ? "not completed" : "wrong content");
    }
    if (heap) ZSTD_freeDStream(d);
    guarded_free(&g);
    vx_obs_u64((uint64_t)(k[0] * 64 + k[1] * 8 + (nf > 2 ? k[2] : 0)) * 64 + (uint64_t)(slice * 16 + smallOut * 8 + big * 4 + heap * 2)); vx_nontrivial();
    if (vx_want_sample()) vx_sample("dseq: %d frames on one %s DStream (limit %zu), slice %d", nf, heap ? "heap" : "static", W, slice);
}

static void body(void) {
    if (!strcmp(g_mode, "dseq")) { body_dseq(); return; }
    if (!strcmp(g_mode, "wear")) { body_wear(); return; }
    if (!strcmp(g_mode, "levels")) body_levels(); else if (!strcmp(g_mode, "cparams")) body_cparams(); else if (!strcmp(g_mode, "dstream")) body_dstream();
    else if (!strcmp(g_mode, "sizeof")) body_sizeof(); else body_dicts();
}
int main(int argc, char** argv) { return vx_main(argc, argv, init, body); }
