/* C11, narrowest seams: the sub-protocols of zstdmt_compress.c driven directly, with every schedule explored
 * (state cache on, no preemption bound).  zstdmt_compress.c is included textually through the shim; the library's
 * own object of that file is left out of the link.
 *   seam 0: serial section (ZSTDMT_serialState_update / _ensureFinished): jobs take their turn in order, whatever
 *           order they arrive in, including jobs that skip ahead on an error path
 *   seam 1: buffer pool + cctx pool get/release from several threads (counts return to their totals)
 */
#include "vf_pthread_shim.h"
#include "common.h"
#include "vsched.h"
#undef MIN
#undef MAX
#undef ERROR
#include "zstdmt_compress.c"

#define MAXJ 5
static serialState_t g_serial; static ZSTDMT_seqPool* g_seqPool; static u8 g_data[MAXJ * 64];
static int g_njobs, g_order[MAXJ], g_skip[MAXJ], g_pc[MAXJ + 1], g_checksum;
static int g_entered[MAXJ], g_nentered;
static ZSTDMT_bufferPool* g_bp; static ZSTDMT_CCtxPool* g_cp; static int g_seam;

static int cb_pick(int n, int kind) { return vx_pick(n, kind == 2 ? VX_PREEMPT : VX_DEV); }
static void cb_fail(const char* what) { vx_fail("%s", what); vx_abort_exec(); }
static uint64_t cb_key(void) {
    uint64_t h = 3; h = vx_mix(h, g_serial.nextJobID); for (int i = 0; i <= MAXJ; i++) h = vx_mix(h, (uint64_t)g_pc[i]);
    for (int i = 0; i < g_njobs; i++) h = vx_mix(h, (uint64_t)(g_order[i] * 8 + g_skip[i])); h = vx_mix(h, (uint64_t)(g_njobs * 4 + g_checksum * 2 + g_seam));
    for (int i = 0; i < g_nentered; i++) h = vx_mix(h, (uint64_t)g_entered[i] + 100);
    if (g_bp) { h = vx_mix(h, g_bp->nbBuffers); } if (g_cp) h = vx_mix(h, (uint64_t)g_cp->availCCtx);
    return h;
}
static void init(void) { for (size_t i = 0; i < sizeof g_data; i++) g_data[i] = (u8)(i * 31 + 7); g_seam = (int)vx_opt_int("--seam", 0); }

VX_HARNESS_SHARED static void* job_thread(void* a) {
    int jobID = (int)(intptr_t)a; g_pc[jobID] = 1;
    if (g_skip[jobID]) { ZSTDMT_serialState_ensureFinished(&g_serial, (unsigned)jobID, (size_t)-1); g_pc[jobID] = 3; return NULL; }
    rawSeqStore_t none = kNullRawSeqStore; range_t src = { g_data + jobID * 64, 64 };
    ZSTDMT_serialState_update(&g_serial, NULL, none, src, (unsigned)jobID);
    g_pc[jobID] = 3; return NULL;
}

VX_HARNESS_SHARED static void* pool_thread(void* a) {
    int me = (int)(intptr_t)a; g_pc[me] = 1;
    buffer_t b1 = ZSTDMT_getBuffer(g_bp); ZSTD_CCtx* c1 = ZSTDMT_getCCtx(g_cp); g_pc[me] = 2;
    buffer_t b2 = ZSTDMT_getBuffer(g_bp);
    if ((b1.start && b1.start == b2.start)) vx_fail("buffer pool handed the same buffer to two holders");
    ZSTDMT_releaseBuffer(g_bp, b1); g_pc[me] = 3; ZSTDMT_releaseCCtx(g_cp, c1); ZSTDMT_releaseBuffer(g_bp, b2); g_pc[me] = 4;
    if (!c1) vx_fail("cctx pool returned NULL");
    return NULL;
}

static void body(void) {
    memset(g_pc, 0, sizeof g_pc); g_nentered = 0; g_bp = NULL; g_cp = NULL;
    vs_config_t cfg; memset(&cfg, 0, sizeof cfg); cfg.pick = cb_pick; cfg.fail = cb_fail; cfg.statekey = cb_key; cfg.visited = vx_visited; cfg.horizon = 100000;
    if (g_seam == 0) {
        g_njobs = 2 + vx_choose((int)vx_opt_int("--maxjobs", 4) - 1); g_checksum = vx_choose(2);
        /* arrival order: every permutation of the jobs; error-path jobs skip ahead */
        int used[MAXJ] = {0}; for (int i = 0; i < g_njobs; i++) { int k = vx_choose(g_njobs - i), j = 0; for (;; j++) if (!used[j] && k-- == 0) break; used[j] = 1; g_order[i] = j; }
        for (int i = 0; i < g_njobs; i++) g_skip[i] = (i > 0) ? vx_choose(2) : 0;
        int nskip = 0; for (int i = 0; i < g_njobs; i++) nskip += g_skip[i]; if (nskip > 1) { vx_obs_u64(61); return; }
        char d[120]; int o = snprintf(d, sizeof d, "serial njobs=%d ck=%d order=", g_njobs, g_checksum); for (int i = 0; i < g_njobs; i++) o += snprintf(d + o, sizeof d - o, "%d%s", g_order[i], g_skip[g_order[i]] ? "x" : ""); vx_label("%s", d);
        vs_begin(&cfg);
        ZSTD_CCtx_params P; ZSTD_CCtxParams_init(&P, 1); P.fParams.checksumFlag = g_checksum; P.cParams = ZSTD_getCParams(1, 0, 0); P.jobSize = 1024;
        ZSTDMT_serialState_init(&g_serial); g_seqPool = ZSTDMT_createSeqPool(2, ZSTD_defaultCMem);
        if (ZSTDMT_serialState_reset(&g_serial, g_seqPool, P, 1024, NULL, 0, ZSTD_dct_auto)) { vx_fail("serialState_reset failed"); vx_abort_exec(); }
        pthread_t th[MAXJ];
        for (int i = 0; i < g_njobs; i++) pthread_create(&th[i], NULL, job_thread, (void*)(intptr_t)g_order[i]);
        for (int i = 0; i < g_njobs; i++) pthread_join(th[i], NULL);
        unsigned next = g_serial.nextJobID; uint64_t digest = g_checksum ? XXH64_digest(&g_serial.xxhState) : 0;
        ZSTDMT_serialState_free(&g_serial); ZSTDMT_freeSeqPool(g_seqPool);
        vs_end();
        if ((int)next < g_njobs) vx_fail("serial section: %u of %d jobs took their turn", next, g_njobs);
        if (g_checksum && !nskip) { uint64_t want = vf_xxh64(g_data, (size_t)g_njobs * 64, 0); if (digest != want) vx_fail("serial section: checksum accumulated out of order"); }
        vx_obs_u64((uint64_t)next); vx_obs_u64((uint64_t)vs_counter(1));
    } else {
        int nth = 2 + vx_choose(2); vx_label("pools threads=%d", nth); g_njobs = 0;
        vs_begin(&cfg);
        g_bp = ZSTDMT_createBufferPool(BUF_POOL_MAX_NB_BUFFERS(2), ZSTD_defaultCMem); g_cp = ZSTDMT_createCCtxPool(nth, ZSTD_defaultCMem); ZSTDMT_setBufferSize(g_bp, 512);
        pthread_t th[4]; for (int i = 0; i < nth; i++) pthread_create(&th[i], NULL, pool_thread, (void*)(intptr_t)i);
        for (int i = 0; i < nth; i++) pthread_join(th[i], NULL);
        int avail = g_cp->availCCtx; unsigned nb = g_bp->nbBuffers, tot = g_bp->totalBuffers;
        ZSTDMT_freeBufferPool(g_bp); ZSTDMT_freeCCtxPool(g_cp); g_bp = NULL; g_cp = NULL;
        vs_end();
        if (avail < 1 || avail > nth) vx_fail("cctx pool ends with %d available contexts of %d", avail, nth);
        if (nb > tot) vx_fail("buffer pool holds %u buffers, capacity %u", nb, tot);
        vx_obs_u64((uint64_t)avail * 100 + nb);
    }
    vx_nontrivial(); vx_stat_add("sched_points", vs_steps()); vx_stat_add("blocking_waits", vs_counter(1));
    if (vx_want_sample()) vx_sample("seam %d: %ld scheduling points, %ld blocking waits", g_seam, vs_steps(), vs_counter(1));
}

int main(int argc, char** argv) { return vx_main(argc, argv, init, body); }
