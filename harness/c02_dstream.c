/* C02 (decoder side), C10(c), C09(prefix) — closed state graph of the real streaming decoder for each stream of
 * a catalogue: from every reachable state every call (in-slice, out-capacity) is issued, to fixpoint.
 * The DStream is a static one; a state is a memcpy of its block (snapshots kept along the DFS path only). */
#include "common.h"
#include "zstd_decompress_internal.h"

#include "catalogue.h"
static int g_stride, g_judge, g_maxlen;     /* judge bits: 1 C02, 2 C10, 4 C09 */
static u8 *g_ws, *g_ddws; static size_t g_wsCap = 6u << 20;
static u8* g_obuf;

static void init(void) {
    g_stride = (int)vx_opt_int("--stride", 16); g_judge = (int)vx_opt_int("--judge", 7); g_maxlen = (int)vx_opt_int("--maxlen", 200);
    load_catalogue(vx_opt("--cat", "build/catalogue-quick.bin"));
    add_compressor_streams();
    for (int i = 0; i < g_nrec; i++) if (g_rec[i].clen + 64 > g_ample) g_ample = g_rec[i].clen + 64;
    g_ws = (u8*)malloc(g_wsCap); g_ddws = (u8*)malloc(1u << 20); g_obuf = (u8*)malloc(g_ample); g_tmp = (u8*)malloc(g_ample);
}

/* ---- explicit-state search ---- */
typedef struct { size_t consumed, produced; size_t hint; } pos_t;
#define VIS_BITS 18
static uint64_t g_vis[1u << VIS_BITS]; static int g_nvis;
static int vis_insert(uint64_t k) {
    k |= 1; uint64_t i = (k * 0x9e3779b97f4a7c15ull) >> (64 - VIS_BITS);
    for (int p = 0; p < 4096; p++, i = (i + 1) & ((1u << VIS_BITS) - 1)) { if (g_vis[i] == k) return 0; if (g_vis[i] == 0) { g_vis[i] = k; g_nvis++; return 1; } }
    return 1;
}
static uint64_t state_key(const ZSTD_DCtx* d, const pos_t* p) {
    uint64_t h = 99;
    h = vx_mix(h, p->consumed); h = vx_mix(h, p->produced); h = vx_mix(h, p->hint);
    h = vx_mix(h, (uint64_t)d->streamStage); h = vx_mix(h, (uint64_t)d->stage); h = vx_mix(h, d->expected); h = vx_mix(h, d->inPos);
    h = vx_mix(h, d->outStart); h = vx_mix(h, d->outEnd); h = vx_mix(h, d->lhSize); h = vx_mix(h, d->hostageByte);
    return h;
}

typedef struct { const rec_t* r; layout_t L; ZSTD_DCtx* d; size_t wsSize; long states, transitions, probes, zeroReturns; int failed; int depthMax; } search_t;

static int frame_index(const layout_t* L, size_t consumed) { int f = 0; while (f < L->n && consumed >= L->inEnd[f]) f++; return f; }

/* one call from the current context state; returns 0 ok, 1 violation (vx_fail already called) */
static int do_call(search_t* S, pos_t* p, size_t slice, size_t cap, int* progressed) {
    const rec_t* r = S->r;
    if (slice > r->flen - p->consumed) slice = r->flen - p->consumed;
    ZSTD_inBuffer in = { r->frame + p->consumed, slice, 0 }; ZSTD_outBuffer out = { g_obuf, cap, 0 };
    size_t ret = ZSTD_decompressStream(S->d, &out, &in);
    S->transitions++;
    *progressed = (in.pos || out.pos);
    if (ZSTD_isError(ret)) {
        ZSTD_ErrorCode ec = ZSTD_getErrorCode(ret);
        if (!*progressed && (ec == ZSTD_error_noForwardProgress_destFull || ec == ZSTD_error_noForwardProgress_inputEmpty)) return 2;   /* legitimate refusal to spin */
        if (g_judge & 1) { vx_fail("valid stream rejected by decompressStream at in=%zu out=%zu (slice %zu cap %zu): %s", p->consumed, p->produced, slice, cap, ZSTD_getErrorName(ret)); return 1; }
        return 2;
    }
    if (in.pos > in.size || out.pos > out.size) { vx_fail("position beyond buffer"); return 1; }
    if ((g_judge & 1) && (p->produced + out.pos > r->clen || memcmp(g_obuf, r->content + p->produced, out.pos))) { vx_fail("streaming output differs from the specified content at offset %zu", p->produced); return 1; }
    if ((g_judge & 2) && slice > 0 && cap > 0 && !*progressed && ret != 0) { vx_fail("decompressStream given input and output space made no progress"); return 1; }
    size_t c2 = p->consumed + in.pos, o2 = p->produced + out.pos;
    /* completion is reported exactly at frame ends: 0 <=> the last byte of a frame is consumed and its output flushed */
    int atEnd = 0; for (int f = 0; f < S->L.n; f++) if (c2 == S->L.inEnd[f] && o2 == S->L.outEnd[f]) atEnd = 1;
    if (ret == 0) {
        S->zeroReturns++;
        if (!atEnd && (g_judge & 5)) { vx_fail("decompressStream returned 0 at in=%zu out=%zu, not a frame end (proper prefix reported complete)", c2, o2); return 1; }
    } else if (atEnd && *progressed && (g_judge & 1)) {
        /* frame fully consumed and flushed but not reported: allowed only if output is still pending inside (it is not: o2 == outEnd) */
        vx_fail("frame end reached at in=%zu out=%zu but decompressStream returned %zu instead of 0", c2, o2, ret); return 1;
    }
    if (ret != 0 && (g_judge & 2)) {
        /* the hint never points beyond the end of the current frame */
        int f = frame_index(&S->L, c2);
        if (f < S->L.n && c2 + ret > S->L.inEnd[f] + 0 && in.pos == in.size && S->d->streamStage != zdss_flush) {
            /* judged on the pure hint-following walk below; here only recorded */
        }
    }
    p->consumed = c2; p->produced = o2; p->hint = ret;
    return 0;
}

static void dfs(search_t* S, pos_t p, int depth) {
    if (S->failed) return;
    if (depth > S->depthMax) S->depthMax = depth;
    if (!vis_insert(state_key(S->d, &p))) return;
    S->states++;
    if (depth > 6000) { vx_fail("state graph deeper than 6000 calls"); S->failed = 1; return; }
    u8* snap = (u8*)malloc(S->wsSize); memcpy(snap, g_ws, S->wsSize);
    size_t left = S->r->flen - p.consumed;
    size_t slices[7] = { 0, 1, 2, 3, p.hint, p.hint ? p.hint - 1 : 0, left };
    size_t caps[4] = { 0, 1, 2, g_ample };
    for (int si = 0; si < 7 && !S->failed; si++) for (int ci = 0; ci < 4 && !S->failed; ci++) {
        int dup = 0; for (int k = 0; k < si; k++) if ((slices[k] > left ? left : slices[k]) == (slices[si] > left ? left : slices[si])) dup = 1;
        if (dup) continue;
        pos_t q = p; int prog = 0;
        int rc = do_call(S, &q, slices[si], caps[ci], &prog);
        if (rc == 1) { S->failed = 1; break; }
        if (rc == 0 && prog) dfs(S, q, depth + 1);
        else if (rc == 0) {
            /* no progress: the decoder must be in the same state (only its no-progress counter may move) */
            S->probes++;
            pos_t chk = p; chk.hint = q.hint;
            if (q.hint != p.hint && p.hint != (size_t)-1 && (g_judge & 1)) { /* a changed hint without progress is legal (e.g. first call); not judged */ }
            (void)chk;
        }
        memcpy(g_ws, snap, S->wsSize);
    }
    free(snap);
}

static void body(void) {
    /* every stride-th catalogue record, plus always the 12 compressor-made streams at the tail */
    int ncat = g_nrec - 12, nsel = (ncat + g_stride - 1) / g_stride;
    int w = vx_choose(nsel + 12);
    int idx = (w < nsel) ? w * g_stride : ncat + (w - nsel);
    if (idx >= g_nrec) idx = g_nrec - 1;
    const rec_t* r = &g_rec[idx];
    vx_label("rec#%d %s ;; len=%zu content=%zu dict=%zu", idx, r->name, r->flen, r->clen, r->dlen);
    search_t S; memset(&S, 0, sizeof S); S.r = r;
    if (layout_of(r, &S.L)) { vx_fail("catalogue record not accepted by the reference decoder: %s", r->name); return; }
    /* ---- pure hint-following walk (C10c): feed exactly what is asked ---- */
    ZSTD_DCtx* hd = ZSTD_createDCtx(); ZSTD_DDict* hdd = NULL;
    if (r->dlen) { hdd = ZSTD_createDDict(r->dict, r->dlen); ZSTD_DCtx_refDDict(hd, hdd); }
    for (int prior = 0; prior < 3 && !vx_failed; prior++) {
        /* prior 1 / 2: the context first decoded another frame whose output was never drained - every input byte given, one byte of output room per call, 3 calls /
         * until the input is used up - and was then abandoned (the walk starts with ZSTD_initDStream, i.e. a session reset): nothing of that session may carry over */
        if (prior) {
            static u8 pf[2048]; static size_t pfl; static u8 ptext[1500];
            if (!pfl) { fill_text(ptext, sizeof ptext, 61); pfl = ZSTD_compress(pf, sizeof pf, ptext, sizeof ptext, 1); }
            ZSTD_initDStream(hd); ZSTD_inBuffer pin = { pf, pfl, 0 }; u8 one[1];
            for (int pc = 0; pc < (prior == 1 ? 3 : 4000); pc++) { ZSTD_outBuffer po = { one, 1, 0 }; size_t pr = ZSTD_decompressStream(hd, &po, &pin); if (ZSTD_isError(pr) || pr == 0) break; if (prior == 2 && pin.pos == pin.size && pc > 20) break; }
        }
        size_t consumed = 0, produced = 0, hint = ZSTD_initDStream(hd), sumHints = 0; int f = 0; size_t frameStart = 0;
        if (r->dlen) ZSTD_DCtx_refDDict(hd, hdd);
        for (int it = 0; it < 100000 && consumed < r->flen; it++) {
            size_t give = hint; if (give > r->flen - consumed) give = r->flen - consumed;
            if ((g_judge & 2) && consumed + hint > S.L.inEnd[f]) { vx_fail("hint-following: decoder asks for %zu bytes at offset %zu, beyond the end of the current frame (%zu)", hint, consumed, S.L.inEnd[f]); break; }
            ZSTD_inBuffer in = { r->frame + consumed, give, 0 }; ZSTD_outBuffer out = { g_obuf, g_ample, 0 };
            size_t ret = ZSTD_decompressStream(hd, &out, &in);
            if (ZSTD_isError(ret)) { if (g_judge & 1) vx_fail("hint-following: valid stream rejected: %s", ZSTD_getErrorName(ret)); break; }
            if ((g_judge & 1) && (produced + out.pos > r->clen || memcmp(g_obuf, r->content + produced, out.pos))) { vx_fail("hint-following: output differs at offset %zu", produced); break; }
            sumHints += give; consumed += in.pos; produced += out.pos;
            if ((g_judge & 2) && in.pos != give && out.pos < (g_ample)) { vx_fail("hint-following: %zu bytes asked and given, only %zu consumed", give, in.pos); break; }
            if (ret == 0) {
                if ((g_judge & 2) && consumed != S.L.inEnd[f]) { vx_fail("hint-following: completion reported at offset %zu, the frame ends at %zu", consumed, S.L.inEnd[f]); break; }
                if ((g_judge & 2) && sumHints != S.L.inEnd[f] - frameStart) { vx_fail("hint-following: hints sum to %zu, the frame is %zu bytes", sumHints, S.L.inEnd[f] - frameStart); break; }
                frameStart = consumed; sumHints = 0; f++; hint = ZSTD_initDStream(hd); if (r->dlen) ZSTD_DCtx_refDDict(hd, hdd);
                if (f >= S.L.n) break;
            } else hint = ret;
        }
        if (!vx_failed && (g_judge & 1) && (consumed != r->flen || produced != r->clen)) vx_fail("hint-following: stopped at in=%zu/%zu out=%zu/%zu", consumed, r->flen, produced, r->clen);
    }
    /* ---- the same walk for a reader with a small buffer: each call gets min(asked, cap) bytes, ample output.  The regenerated bytes are the
     * content, every byte given is taken, and completion comes exactly at the frame end, never before or beyond ---- */
    {   static const size_t CAPS[] = {1, 2, 3, 5, 16, 64};
        for (int ci = 0; ci < 6 && !vx_failed; ci++) {
            size_t consumed = 0, produced = 0, hint = ZSTD_initDStream(hd); int f = 0; if (r->dlen) ZSTD_DCtx_refDDict(hd, hdd);
            for (long it = 0; it < 400000 && consumed < r->flen; it++) {
                size_t give = hint < CAPS[ci] ? hint : CAPS[ci]; if (give > r->flen - consumed) give = r->flen - consumed;
                /* (what is asked after a partial delivery is not judged: the property speaks of a reader that delivers exactly what was asked) */
                ZSTD_inBuffer in = { r->frame + consumed, give, 0 }; ZSTD_outBuffer out = { g_obuf, g_ample, 0 };
                size_t ret = ZSTD_decompressStream(hd, &out, &in);
                if (ZSTD_isError(ret)) { if (g_judge & 3) vx_fail("reader with a %zu-byte buffer: valid stream rejected: %s", CAPS[ci], ZSTD_getErrorName(ret)); break; }
                if ((g_judge & 3) && (produced + out.pos > r->clen || memcmp(g_obuf, r->content + produced, out.pos))) { vx_fail("reader with a %zu-byte buffer: output differs at offset %zu", CAPS[ci], produced); break; }
                consumed += in.pos; produced += out.pos;
                if ((g_judge & 2) && in.pos != give) { vx_fail("reader with a %zu-byte buffer: %zu bytes given, only %zu consumed although output space was ample", CAPS[ci], give, in.pos); break; }
                if (ret == 0) {
                    if ((g_judge & 2) && consumed != S.L.inEnd[f]) { vx_fail("reader with a %zu-byte buffer: completion reported at offset %zu, the frame ends at %zu", CAPS[ci], consumed, S.L.inEnd[f]); break; }
                    f++; hint = ZSTD_initDStream(hd); if (r->dlen) ZSTD_DCtx_refDDict(hd, hdd);
                    if (f >= S.L.n) break;
                } else hint = ret;
            }
            if (!vx_failed && (g_judge & 3) && (consumed != r->flen || produced != r->clen)) vx_fail("reader with a %zu-byte buffer: stopped at in=%zu/%zu out=%zu/%zu", CAPS[ci], consumed, r->flen, produced, r->clen);
        }
    }
    ZSTD_freeDCtx(hd); ZSTD_freeDDict(hdd);
    if (vx_failed) return;
    /* ---- whole / byte-by-byte segmentations for every record; closed graph for the small ones ---- */
    for (int mode = 0; mode < 2 && !vx_failed; mode++) {
        ZSTD_DCtx* d = ZSTD_createDCtx(); ZSTD_DDict* dd = NULL; if (r->dlen) { dd = ZSTD_createDDict(r->dict, r->dlen); ZSTD_DCtx_refDDict(d, dd); }
        size_t consumed = 0, produced = 0; size_t ret = 1;
        for (int it = 0; it < 4000000 && (consumed < r->flen); it++) {
            size_t give = mode ? 1 : r->flen - consumed; size_t cap = mode ? 1 : (g_ample);
            ZSTD_inBuffer in = { r->frame + consumed, give, 0 }; ZSTD_outBuffer out = { g_obuf, cap, 0 };
            ret = ZSTD_decompressStream(d, &out, &in);
            if (ZSTD_isError(ret)) { if (g_judge & 1) vx_fail("segmentation %s: valid stream rejected: %s", mode ? "1-byte" : "whole", ZSTD_getErrorName(ret)); break; }
            if ((g_judge & 1) && (produced + out.pos > r->clen || memcmp(g_obuf, r->content + produced, out.pos))) { vx_fail("segmentation %s: output differs at %zu", mode ? "1-byte" : "whole", produced); break; }
            consumed += in.pos; produced += out.pos;
            if (!in.pos && !out.pos && mode == 0) break;
        }
        /* drain pending output */
        for (int it = 0; it < 2000000 && !vx_failed && ret != 0 && !ZSTD_isError(ret); it++) { ZSTD_inBuffer in = { r->frame + consumed, 0, 0 }; ZSTD_outBuffer out = { g_obuf, mode ? 1 : (g_ample), 0 }; ret = ZSTD_decompressStream(d, &out, &in);
            if (!ZSTD_isError(ret) && (g_judge & 1) && (produced + out.pos > r->clen || memcmp(g_obuf, r->content + produced, out.pos))) { vx_fail("segmentation drain: output differs"); } produced += out.pos; if (!out.pos) break; }
        if (!vx_failed && (g_judge & 1) && (consumed != r->flen || produced != r->clen)) vx_fail("segmentation %s: stopped at in=%zu/%zu out=%zu/%zu", mode ? "1-byte" : "whole", consumed, r->flen, produced, r->clen);
        ZSTD_freeDCtx(d); ZSTD_freeDDict(dd);
    }
    if (vx_failed) return;
    if ((int)r->flen <= g_maxlen && (int)r->clen <= 4 * g_maxlen) {
        /* the static block must fit the largest window among the record's frames */
        size_t need = ZSTD_estimateDStreamSize(4096);
        for (int f = 0; f < S.L.n; f++) if (!S.L.skippable[f]) { size_t st = f ? S.L.inEnd[f - 1] : 0; size_t ws = ZSTD_estimateDStreamSize_fromFrame(r->frame + st, r->flen - st); if (!ZSTD_isError(ws) && ws > need) need = ws; }
        if (need <= 400000) {
            S.wsSize = need; memset(g_ws, 0, need);
            S.d = ZSTD_initStaticDStream(g_ws, need);
            ZSTD_DDict* sdd = NULL;
            if (S.d && r->dlen) { size_t dsz = ZSTD_estimateDDictSize(r->dlen, ZSTD_dlm_byCopy); if (dsz <= (1u << 20)) sdd = (ZSTD_DDict*)ZSTD_initStaticDDict(g_ddws, dsz, r->dict, r->dlen, ZSTD_dlm_byCopy, ZSTD_dct_auto); if (sdd) ZSTD_DCtx_refDDict(S.d, sdd); }
            if (S.d && (!r->dlen || sdd)) {
                memset(g_vis, 0, sizeof g_vis); g_nvis = 0;
                pos_t p0 = { 0, 0, ZSTD_initDStream(S.d) }; if (sdd) ZSTD_DCtx_refDDict(S.d, sdd);
                dfs(&S, p0, 0);
                vx_stat_add("graph_states", S.states); vx_stat_add("graph_transitions", S.transitions); vx_stat_add("graphs_closed", 1); vx_stat_max("max_graph_depth", S.depthMax); vx_stat_add("zero_returns_checked", S.zeroReturns);
            } else vx_stat_add("graphs_skipped_static_init", 1);
        } else vx_stat_add("graphs_skipped_large_window", 1);
    } else vx_stat_add("graphs_skipped_long_stream", 1);
    vx_obs_u64((uint64_t)idx); vx_obs_u64((uint64_t)S.states);
    if (S.states > 8) vx_nontrivial();
    if (vx_want_sample()) vx_sample("rec#%d %s: %zu B -> %zu B, %d frame(s); graph %ld states %ld transitions depth %d", idx, r->name, r->flen, r->clen, S.L.n, S.states, S.transitions, S.depthMax);
}

int main(int argc, char** argv) { return vx_main(argc, argv, init, body); }
