/* C02 / C10 / C09(pledge) — streaming compressor: every call history (in-slice, out-capacity, directive) up to a
 * depth on the real context, with state caching on the full context image.  The context is a static CStream
 * placed with every buffer in an arena at a fixed address, so its raw bytes are a canonical state key shared
 * by all worker processes. */
#include "common.h"
#include "zstd_compress_internal.h"

#define ARENA_BASE ((void*)0x7e0000000000ull)
#define ARENA_SIZE (64u << 20)
static u8* g_arena; static u8 *g_src, *g_dst, *g_out, *g_scratch, *g_ws; static size_t g_wsSize;
static int g_depth, g_api, g_pledge, g_judge;   /* judge bits: 1 C02 round trip, 2 C10 progress/flush, 4 C09 pledge, 8 C05 conformance */

typedef struct { const char* name; int strategy, wlog, mbs, tcbs, ck, ldm, level; } cfg_t;
static const cfg_t CFG[] = {
    {"fast-w10-b1k", 1, 10, 1024, 0, 0, 0, 0}, {"lazy2-w10-b1k-ck", 5, 10, 1024, 0, 1, 0, 0}, {"btopt-w10-b1k", 7, 10, 1024, 0, 0, 0, 0},
    {"dfast-w11-tcbs", 2, 11, 0, 1340, 0, 0, 0}, {"greedy-w10-ldm", 3, 10, 1024, 0, 0, 1, 0}, {"level3-w10", 0, 10, 0, 0, 1, 0, 3},
};
enum { NCFG = sizeof CFG / sizeof CFG[0] };

static void init(void) {
    g_depth = (int)vx_opt_int("--depth", 3); g_api = (int)vx_opt_int("--api", 0); g_pledge = (int)vx_opt_int("--pledge", 0); g_judge = (int)vx_opt_int("--judge", 15);
    g_arena = (u8*)mmap(ARENA_BASE, ARENA_SIZE, PROT_READ | PROT_WRITE, MAP_PRIVATE | MAP_ANONYMOUS | MAP_FIXED_NOREPLACE, -1, 0);
    if (g_arena != ARENA_BASE) { fprintf(stderr, "arena: fixed mapping failed\n"); exit(3); }
    g_src = g_arena; g_dst = g_arena + (1u << 20); g_out = g_arena + (3u << 20); g_scratch = g_arena + (5u << 20); g_ws = g_arena + (8u << 20);
}

static size_t make_input(int kind, u8* p) {
    switch (kind) {
    case 0: fill_text(p, 3500, 7); memcpy(p + 2600, p + 90, 700); return 3500;            /* compressible, with a repeat 2.5 KiB back (beyond the window) */
    case 1: fill_noise(p, 2600, 9); return 2600;                                          /* incompressible */
    case 2: memset(p, 'r', 5000); p[1023] = 'x'; p[1024] = 'y'; p[3000] = 'z'; return 5000;   /* RLE-ish, marks at block edges */
    default: for (size_t i = 0; i < 6200; i++) p[i] = (i % 1024 == 1023) ? (u8)'X' : (u8)("abc\0"[i & 3]); return 6200;      /* period 4 with a zero byte in it, the last byte of every KiB replaced: a repcode match that starts on the first byte of a new segment of the input ring may not look at the byte in front of it */
    }
}

/* per-process memo of oracle verdicts: the same (emitted bytes, consumed prefix, question) always gets the same answer */
#define MEMO_BITS 20
static uint64_t g_memo[1u << MEMO_BITS];
static int memo_seen(uint64_t k) {
    k |= 1; uint64_t i = (k * 0x9e3779b97f4a7c15ull) >> (64 - MEMO_BITS);
    for (int p = 0; p < 64; p++, i = (i + 1) & ((1u << MEMO_BITS) - 1)) { if (g_memo[i] == k) return 1; if (g_memo[i] == 0) { g_memo[i] = k; return 0; } }
    return 0;
}

/* full-output oracle: everything emitted decodes (one-shot and streaming) to exactly the bytes consumed */
static int check_decodes(const u8* out, size_t outLen, const u8* src, size_t consumed, int complete, const char* when) {
    if (memo_seen(vx_mix(vx_mix(vx_hash(out, outLen), vx_hash(src, consumed)), (uint64_t)complete + 3))) return 0;
    ZSTD_DCtx* d = ZSTD_createDCtx(); ZSTD_inBuffer in = { out, outLen, 0 }; ZSTD_outBuffer o = { g_out, 1u << 20, 0 };
    size_t r = 1; int it = 0;
    while (in.pos < in.size && !ZSTD_isError(r) && it++ < 100000) r = ZSTD_decompressStream(d, &o, &in);
    ZSTD_freeDCtx(d);
    if (ZSTD_isError(r)) { vx_fail("%s: emitted bytes do not decode: %s", when, ZSTD_getErrorName(r)); return 1; }
    if (o.pos != consumed || (consumed && memcmp(g_out, src, consumed))) { vx_fail("%s: %zu bytes consumed but the emitted bytes decode to %zu bytes%s", when, consumed, o.pos, o.pos == consumed ? " with different content" : ""); return 1; }
    if (complete) {
        if (r != 0 && outLen) { vx_fail("%s: end reported complete but the streaming decoder still expects %zu bytes", when, r); return 1; }
        size_t r1 = ZSTD_decompress(g_out, 1u << 20, out, outLen);
        if (ZSTD_isError(r1) || r1 != consumed || (consumed && memcmp(g_out, src, consumed))) { vx_fail("%s: one-shot decode of the complete stream fails or differs", when); return 1; }
    }
    return 0;
}

/* --api 2: the decoder's output ring under irregular block sizes.  Window 1 KiB, frame = two full blocks, a short block of c bytes, then a block with an early
 * match that reaches back almost a full window and L Huffman-coded literals, each piece flushed: the ring (window + 2 blocks + 64) restarts c bytes past its
 * nominal turn.  The frame is decoded by the streaming decoder under four slicings (and with a stable output buffer) and must equal the one-shot result. */
static void body_ring(void) {
    static const int CS[] = {1, 2, 3, 5, 8, 13, 21, 34, 55, 64, 90, 150, 230, 400, 700, 1023}; static const int DS[] = {3, 500, 940, 1000, 1020, 1023, 1024}; static const int LS[] = {40, 100, 400, 800};
    int c = CS[vx_choose(16)], d = DS[vx_choose(7)], L = LS[vx_choose(4)], lv = vx_choose(3), pre = vx_choose(3);
    static const int LV[] = {1, 5, 19};
    vx_label("ring c=%d dist=%d lits=%d level=%d preblocks=%d", c, d, L, LV[lv], 2 + pre);
    u8* p = g_src; size_t n = 0; uint32_t sd = 5;
    fill_text(p, (size_t)(2 + pre) * 1024, 17); n = (size_t)(2 + pre) * 1024;
    for (int k = 0; k < c; k++) { sd = sd * 1103515245u + 12345u; p[n++] = (u8)('A' + (sd >> 16) % 20); }
    for (int k = 0; k < 96; k++) { p[n] = p[n - (size_t)d]; n++; }
    for (int k = 0; k < L; k++) { sd = sd * 1103515245u + 12345u; unsigned v = (sd >> 16) % 40; p[n++] = (u8)('a' + v * v / 40); }
    ZSTD_CCtx* cc = ZSTD_createCCtx(); ZSTD_CCtx_setParameter(cc, ZSTD_c_compressionLevel, LV[lv]); ZSTD_CCtx_setParameter(cc, ZSTD_c_windowLog, 10); ZSTD_CCtx_setParameter(cc, ZSTD_c_checksumFlag, 1);
    ZSTD_outBuffer out = { g_dst, 1u << 20, 0 }; size_t cuts[8]; int nc = 0; for (int b = 1; b <= 2 + pre; b++) cuts[nc++] = (size_t)b * 1024; cuts[nc++] = (size_t)(2 + pre) * 1024 + (size_t)c; cuts[nc++] = n;
    size_t pos = 0; for (int k = 0; k < nc; k++) { ZSTD_inBuffer in = { p, cuts[k], pos }; size_t r; do { r = ZSTD_compressStream2(cc, &out, &in, k == nc - 1 ? ZSTD_e_end : ZSTD_e_flush); } while (r && !ZSTD_isError(r)); if (ZSTD_isError(r)) { vx_fail("compressStream2: %s", ZSTD_getErrorName(r)); ZSTD_freeCCtx(cc); return; } pos = in.pos; }
    ZSTD_freeCCtx(cc);
    {   size_t r1 = ZSTD_decompress(g_out, 1u << 20, g_dst, out.pos); if (ZSTD_isError(r1) || r1 != n || memcmp(g_out, p, n)) { vx_fail("one-shot decode of the streamed frame fails or differs"); return; } }
    static const size_t SL[][2] = {{1u << 20, 1u << 20}, {1, 1}, {7, 129}, {300, 1024}, {1u << 20, 1u << 20}};
    for (int v = 0; v < 5 && !vx_failed; v++) {
        ZSTD_DCtx* dc = ZSTD_createDCtx(); if (v == 4) ZSTD_DCtx_setParameter(dc, ZSTD_d_stableOutBuffer, 1);
        memset(g_out, 0x5A, n + 64); size_t ip = 0, op = 0, r = 1; long it = 0;
        while (!ZSTD_isError(r) && it++ < 4000000 && (ip < out.pos || r != 0)) {
            size_t ie = ip + SL[v][0] > out.pos ? out.pos : ip + SL[v][0], oe = v == 4 ? n + 64 : (op + SL[v][1] > n + 64 ? n + 64 : op + SL[v][1]);
            ZSTD_inBuffer in = { g_dst, ie, ip }; ZSTD_outBuffer o = { g_out, oe, op }; size_t before = ip + op; r = ZSTD_decompressStream(dc, &o, &in); ip = in.pos; op = o.pos;
            if (r != 0 && ip + op == before && ip == out.pos) break;
        }
        ZSTD_freeDCtx(dc);
        if (ZSTD_isError(r)) vx_fail("streaming decode (slicing %d) of a valid frame fails: %s", v, ZSTD_getErrorName(r));
        else if (op != n || memcmp(g_out, p, n)) { size_t k = 0; while (k < n && k < op && g_out[k] == p[k]) k++; vx_fail("streaming decode (slicing %d) differs from the one-shot result (%zu of %zu bytes, first difference at byte %zu)", v, op, n, k); }
    }
    vx_obs_u64(vx_hash(g_dst, out.pos)); vx_nontrivial(); vx_stat_add("transitions", 5);
}

/* --api 3: stable-buffer modes.  With ZSTD_c_stableInBuffer the caller shows the same, growing buffer on every call; every history of <= 3 calls
 * (continue / flush, the buffer grown by 50 .. 140 000 bytes each time) followed by end; with and without ZSTD_c_stableOutBuffer.  After every completed
 * flush the output so far decodes to exactly what was consumed; the finished frame decodes to the whole input. */
static void body_stable(void) {
    static const size_t GROW[] = {50, 300, 5000, 70000, 140000}; int ncalls = vx_choose(g_depth + 1), stableOut = vx_choose(2), tex = vx_choose(2), lvl = vx_choose(2) ? 1 : 5, lastGrow = vx_choose(2);
    int g[4], dir[4]; char hs[160] = ""; size_t ho = 0; for (int i = 0; i < ncalls; i++) { g[i] = vx_choose(5); dir[i] = vx_choose(2); ho += snprintf(hs + ho, sizeof hs - ho, "%s+%zu ", dir[i] ? "flush" : "continue", GROW[g[i]]); }
    vx_label("stableIn stableOut=%d texture%d level%d [%s] end+%d", stableOut, tex, lvl, hs, lastGrow ? 50 : 0);
    size_t total = 0; for (int i = 0; i < ncalls; i++) total += GROW[g[i]]; total += lastGrow ? 50 : 0;
    if (tex) fill_noise(g_src, total, 3); else fill_text(g_src, total, 12);
    ZSTD_CCtx* c = ZSTD_createCCtx(); ZSTD_CCtx_setParameter(c, ZSTD_c_compressionLevel, lvl); ZSTD_CCtx_setParameter(c, ZSTD_c_stableInBuffer, 1); if (stableOut) ZSTD_CCtx_setParameter(c, ZSTD_c_stableOutBuffer, 1); ZSTD_CCtx_setParameter(c, ZSTD_c_checksumFlag, 1);
    ZSTD_inBuffer in = { g_src, 0, 0 }; ZSTD_outBuffer out = { g_dst, 1u << 20, 0 };
    for (int i = 0; i <= ncalls && !vx_failed; i++) {
        int last = i == ncalls; in.size += last ? (lastGrow ? 50 : 0) : GROW[g[i]]; ZSTD_EndDirective d = last ? ZSTD_e_end : dir[i] ? ZSTD_e_flush : ZSTD_e_continue; size_t r; int guard = 0;
        do { r = ZSTD_compressStream2(c, &out, &in, d); if (ZSTD_isError(r)) { vx_fail("compressStream2 in stable-input mode: %s", ZSTD_getErrorName(r)); break; } } while (d != ZSTD_e_continue && r != 0 && ++guard < 1000);
        if (vx_failed) break;
        if (in.pos > in.size) { vx_fail("input position beyond the buffer"); break; }
        if (d != ZSTD_e_continue && in.pos != in.size) { vx_fail("%s completed with %zu of %zu bytes consumed", last ? "end" : "flush", in.pos, in.size); break; }
        if (d != ZSTD_e_continue && check_decodes(g_dst, out.pos, g_src, in.pos, last, last ? "after end" : "after a completed flush")) break;
    }
    ZSTD_freeCCtx(c);
    vx_obs_u64(vx_hash(g_dst, out.pos)); vx_nontrivial(); vx_stat_add("transitions", ncalls + 1);
}

static void body(void) {
    if (g_api == 2) { body_ring(); return; }
    if (g_api == 3) { body_stable(); return; }
    int ncfg = (int)vx_opt_int("--ncfg", NCFG); if (ncfg > NCFG) ncfg = NCFG;
    int ci = vx_choose(ncfg); const cfg_t* cf = &CFG[ci];
    int kind = vx_choose(4);
    size_t n = make_input(kind, g_src);
    /* parameters through a params object so that the static workspace is sized for exactly them */
    ZSTD_CCtx_params* P = ZSTD_createCCtxParams();
    if (cf->strategy) { ZSTD_CCtxParams_setParameter(P, ZSTD_c_strategy, cf->strategy); ZSTD_CCtxParams_setParameter(P, ZSTD_c_hashLog, 7); ZSTD_CCtxParams_setParameter(P, ZSTD_c_chainLog, 7);
                        ZSTD_CCtxParams_setParameter(P, ZSTD_c_searchLog, 2); ZSTD_CCtxParams_setParameter(P, ZSTD_c_minMatch, cf->strategy >= 6 ? 3 : 4); ZSTD_CCtxParams_setParameter(P, ZSTD_c_targetLength, cf->strategy >= 7 ? 16 : 0); }
    else ZSTD_CCtxParams_setParameter(P, ZSTD_c_compressionLevel, cf->level);
    ZSTD_CCtxParams_setParameter(P, ZSTD_c_windowLog, cf->wlog);
    if (cf->mbs) ZSTD_CCtxParams_setParameter(P, ZSTD_c_maxBlockSize, cf->mbs);
    if (cf->tcbs) ZSTD_CCtxParams_setParameter(P, ZSTD_c_targetCBlockSize, cf->tcbs);
    if (cf->ck) ZSTD_CCtxParams_setParameter(P, ZSTD_c_checksumFlag, 1);
    if (cf->ldm) { ZSTD_CCtxParams_setParameter(P, ZSTD_c_enableLongDistanceMatching, ZSTD_ps_enable); ZSTD_CCtxParams_setParameter(P, ZSTD_c_ldmHashLog, 7); ZSTD_CCtxParams_setParameter(P, ZSTD_c_ldmMinMatch, 16); }
    g_wsSize = ZSTD_estimateCStreamSize_usingCCtxParams(P);
    if (ZSTD_isError(g_wsSize) || g_wsSize > (40u << 20)) { vx_fail("estimateCStreamSize failed"); ZSTD_freeCCtxParams(P); return; }
    memset(g_ws, 0, g_wsSize);
    ZSTD_CCtx* c = ZSTD_initStaticCStream(g_ws, g_wsSize);
    if (!c) { vx_fail("initStaticCStream failed"); ZSTD_freeCCtxParams(P); return; }
    size_t e = ZSTD_CCtx_setParametersUsingCCtxParams(c, P); ZSTD_freeCCtxParams(P);
    if (ZSTD_isError(e)) { vx_fail("setParametersUsingCCtxParams: %s", ZSTD_getErrorName(e)); return; }
    /* C09: pledged source size, right or wrong */
    long long pledge = -1;
    if (g_pledge) { static const long long dl[] = {0, -1, 1, 0, 1ll << 32}; int pk = vx_choose(5); pledge = (pk == 3) ? 0 : (long long)n + dl[pk]; ZSTD_CCtx_setPledgedSrcSize(c, (unsigned long long)pledge); }
    size_t blockSize = cf->mbs ? (size_t)cf->mbs : ((size_t)1 << cf->wlog); if (blockSize > 128 * 1024) blockSize = 128 * 1024;
    size_t bb = ZSTD_compressBound(blockSize);

    size_t consumed = 0, produced = 0; int frameOpen = 0, nflushOK = 0, nendOK = 0, endPending = 0; size_t pendingIn = 0; uint64_t emitHash = 0;
    size_t frameConsumed = 0; int callsInFrame = 0;
    char hist[400]; size_t ho = 0; hist[0] = 0;
    int pledgeError = 0; long long drainTotal = -1;
    for (int step = 0; step < g_depth; step++) {
        /* state caching on the full context image */
        uint64_t key = vx_hash(g_ws, g_wsSize); key = vx_mix(key, consumed); key = vx_mix(key, emitHash); key = vx_mix(key, (uint64_t)(ci * 16 + kind * 4 + g_api) ^ ((uint64_t)(pledge + 7) << 8)); key = vx_mix(key, (uint64_t)(g_depth - step));
        vx_stat_add("transitions", 1);
        if (vx_visited(key)) { /* an identical state with at least as many steps left was expanded elsewhere */ }
        /* ---- the call ---- */
        size_t t = (c->inBuffTarget > c->inBuffPos) ? c->inBuffTarget - c->inBuffPos : 0;
        int ic = vx_choose(6), oc = vx_choose(6), dir = vx_choose(3);
        /* contract (zstd.h): once ZSTD_e_end has been issued and returned > 0 the caller keeps calling ZSTD_e_end, without new input,
         * until it returns 0; histories that do anything else are outside the property */
        if (endPending && (dir != 2 || ic != 0)) { vx_obs_u64(0x111); return; }
        size_t left = n - consumed, slice;
        switch (ic) { case 0: slice = 0; break; case 1: slice = 1; break; case 2: slice = t ? t - 1 : 2; break; case 3: slice = t ? t : 3; break; case 4: slice = t + 1; break; default: slice = left; }
        if (slice > left) slice = left;
        if (endPending) slice = pendingIn;       /* re-present what the unfinished end call left unconsumed, nothing new */
        size_t cap;
        switch (oc) { case 0: cap = 0; break; case 1: cap = 1; break; case 2: cap = 2; break; case 3: cap = 3; break; case 4: cap = bb - 1; break; default: cap = 1u << 20; }
        if (cap > (2u << 20) - produced) cap = (2u << 20) - produced;
        ho += snprintf(hist + ho, sizeof hist - ho, "(%zu,%zu,%c) ", slice, cap, "cfe"[dir]);
        vx_label("%s input%d api%d pledge%lld ;; %s", cf->name, kind, g_api, pledge, hist);
        ZSTD_inBuffer in = { g_src + consumed, slice, 0 }; ZSTD_outBuffer out = { g_dst + produced, cap, 0 };
        size_t r;
        if (g_api == 0) r = ZSTD_compressStream2(c, &out, &in, (ZSTD_EndDirective)dir);
        else {
            /* classic wrappers: compressStream consumes, flushStream / endStream take no input */
            if (dir == 0) r = ZSTD_compressStream(c, &out, &in);
            else { r = ZSTD_compressStream(c, &out, &in); if (!ZSTD_isError(r) && in.pos == in.size) r = (dir == 1) ? ZSTD_flushStream(c, &out) : ZSTD_endStream(c, &out); else if (!ZSTD_isError(r)) r = 1; }
        }
        /* zstd.h: a first call with ZSTD_e_end overrides the pledge with the size it is given */
        if (g_pledge && callsInFrame == 0 && dir == 2) pledge = -1;
        callsInFrame++;
        if (ZSTD_isError(r)) {
            /* srcSize_wrong is the specified answer exactly when the frame is ended with a total other than the pledge, or fed beyond it */
            if (g_pledge && pledge >= 0 && ZSTD_getErrorCode(r) == ZSTD_error_srcSize_wrong
                && ((dir == 2 && (long long)(frameConsumed + slice) != pledge) || (long long)(frameConsumed + slice) > pledge)) { pledgeError = 1; break; }
            if (ZSTD_getErrorCode(r) == ZSTD_error_dstSize_tooSmall && g_api == 1) { vx_fail("classic streaming call failed with dstSize_tooSmall"); return; }
            vx_fail("streaming call failed: %s", ZSTD_getErrorName(r)); return;
        }
        if (in.pos > in.size || out.pos > out.size) { vx_fail("position moved beyond its buffer"); return; }
        /* C10(a): consumable input and writable output => progress or completion */
        if ((g_judge & 2) && slice > 0 && cap > 0 && in.pos == 0 && out.pos == 0 && !(dir != 0 && r == 0)) { vx_fail("call given input and output space made no progress"); return; }
        if (out.pos) emitHash = vx_mix(emitHash, vx_hash(g_dst + produced, out.pos));
        consumed += in.pos; produced += out.pos; frameConsumed += in.pos;
        if (in.pos || out.pos) frameOpen = 1;
        endPending = (dir == 2 && r != 0); pendingIn = endPending ? in.size - in.pos : 0;
        if (dir != 0 && r == 0 && in.pos == in.size) {
            /* flush / end reported completion: C10(b) - what was emitted regenerates what was consumed */
            if ((g_judge & (dir == 2 ? 3 : 2)) && check_decodes(g_dst, produced, g_src, consumed, dir == 2, dir == 2 ? "completed end" : "completed flush")) return;
            if (dir == 2) { nendOK++; frameOpen = 0; if ((g_judge & 4) && g_pledge && pledge != (long long)frameConsumed && pledge >= 0) { vx_fail("frame completed with %zu bytes although %lld were pledged", frameConsumed, pledge); return; } pledge = -1; /* a pledge covers one frame */ frameConsumed = 0; callsInFrame = 0; }
            else nflushOK++;
        }
        if (dir != 0 && r == 0 && in.pos != in.size && g_api == 0) { vx_fail("flush/end returned 0 with unconsumed input"); return; }
    }
    /* ---- default drain: feed the rest, end with ample room ---- */
    if (!pledgeError) {
        ZSTD_inBuffer in = { g_src + consumed, endPending ? pendingIn : n - consumed, 0 };
        if (g_pledge && callsInFrame == 0) pledge = -1;
        long long expectTotal = (long long)(frameConsumed + in.size); drainTotal = expectTotal;
        for (int it = 0; ; it++) {
            ZSTD_outBuffer out = { g_dst + produced, (2u << 20) - produced, 0 };
            size_t r = ZSTD_compressStream2(c, &out, &in, ZSTD_e_end);
            produced += out.pos;
            if (ZSTD_isError(r)) {
                if (g_pledge && pledge >= 0 && pledge != expectTotal && ZSTD_getErrorCode(r) == ZSTD_error_srcSize_wrong) { pledgeError = 1; break; }
                vx_fail("drain failed: %s", ZSTD_getErrorName(r)); return;
            }
            if (r == 0 && endPending && in.pos == in.size) { endPending = 0; consumed += in.pos; in.src = g_src + consumed; in.pos = 0; in.size = n - consumed; if (in.size == 0) break; continue; }   /* pending frame closed: the rest goes into a new frame */
            if (r == 0 && in.pos == in.size) break;
            if (it > 64) { vx_fail("drain with ample output does not finish"); return; }
        }
        consumed = n;
    }
    if ((g_judge & 4) && g_pledge && pledge >= 0 && !pledgeError && drainTotal != pledge) { vx_fail("frame completed with %lld bytes although %lld were pledged", drainTotal, pledge); return; }
    if (pledgeError) { vx_obs_u64(0xbad); vx_stat_add("wrong_pledges_refused", 1); return; }
    if ((g_judge & 1) && check_decodes(g_dst, produced, g_src, consumed, 1, "final")) return;
    /* C05 on the streamed frames */
    refcheck_t rc; rc_init(&rc); rc.interop = 1; rc.maxBlockSize = (size_t)cf->mbs; rc.expectChecksum = cf->ck;
    if (memo_seen(vx_mix(vx_mix(vx_hash(g_dst, produced), (uint64_t)kind), 0xC05))) { vx_obs_u64(vx_hash(g_dst, produced)); vx_obs_u64((uint64_t)(nflushOK * 8 + nendOK)); if (nflushOK || nendOK) vx_nontrivial(); return; }
    if (!(g_judge & 8)) { rc.nframes = 1; } else
    if (ref_check(&rc, g_dst, produced, NULL, 0, g_src, consumed, g_scratch, 2u << 20)) { vx_fail("conformance: %s", rc.err); return; }
    vx_obs_u64(vx_hash(g_dst, produced)); vx_obs_u64((uint64_t)(nflushOK * 8 + nendOK));
    if (nflushOK || nendOK || rc.nframes > 1) vx_nontrivial();
    vx_stat_add("flush_completions_checked", nflushOK); vx_stat_add("end_completions_checked", nendOK); vx_stat_max("max_frames", (long)rc.nframes);
    if (vx_want_sample()) vx_sample("%s input%d: %s then drain -> %zu bytes, %zu frame(s), %zu blocks", cf->name, kind, hist, produced, rc.nframes, rc.nblocks);
}

int main(int argc, char** argv) { return vx_main(argc, argv, init, body); }
