/* C17: sequence-level compression.  Valid parses (own greedy parser, the library's extracted sequences, merged,
 * every split of matches near block edges) must yield conformant frames; with validation on, single-field
 * corruptions that break a structural rule must be refused; everything must be memory-safe. */
#include "common.h"
#include "zdict.h"

#define SRCMAX (400u << 10)
#define MAXSEQ (SRCMAX / 3 + 64)
static u8 *g_buf /* dict + src, contiguous */, *g_dst, *g_scratch; static ZSTD_Sequence *g_seq, *g_seq2;
static int g_big;
enum { DICTLEN = 700 };
static u8 g_sdict[DICTLEN + 4096]; static size_t g_sdictLen;      /* structured dictionary: header of g_sdictLen - DICTLEN bytes, then the DICTLEN content bytes */

static void init(void) {
    g_big = (int)vx_opt_int("--big", 0);
    g_buf = (u8*)malloc(DICTLEN + SRCMAX + 64); g_dst = (u8*)malloc(ZSTD_compressBound(SRCMAX) + 1024); g_scratch = (u8*)malloc(SRCMAX + 64);
    g_seq = (ZSTD_Sequence*)malloc(sizeof(ZSTD_Sequence) * MAXSEQ); g_seq2 = (ZSTD_Sequence*)malloc(sizeof(ZSTD_Sequence) * MAXSEQ);
    /* dictionary mode 3: a structured dictionary (magic, ID, entropy tables) whose content section is the same 700 bytes the other modes use as raw content */
    {   static u8 samples[8 * 600]; size_t sizes[8]; u8 content[DICTLEN]; fill_text(content, DICTLEN, 77);
        for (int i = 0; i < 8; i++) { fill_text(samples + i * 600, 600, 40 + (uint32_t)i); memcpy(samples + i * 600 + 50, content + 100 + 20 * i, 200); sizes[i] = 600; }
        ZDICT_params_t zp; memset(&zp, 0, sizeof zp); zp.dictID = 4242;
        size_t r = ZDICT_finalizeDictionary(g_sdict, sizeof g_sdict, content, DICTLEN, samples, sizes, 8, zp);
        if (ZDICT_isError(r) || r <= DICTLEN || memcmp(g_sdict + r - DICTLEN, content, DICTLEN)) { fprintf(stderr, "c17 init: no structured dictionary (%s)\n", ZDICT_isError(r) ? ZDICT_getErrorName(r) : "content not at the tail"); g_sdictLen = 0; }
        else g_sdictLen = r;
    }
}

/* sources: periodic text with planted matches at chosen distances; `kind` varies the texture */
static size_t make_source(int kind, size_t n, u8* p) {
    switch (kind) {
    case 0: fill_text(p, n, 3); break;
    case 1: for (size_t i = 0; i < n; i++) p[i] = (u8)("abcdefgh"[i & 7]); for (size_t i = 50; i < n; i += 211) p[i] = (u8)(i >> 3); break;     /* repcode heavy */
    case 2: fill_noise(p, n, 5); for (size_t i = 300; i + 40 < n; i += 700) memcpy(p + i, p + i - 257, 40); break;                          /* sparse matches */
    case 3: fill_text(p, n, 9); for (size_t i = 1000; i + 600 < n; i += 1500) memcpy(p + i, p + i - 999, 600); break;                      /* long matches crossing edges */
    case 10: {   /* repcode-history probe: every 1 KiB block holds three block-local matches (the last at distance 57); every block but the first starts with a
                  * 16-byte copy from 57 bytes back followed by a 40-byte run: whoever compresses that block needs the right second repcode */
        fill_noise(p, n, 31);
        for (size_t s0 = 0; s0 + 1024 <= n; s0 += 1024) {
            if (s0) { memcpy(p + s0, p + s0 - 57, 16); memset(p + s0 + 16, p[s0 + 15], 40); } else memcpy(p + 50, p + 20, 12);
            memcpy(p + s0 + 300, p + s0 + 200, 12); memcpy(p + s0 + 500, p + s0 + 443, 12); }
        break; }
    case 6: case 7: case 8: case 9: {   /* long-length family (--big 2): 128 KiB of period-1000 data (leaves repcode 1000), then exactly L fresh bytes, then the period resumes:
                  * a sequence with literal length L in {65535, 65536, 65537, 65538} (around the 16-bit long-length escape) whose match is a repcode */
        static const size_t LL[] = {65535, 65536, 65537, 65538}; size_t L = LL[kind - 6], B = 128u << 10;
        fill_noise(p, 1000, 21); for (size_t i = 1000; i < B; i++) p[i] = p[i - 1000];
        fill_noise(p + B, L, 22); for (size_t i = B + L; i < n; i++) p[i] = p[i - 1000];
        break; }
    default: {   /* kinds 4, 5: every other block-size stretch is a run of one byte (a block the compressor may emit as RLE), between stretches that keep
                  * re-using the same few offsets (kind 4: period 8 with sparse changes; kind 5: text with copies at distance 257) */
        size_t B = n > (200u << 10) ? (128u << 10) : 1024;
        if (kind == 4) { for (size_t i = 0; i < n; i++) p[i] = (u8)("abcdefgh"[i & 7]); for (size_t i = 50; i < n; i += 211) p[i] = (u8)(i >> 3); }
        else { fill_text(p, n, 13); for (size_t i = 300; i + 40 < n; i += 400) memcpy(p + i, p + i - 257, 40); }
        for (size_t b = 1; b * B < n; b += 2) { size_t e = (b + 1) * B > n ? n : (b + 1) * B; memset(p + b * B, b & 2 ? 'Q' : 0, e - b * B); }
        break; }
    }
    return n;
}

/* greedy parser, independent of the library: matches of >= minMatch bytes inside [pos - maxOff, pos) */
static size_t greedy_parse(const u8* base /* start of history */, size_t histLen, size_t start, size_t end, int minMatch, size_t W, size_t dictLen, ZSTD_Sequence* out, size_t* lastLits) {
    static int32_t head[1 << 15]; memset(head, 0xff, sizeof head);
    size_t ns = 0, anchor = start; (void)histLen;
    /* index the history before `start` */
    for (size_t i = 0; i + 4 <= start; i++) { uint32_t h = (vf_rd32(base + i) * 2654435761u) >> 17; head[h] = (int32_t)i; }
    for (size_t i = start; i + (size_t)minMatch <= end; ) {
        uint32_t h = (vf_rd32(base + i) * 2654435761u) >> 17; int32_t c = (i + 4 <= end + 0) ? head[h] : -1; head[h] = (int32_t)i;
        size_t posInFrame = i - dictLen;     /* position relative to the start of the source */
        size_t maxOff = posInFrame > W ? W : posInFrame + dictLen;
        if (c >= 0 && i - (size_t)c <= maxOff && i - (size_t)c >= 1) {
            size_t ml = 0; while (i + ml < end && base[c + ml] == base[i + ml]) ml++;
            if (ml >= (size_t)minMatch) {
                out[ns].offset = (unsigned)(i - (size_t)c); out[ns].litLength = (unsigned)(i - anchor); out[ns].matchLength = (unsigned)ml; out[ns].rep = 0; ns++;
                for (size_t k = 1; k < ml && i + k + 4 <= end; k += 3) { uint32_t h2 = (vf_rd32(base + i + k) * 2654435761u) >> 17; head[h2] = (int32_t)(i + k); }
                i += ml; anchor = i; continue;
            }
        }
        i++;
    }
    *lastLits = end - anchor;
    return ns;
}

typedef struct { int mode; int calls; const u8* buf; size_t dictLen; size_t W; int minMatch; int goodBlocks /* > 0: fails from block goodBlocks+1 on */, maxSeq /* > 0: at most that many matches per block */; } producer_t;
static size_t producer_fn(void* st, ZSTD_Sequence* out, size_t cap, const void* src, size_t srcSize, const void* dict, size_t dictSize, int level, size_t windowSize) {
    producer_t* p = (producer_t*)st; (void)dict; (void)dictSize; (void)level; (void)windowSize; p->calls++;
    if (p->mode == 1) return ZSTD_SEQUENCE_PRODUCER_ERROR;
    if (p->mode == 2) return cap + 1;                                   /* "too many sequences" */
    if (p->mode == 3) return 0;                                         /* zero sequences for a non-empty block */
    if (p->goodBlocks > 0 && p->calls > p->goodBlocks) return ZSTD_SEQUENCE_PRODUCER_ERROR;
    /* good parse of this block only (no history: always valid), ending with the last-literals delimiter */
    size_t ll; size_t ns = greedy_parse((const u8*)src, srcSize, 0, srcSize, p->minMatch < 4 ? 4 : p->minMatch, 1u << 30, 0, out, &ll);
    if (p->maxSeq > 0 && ns > (size_t)p->maxSeq) { size_t used = 0; ns = (size_t)p->maxSeq; for (size_t i = 0; i < ns; i++) used += out[i].litLength + out[i].matchLength; ll = srcSize - used; }
    if (ns + 1 > cap) return ZSTD_SEQUENCE_PRODUCER_ERROR;
    out[ns].offset = 0; out[ns].matchLength = 0; out[ns].litLength = (unsigned)ll; out[ns].rep = 0;
    return ns + 1;
}

static void body(void) {
    int kind = vx_choose(g_big == 2 ? 4 : g_big ? 6 : 7), delim = vx_choose(2), repSearch = vx_choose(3), dictMode = vx_choose(g_big == 2 ? 1 : 4), minMatch = (g_big == 2 ? 5 : 3) + vx_choose(g_big == 2 ? 3 : 5), variant = vx_choose(8);
    if (!g_big && kind == 6) kind = 10;
    if (g_big == 2) { kind += 6; if (!(variant == 0 || variant == 5 || variant == 6)) { vx_obs_u64(16); return; } }
    int oversize = (variant == 7);    /* explicit delimiters with one block larger than the frame's block-size limit: to be refused, or emitted within the limit */
    if (oversize && (!delim || g_big)) { vx_obs_u64(17); return; }
    size_t B = g_big ? (128u << 10) : 1024;              /* block size in force */
    size_t n = g_big == 2 ? (B + 65538 + 65536 + 300) : g_big ? (2 * B + 4321) : (4 * B + 333);
    size_t W = g_big ? (1u << 18) : 2048; int wlog = g_big ? 18 : 11;
    size_t dictLen = dictMode ? DICTLEN : 0; long knownGap = 0;
    if (dictMode == 3 && (!g_sdictLen || g_big)) { vx_obs_u64(19); return; }
    fill_text(g_buf, DICTLEN, 77);
    u8* src = g_buf + DICTLEN; make_source(kind, n, src);
    if (dictMode) memcpy(src + 100, g_buf + 300, 200);     /* content found in the dictionary */
    const u8* base = dictMode ? g_buf : src;
    vx_label("kind%d delim%d rep%d dict%d mm%d variant%d big%d", kind, delim, repSearch, dictMode, minMatch, variant, g_big);

    /* ---- build the sequence list ---- */
    size_t ns = 0;
    if (variant == 5 || variant == 6) {
        /* the library's own extracted sequences (with delimiters), optionally merged */
        ZSTD_CCtx* g = ZSTD_createCCtx(); ZSTD_CCtx_setParameter(g, ZSTD_c_compressionLevel, kind == 2 ? 1 : 5); ZSTD_CCtx_setParameter(g, ZSTD_c_windowLog, wlog);
        if (!g_big) ZSTD_CCtx_setParameter(g, ZSTD_c_maxBlockSize, (int)B);
        if (g_big == 2) { ZSTD_CCtx_setParameter(g, ZSTD_c_minMatch, minMatch); ZSTD_CCtx_setParameter(g, ZSTD_c_compressionLevel, repSearch == 0 ? 5 : repSearch == 1 ? 13 : 16); }   /* no chance matches inside the fresh bytes; greedy, btlazy2 and btopt parsers */
        ns = ZSTD_generateSequences(g, g_seq, MAXSEQ, src, n); ZSTD_freeCCtx(g);
        if (ZSTD_isError(ns)) { vx_obs_u64(11); return; }        /* documented as allowed to give up */
        if (variant == 6) { ns = ZSTD_mergeBlockDelimiters(g_seq, ns); if (delim) { vx_obs_u64(12); return; } }
        else if (!delim) { vx_obs_u64(13); return; }
        if (dictMode) { vx_obs_u64(14); return; }                 /* extracted without dictionary */
        minMatch = 3;
    } else if (!delim) {
        size_t ll; ns = greedy_parse(base, dictLen + n, dictLen, dictLen + n, minMatch, W, dictLen, g_seq, &ll);
        /* variants 1..4: split one match that crosses a block edge at every admissible position, edge -1/0/+1 */
        if (variant >= 1 && variant <= 4) {
            size_t pos = 0; int done = 0;
            for (size_t i = 0; i < ns && !done; i++) {
                size_t ms = pos + g_seq[i].litLength, me = ms + g_seq[i].matchLength;
                size_t edge = ((ms / B) + 1) * B;
                if (me > edge && g_seq[i].matchLength >= 2u * (unsigned)minMatch) {
                    long delta = (variant == 1) ? -1 : (variant == 2) ? 0 : (variant == 3) ? 1 : (long)vx_choose(17) - 8;
                    long cut = (long)(edge - ms) + delta;
                    if (cut >= minMatch && (long)g_seq[i].matchLength - cut >= minMatch) {
                        memmove(g_seq + i + 2, g_seq + i + 1, sizeof(ZSTD_Sequence) * (ns - i - 1));
                        g_seq[i + 1] = g_seq[i]; g_seq[i + 1].litLength = 0; g_seq[i + 1].matchLength = g_seq[i].matchLength - (unsigned)cut; g_seq[i].matchLength = (unsigned)cut; ns++; done = 1;
                    }
                }
                pos = me;
            }
            if (!done) { vx_obs_u64(15); return; }
        }
    } else {
        /* explicit delimiters: blocks of irregular sizes, each parsed on its own range with the full history */
        static const size_t cuts0[] = {1024, 1024, 1024, 1024, 1024}, cuts1[] = {700, 1024, 1, 1000, 1024, 1024}, cuts2[] = {1023, 2, 1024, 512, 1024, 1024}, cuts3[] = {700, 1025, 1500, 300, 1024};
        const size_t* cuts = oversize ? cuts3 : variant % 3 == 0 ? cuts0 : variant % 3 == 1 ? cuts1 : cuts2; size_t pos = 0; int ci = 0;
        while (pos < n) {
            size_t bs = g_big ? B : cuts[ci % 5]; if (g_big && (variant & 1)) bs = B - 7; if (bs > n - pos) bs = n - pos; ci++;
            size_t ll; size_t k = greedy_parse(base, dictLen + n, dictLen + pos, dictLen + pos + bs, minMatch, W, dictLen, g_seq + ns, &ll);
            ns += k; g_seq[ns].offset = 0; g_seq[ns].matchLength = 0; g_seq[ns].litLength = (unsigned)ll; g_seq[ns].rep = 0; ns++; pos += bs;
        }
    }

    /* ---- context ---- */
    ZSTD_CCtx* c = ZSTD_createCCtx(); ZSTD_CDict* cd = NULL;
    ZSTD_CCtx_setParameter(c, ZSTD_c_windowLog, wlog); ZSTD_CCtx_setParameter(c, ZSTD_c_minMatch, minMatch); ZSTD_CCtx_setParameter(c, ZSTD_c_compressionLevel, 3);
    if (!g_big) ZSTD_CCtx_setParameter(c, ZSTD_c_maxBlockSize, (int)B);
    ZSTD_CCtx_setParameter(c, ZSTD_c_blockDelimiters, delim ? ZSTD_sf_explicitBlockDelimiters : ZSTD_sf_noBlockDelimiters);
    ZSTD_CCtx_setParameter(c, ZSTD_c_searchForExternalRepcodes, repSearch == 0 ? ZSTD_ps_auto : repSearch == 1 ? ZSTD_ps_enable : ZSTD_ps_disable);
    ZSTD_CCtx_setParameter(c, ZSTD_c_validateSequences, 1);
    if (dictMode == 1) ZSTD_CCtx_refPrefix(c, g_buf, DICTLEN);
    if (dictMode == 2) { ZSTD_compressionParameters cdp = ZSTD_getCParams(3, n, DICTLEN); cdp.minMatch = (unsigned)minMatch; cdp.windowLog = (unsigned)wlog;   /* a CDict's parameters supersede the context's (zstd.h) */
                         cd = ZSTD_createCDict_advanced(g_buf, DICTLEN, ZSTD_dlm_byRef, ZSTD_dct_rawContent, cdp, ZSTD_defaultCMem); ZSTD_CCtx_refCDict(c, cd); }
    if (dictMode == 3) { size_t e = ZSTD_CCtx_loadDictionary(c, g_sdict, g_sdictLen); if (ZSTD_isError(e)) { vx_fail("structured dictionary refused: %s", ZSTD_getErrorName(e)); goto done; } }
    const u8* rdict = dictMode == 3 ? g_sdict : dictMode ? g_buf : NULL; size_t rdictLen = dictMode == 3 ? g_sdictLen : dictLen;
    size_t cap = ZSTD_compressBound(n) + 512;

    /* ---- valid parse => conformant frame decoding to the source ---- */
    size_t r = ZSTD_compressSequences(c, g_dst, cap, g_seq, ns, src, n);
    if (ZSTD_isError(r) && oversize) { vx_obs_u64(18); vx_stat_add("oversize_blocks_refused", 1); goto done; }
    if (ZSTD_isError(r)) { vx_fail("valid parse refused: %s", ZSTD_getErrorName(r)); goto done; }
    {   refcheck_t rc; rc_init(&rc); rc.maxBlockSize = g_big ? 0 : B;
        if (ref_check(&rc, g_dst, r, rdict, rdictLen, src, n, g_scratch, SRCMAX)) { vx_fail("frame from a valid parse: %s", rc.err); goto done; }
        vx_stat_add("sequences_in_valid_frames", (long)rc.nseq); vx_obs_u64(vx_hash(g_dst, r)); if (rc.nseq > 2) vx_nontrivial();
    }
    /* ---- single-field corruptions, validation on ---- */
    if (variant == 0) {
        size_t pos = 0; long njudged = 0, nsafe = 0;
        size_t step = ns > 60 ? ns / 40 : 1;
        for (size_t i = 0; i < ns; i++) {
            ZSTD_Sequence s = g_seq[i]; size_t ms = pos + s.litLength; pos = ms + s.matchLength;
            if (s.offset == 0 && s.matchLength == 0) {
                /* every delimiter is tried (there are few) */
                /* delimiter corruptions (explicit mode): removed / given a match length / duplicated literals */
                for (int k = 0; k < 3; k++) {
                    memcpy(g_seq2, g_seq, sizeof(ZSTD_Sequence) * ns); size_t ns2 = ns;
                    if (k == 0) { memmove(g_seq2 + i, g_seq2 + i + 1, sizeof(ZSTD_Sequence) * (ns - i - 1)); ns2--; if (i + 1 < ns) continue; }      /* removing the LAST delimiter: sequences end without one */
                    else if (k == 1) g_seq2[i].matchLength = 5;
                    else g_seq2[i].litLength += 1;
                    ZSTD_CCtx_reset(c, ZSTD_reset_session_only); if (dictMode == 1) ZSTD_CCtx_refPrefix(c, g_buf, DICTLEN);
                    size_t e = ZSTD_compressSequences(c, g_dst, cap, g_seq2, ns2, src, n); njudged++;
                    if (!ZSTD_isError(e)) { vx_fail("explicit delimiters: %s accepted", k == 0 ? "sequence list without final delimiter" : k == 1 ? "delimiter carrying a match length" : "block lengths that disagree with the source"); goto done; }
                }
                continue;
            }
            if (i % step) continue;
            size_t hist = ms > W ? W : ms + dictLen;       /* history available at the start of this match */
            struct { unsigned off, ml, ll; int mustFail; const char* what; } M[8] = {
                { (unsigned)hist + 1, s.matchLength, s.litLength, 1, "offset one beyond the history available at the start of its match" },
                { (unsigned)(W + dictLen + ms + 1), s.matchLength, s.litLength, 1, "offset far beyond window and history" },
                { 0x80000000u, s.matchLength, s.litLength, 1, "offset 2^31" },
                { s.offset, 2, s.litLength, 1, "match length 2" }, { s.offset, 1, s.litLength, 1, "match length 1" },
                { s.offset, minMatch >= 4 ? 3u : 2u, s.litLength, 1, "match length below the configured minimum (3 with minMatch >= 4)" },
                { s.offset, s.matchLength, s.litLength + 1, delim ? 1 : 0, "literal length + 1 (block lengths disagree with the source)" },
                { 0, s.matchLength, s.litLength, delim ? 1 : 0, "offset 0 with a match length (a malformed block delimiter in explicit mode)" } };
            for (int k = 0; k < 8; k++) {
                memcpy(g_seq2, g_seq, sizeof(ZSTD_Sequence) * ns);
                g_seq2[i].offset = M[k].off; g_seq2[i].matchLength = M[k].ml; g_seq2[i].litLength = M[k].ll;
                ZSTD_CCtx_reset(c, ZSTD_reset_session_only); if (dictMode == 1) ZSTD_CCtx_refPrefix(c, g_buf, DICTLEN);
                size_t e = ZSTD_compressSequences(c, g_dst, cap, g_seq2, ns, src, n); nsafe++;
                if (M[k].mustFail && !ZSTD_isError(e) && dictMode == 3 && k == 0 && ms <= W) { knownGap++; njudged++; continue; }      /* judged at the end of the execution, so that it hides nothing else */
                if (M[k].mustFail) { njudged++; if (!ZSTD_isError(e)) { vx_fail("validation on, sequence %s: %s accepted (match starts at %zu, window %zu, dictionary %zu)", delim ? "list with delimiters" : "list", M[k].what, ms, W, dictLen); goto done; } }
            }
        }
        if (knownGap) { vx_fail("validation on, structured dictionary (header %zu bytes, content %d): offset one beyond the dictionary content at the start of its match accepted", g_sdictLen - DICTLEN, (int)DICTLEN); goto done; }
        vx_stat_add("corruptions_judged", njudged); vx_stat_add("corruptions_run_for_memory_safety", nsafe);
        /* destination capacities for the sequence API: error, never overrun */
        for (size_t cp2 = 0; cp2 <= (g_big ? 64 : r + 8); cp2 += (g_big ? 1 : 7)) {
            u8* d2 = (u8*)malloc(cp2 ? cp2 : 1); ZSTD_CCtx_reset(c, ZSTD_reset_session_only); if (dictMode == 1) ZSTD_CCtx_refPrefix(c, g_buf, DICTLEN);
            size_t e = ZSTD_compressSequences(c, d2, cp2, g_seq, ns, src, n);
            if (!ZSTD_isError(e) && e > cp2) { vx_fail("compressSequences returned %zu > capacity %zu", e, cp2); free(d2); goto done; }
            free(d2);
        }
    }
    /* ---- registered external sequence producer ---- */
    if (variant == 0 && !delim && repSearch == 0 && !dictMode) {
        for (int mode = 0; mode < 4 && !vx_failed; mode++) for (int fb = 0; fb < 2 && !vx_failed; fb++) {
            producer_t P = { mode, 0, src, 0, W, minMatch, 0, 0 };
            ZSTD_CCtx* pc = ZSTD_createCCtx(); ZSTD_CCtx_setParameter(pc, ZSTD_c_windowLog, wlog); if (!g_big) ZSTD_CCtx_setParameter(pc, ZSTD_c_maxBlockSize, (int)B);
            ZSTD_CCtx_setParameter(pc, ZSTD_c_enableSeqProducerFallback, fb); ZSTD_CCtx_setParameter(pc, ZSTD_c_validateSequences, 1);
            ZSTD_registerSequenceProducer(pc, &P, producer_fn);
            size_t e = ZSTD_compress2(pc, g_dst, cap, src, n);
            if (mode == 0 || fb) {
                if (ZSTD_isError(e)) vx_fail("sequence producer mode %d fallback %d: compress2 fails: %s", mode, fb, ZSTD_getErrorName(e));
                else { refcheck_t rc; rc_init(&rc); if (ref_check(&rc, g_dst, e, NULL, 0, src, n, g_scratch, SRCMAX)) vx_fail("sequence producer mode %d fallback %d: %s", mode, fb, rc.err); }
            } else if (!ZSTD_isError(e)) vx_fail("sequence producer failure (mode %d) without fallback: compress2 reports success", mode);
            if (!vx_failed && P.calls == 0) vx_fail("registered sequence producer never called");
            ZSTD_freeCCtx(pc);
        }
    }
    /* a producer that serves the first blocks (with exactly 1..4 matches each) and then fails, fallback on: the internal parser takes over in mid-frame and
     * must start from the history the served blocks really left (levels below and above the repcode-search threshold) */
    if (variant == 0 && !delim && repSearch == 0 && !dictMode && !g_big) {
        for (int gb = 1; gb <= 3 && !vx_failed; gb++) for (int ms = 1; ms <= 4 && !vx_failed; ms++) for (int lv = 0; lv < 3 && !vx_failed; lv++) {
            static const int LV[] = {1, 3, 12}; producer_t P = { 0, 0, src, 0, W, minMatch, gb, ms };
            ZSTD_CCtx* pc = ZSTD_createCCtx(); ZSTD_CCtx_setParameter(pc, ZSTD_c_compressionLevel, LV[lv]); ZSTD_CCtx_setParameter(pc, ZSTD_c_windowLog, wlog); ZSTD_CCtx_setParameter(pc, ZSTD_c_maxBlockSize, (int)B);
            ZSTD_CCtx_setParameter(pc, ZSTD_c_enableSeqProducerFallback, 1); ZSTD_CCtx_setParameter(pc, ZSTD_c_validateSequences, 1);
            ZSTD_registerSequenceProducer(pc, &P, producer_fn);
            size_t e = ZSTD_compress2(pc, g_dst, cap, src, n);
            if (ZSTD_isError(e)) vx_fail("producer serving %d block(s) of %d match(es) then failing, fallback on, level %d: compress2 fails: %s", gb, ms, LV[lv], ZSTD_getErrorName(e));
            else { refcheck_t rc; rc_init(&rc); if (ref_check(&rc, g_dst, e, NULL, 0, src, n, g_scratch, SRCMAX)) vx_fail("producer serving %d block(s) of %d match(es) then failing, fallback on, level %d: %s", gb, ms, LV[lv], rc.err); }
            ZSTD_freeCCtx(pc);
        }
    }
    if (vx_want_sample()) vx_sample("kind%d delim%d rep%d dict%d minMatch%d variant%d: %zu sequences -> %zu bytes", kind, delim, repSearch, dictMode, minMatch, variant, ns, r);
done:
    ZSTD_freeCCtx(c); ZSTD_freeCDict(cd);
}

int main(int argc, char** argv) { return vx_main(argc, argv, init, body); }
