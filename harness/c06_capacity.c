/* C06: capacity discipline and size bounds.
 *  --mode comp     (input shape x parameter vector) x EVERY destination capacity 0..bound+8, exact-size heap buffers
 *  --mode bound    adversarial inputs x block-size settings at capacity == ZSTD_compressBound
 *  --mode decomp   catalogue records x every destination capacity 0..content+8; inspectors; in-place decoding
 */
#include "catalogue.h"

static const char* g_mode; static int g_stride;
static u8 *g_src, *g_out;

static const seg_t BASES[][4] = {
    {{SEG_LIT, 4, 1}, {SEG_REP, 4, 6}, {SEG_LIT, 1, 1}, {SEG_REP, 5, 3}},
    {{SEG_LIT, 5, 0}, {SEG_REP, 9, 7}, {SEG_LIT, 3, 2}, {SEG_REP, 0, 8}},
};

static void init(void) {
    g_mode = vx_opt("--mode", "comp"); g_stride = (int)vx_opt_int("--stride", 4);
    g_src = (u8*)malloc(1u << 16); g_out = (u8*)malloc(1u << 16);
    if (!strcmp(g_mode, "decomp")) {
        load_catalogue(vx_opt("--cat", "build/catalogue-quick.bin")); add_compressor_streams();
        for (int i = 0; i < g_nrec; i++) if (g_rec[i].clen + 64 > g_ample) g_ample = g_rec[i].clen + 64;
        g_tmp = (u8*)malloc(g_ample);
    }
}

static size_t compress_with(const pvec_t* p, int entry, void* dst, size_t cap, const void* src, size_t n) {
    size_t r;
    if (entry == 0) { ZSTD_CCtx* c = ZSTD_createCCtx(); size_t e = pvec_apply(c, p); r = ZSTD_isError(e) ? e : ZSTD_compress2(c, dst, cap, src, n); ZSTD_freeCCtx(c); }
    else if (entry == 1) r = ZSTD_compress(dst, cap, src, n, p->level);
    else {   /* one compressStream2(e_end) call with a stable output buffer */
        ZSTD_CCtx* c = ZSTD_createCCtx(); size_t e = pvec_apply(c, p); ZSTD_CCtx_setParameter(c, ZSTD_c_stableOutBuffer, 1);
        ZSTD_inBuffer in = { src, n, 0 }; ZSTD_outBuffer out = { dst, cap, 0 };
        r = ZSTD_isError(e) ? e : ZSTD_compressStream2(c, &out, &in, ZSTD_e_end);
        if (!ZSTD_isError(r)) { if (r != 0) r = (size_t)-ZSTD_error_dstSize_tooSmall; else r = out.pos; }
        ZSTD_freeCCtx(c);
    }
    return r;
}
/* the frame is closed by a call of its own (no input left): entry 3 = stable-output streaming, flush everything, then e_end; entry 4 = buffer-less
 * ZSTD_compressContinue + ZSTD_compressEnd(NULL, 0).  `cap` is the total room; the closing call sees what is left of it. */
static size_t compress_closing(const pvec_t* p, int entry, int checksum, void* dst, size_t cap, const void* src, size_t n) {
    size_t r; ZSTD_CCtx* c = ZSTD_createCCtx();
    if (entry == 3) {
        size_t e = pvec_apply(c, p); ZSTD_CCtx_setParameter(c, ZSTD_c_stableOutBuffer, 1); ZSTD_CCtx_setParameter(c, ZSTD_c_checksumFlag, checksum);
        ZSTD_inBuffer in = { src, n, 0 }; ZSTD_outBuffer out = { dst, cap, 0 };
        r = ZSTD_isError(e) ? e : ZSTD_compressStream2(c, &out, &in, ZSTD_e_flush);
        if (!ZSTD_isError(r) && (r != 0 || in.pos != n)) r = (size_t)-ZSTD_error_dstSize_tooSmall;
        if (!ZSTD_isError(r)) { r = ZSTD_compressStream2(c, &out, &in, ZSTD_e_end); if (!ZSTD_isError(r)) { if (out.pos > out.size) r = out.pos; else if (r != 0) r = (size_t)-ZSTD_error_dstSize_tooSmall; else r = out.pos; } }
    } else {
        ZSTD_parameters zp = ZSTD_getParams(p->strategy ? 3 : p->level, n, 0); zp.fParams.checksumFlag = checksum; zp.fParams.contentSizeFlag = 0;
        if (p->strategy) { zp.cParams.strategy = (ZSTD_strategy)p->strategy; if (p->windowLog) zp.cParams.windowLog = (unsigned)p->windowLog; }
        r = ZSTD_compressBegin_advanced(c, NULL, 0, zp, ZSTD_CONTENTSIZE_UNKNOWN);
        if (!ZSTD_isError(r)) { size_t r1 = n ? ZSTD_compressContinue(c, dst, cap, src, n) : 0;
            if (ZSTD_isError(r1)) r = r1; else if (r1 > cap) r = r1; else { size_t r2 = ZSTD_compressEnd(c, (char*)dst + r1, cap - r1, NULL, 0); r = ZSTD_isError(r2) ? r2 : r1 + r2; } }
    }
    ZSTD_freeCCtx(c);
    return r;
}

static int decodes_to(const pvec_t* p, const void* frame, size_t flen, const void* src, size_t n) {
    ZSTD_DCtx* d = ZSTD_createDCtx(); if (p->magicless) ZSTD_DCtx_setParameter(d, ZSTD_d_format, ZSTD_f_zstd1_magicless);
    size_t r = ZSTD_decompressDCtx(d, g_out, 1u << 16, frame, flen); ZSTD_freeDCtx(d);
    return !ZSTD_isError(r) && r == n && (n == 0 || !memcmp(g_out, src, n));
}

static void body_comp(void) {
    int entry = vx_choose(5), closingCk = entry >= 3 ? vx_choose(2) : 0;
    pvec_t p; if (entry == 1) { p = pvec_base(0); p.strategy = 0; p.windowLog = 0; p.level = PV_LEVELS[vx_choose(16)]; }
    else if (entry == 2 && !vx_thorough) { static const int LV2[] = {1, 3, 6, 13, 19}; p = pvec_base(0); p.strategy = 0; p.windowLog = 0; p.level = LV2[vx_choose(5)]; }      /* quick tier: the stable-output entry with level vectors */
    else if (entry >= 3) { static const int LV[] = {1, 3, 5}; p = pvec_base(0); p.strategy = 0; p.windowLog = 0; p.level = LV[vx_choose(3)]; }      /* the closing call does not depend on the match finder: three cheap levels */
    else p = pvec_choose(0);
    if (entry == 4) p.magicless = 0;      /* the buffer-less entry takes level / strategy / window from the vector, nothing else */
    seg_t segs[4]; int base = vx_choose(2); int asz = shape_alphabet_size(0);
    int segdev = (int)vx_opt_int("--segdev", 4); if (entry >= 3 && segdev > 1) segdev = 1;      /* the closing call sees what is left of the capacity, whatever the input was */
    for (int i = 0; i < 4; i++) { int d = (i < segdev) ? vx_deviate(asz + 1) : 0; segs[i] = d ? shape_alphabet(d - 1, 0) : BASES[base][i]; }
    size_t W = pvec_window(&p); if (!W) W = 1024; size_t B = pvec_block(&p); if (B > W) B = W;
    size_t n = shape_render(segs, 4, W, B, 48, g_src, 450, 0);
    char sdesc[120], pdesc[256]; shape_describe(segs, 4, sdesc, sizeof sdesc); pvec_describe(&p, pdesc, sizeof pdesc);
    vx_label("comp entry=%d ck=%d ;; %s | %s n=%zu", entry, closingCk, pdesc, sdesc, n);
    u8* src = (u8*)malloc(n ? n : 1); memcpy(src, g_src, n);
    size_t bound = ZSTD_compressBound(n) + (entry >= 3 ? 16 : 0); long nsucc = 0, ntoosmall = 0; size_t minOK = (size_t)-1;      /* ZSTD_compressBound speaks of single-pass compression; a separately closed frame adds a block header and flush overhead */
    int capstep = (int)vx_opt_int("--capstep", 1); long ntried = 0;
    /* entries that close the frame by a call of their own: what matters is the room left at that call, so every capacity within 24 bytes of the
     * frame's full size is tried and the rest is swept coarsely */
    size_t fullSize = 0; if (entry >= 3) { u8* big = (u8*)malloc(bound + 64); size_t r = compress_closing(&p, entry, closingCk, big, bound + 64, src, n); free(big); fullSize = ZSTD_isError(r) ? 0 : r; }
    for (size_t cap = 0; cap <= bound + 8; cap += (entry >= 3 ? ((cap < 24 || (cap + 24 >= fullSize && cap <= fullSize + 8)) ? 1 : (cap + 40 < fullSize ? 16 : 1)) : ((cap < 48 || cap + 48 > bound) ? 1 : (size_t)capstep))) {
        u8* dst = (u8*)malloc(cap ? cap : 1); ntried++;
        size_t r = entry >= 3 ? compress_closing(&p, entry, closingCk, dst, cap, src, n) : compress_with(&p, entry, dst, cap, src, n);
        if (ZSTD_isError(r)) {
            ntoosmall++;
            if (cap >= bound) { vx_fail("capacity %zu >= ZSTD_compressBound(%zu) = %zu but compression fails: %s", cap, n, bound, ZSTD_getErrorName(r)); free(dst); break; }
            if (ZSTD_getErrorCode(r) != ZSTD_error_dstSize_tooSmall) { vx_fail("capacity %zu: error other than dstSize_tooSmall: %s", cap, ZSTD_getErrorName(r)); free(dst); break; }
        } else {
            nsucc++; if (cap < minOK) minOK = cap;
            if (r > cap) { vx_fail("compression returned %zu > capacity %zu", r, cap); free(dst); break; }
            if (!decodes_to(&p, dst, r, src, n)) { vx_fail("capacity %zu: success reported but the frame does not round trip", cap); free(dst); break; }
        }
        free(dst);
    }
    free(src);
    vx_obs_u64(minOK); vx_obs_u64((uint64_t)n * 7 + (uint64_t)entry);
    if (ntoosmall > 1 && nsucc > 1) vx_nontrivial();
    vx_stat_add("capacities_tried", ntried); vx_stat_add("too_small_reports", ntoosmall);
    if (vx_want_sample()) vx_sample("entry=%d %s | %s n=%zu: capacities 0..%zu, first success at %zu, bound %zu", entry, pdesc, sdesc, n, bound + 8, minOK, bound);
}

static void body_bound(void) {
    /* adversarial contents x sizes around block edges x block-size settings, destination exactly ZSTD_compressBound */
    static const int sizes[] = {0, 1, 2, 63, 64, 255, 256, 1023, 1024, 1025, 1339, 1340, 1341, 2047, 2048, 2049, 4095, 4096, 4097, 8191, 8192, 8193, 16385, 40000};
    int kind = vx_choose(4), si = vx_choose((int)(sizeof sizes / sizeof sizes[0])), entry = vx_choose(3);
    pvec_t p; if (entry == 1) { p = pvec_base(0); p.strategy = 0; p.windowLog = 0; p.level = PV_LEVELS[vx_choose(16)]; } else p = pvec_choose(1);
    size_t n = (size_t)sizes[si];
    switch (kind) {
    case 0: fill_noise(g_src, n, 3); break;
    case 1: for (size_t i = 0; i < n; i++) g_src[i] = (i / 97) & 1 ? (u8)(i * 2654435761u >> 13) : (u8)'a'; break;            /* alternating at a sub-block period */
    case 2: fill_noise(g_src, n, 5); for (size_t i = 0; i + 8 < n; i += 300) memset(g_src + i, 'q', 8); break;       /* noise with short runs: splitter bait */
    default: fill_text(g_src, n, 1); if (n > 600) fill_noise(g_src + n / 2, n / 4, 8); break;
    }
    char pdesc[256]; pvec_describe(&p, pdesc, sizeof pdesc);
    vx_label("bound kind=%d n=%zu entry=%d ;; %s", kind, n, entry, pdesc);
    size_t bound = ZSTD_compressBound(n);
    u8* src = (u8*)malloc(n ? n : 1); memcpy(src, g_src, n); u8* dst = (u8*)malloc(bound ? bound : 1);
    size_t r = compress_with(&p, entry, dst, bound, src, n);
    if (ZSTD_isError(r)) vx_fail("ZSTD_compressBound(%zu) = %zu bytes do not suffice: %s", n, bound, ZSTD_getErrorName(r));
    else if (r > bound) vx_fail("returned size above capacity");
    else if (!decodes_to(&p, dst, r, src, n)) vx_fail("frame at bound capacity does not round trip");
    else { vx_obs_u64(vx_hash(dst, r)); if (r + 4 >= n && n > 64) vx_nontrivial(); vx_stat_max("max_expansion_bytes", (long)r - (long)n); }
    free(src); free(dst);
    if (vx_want_sample()) vx_sample("kind=%d n=%zu entry=%d %s -> %zu (bound %zu)", kind, n, entry, pdesc, ZSTD_isError(r) ? 0 : r, bound);
}

static void body_decomp(void) {
    int ncat = g_nrec - 12, nsel = (ncat + g_stride - 1) / g_stride;
    int w = vx_choose(nsel + 12); int idx = (w < nsel) ? w * g_stride : ncat + (w - nsel); if (idx >= g_nrec) idx = g_nrec - 1;
    const rec_t* r = &g_rec[idx];
    vx_label("decomp rec#%d %s ;; len=%zu content=%zu", idx, r->name, r->flen, r->clen);
    if (r->flen > 2000 || r->clen > 3000) { vx_obs_u64(2); return; }
    layout_t L; if (layout_of(r, &L)) { vx_fail("record not accepted by the reference decoder"); return; }
    u8* in = (u8*)malloc(r->flen ? r->flen : 1); memcpy(in, r->frame, r->flen);
    long ncap = 0;
    /* every capacity: too small => error, never overrun; exact => success */
    for (size_t cap = 0; cap <= r->clen + 8 && !vx_failed; cap++) {
        u8* dst = (u8*)malloc(cap ? cap : 1); ZSTD_DCtx* d = ZSTD_createDCtx();
        size_t ret = r->dlen ? ZSTD_decompress_usingDict(d, dst, cap, in, r->flen, r->dict, r->dlen) : ZSTD_decompressDCtx(d, dst, cap, in, r->flen); ncap++;
        if (!ZSTD_isError(ret) && ret > cap) vx_fail("decompress returned %zu > capacity %zu", ret, cap);
        else if (cap >= r->clen && (ZSTD_isError(ret) || ret != r->clen || (r->clen && memcmp(dst, r->content, r->clen)))) vx_fail("capacity %zu >= content %zu but decode fails or differs: %s", cap, r->clen, ZSTD_isError(ret) ? ZSTD_getErrorName(ret) : "content");
        else if (cap < r->clen && !ZSTD_isError(ret)) vx_fail("capacity %zu < content %zu but decode reports success", cap, r->clen);
        ZSTD_freeDCtx(d); free(dst);
    }
    /* inspectors against the layout computed by the reference decoder */
    if (!vx_failed) {
        size_t f0 = ZSTD_findFrameCompressedSize(in, r->flen);
        if (ZSTD_isError(f0) || f0 != L.inEnd[0]) vx_fail("findFrameCompressedSize = %zu, the first frame is %zu bytes", ZSTD_isError(f0) ? (size_t)0 : f0, L.inEnd[0]);
        unsigned long long db = ZSTD_decompressBound(in, r->flen);
        if (!vx_failed && (db == ZSTD_CONTENTSIZE_ERROR || db < r->clen)) vx_fail("decompressBound %llu below the decoded size %zu", db, r->clen);
        unsigned long long fcs = ZSTD_getFrameContentSize(in, r->flen);
        if (!vx_failed && !L.skippable[0] && fcs != ZSTD_CONTENTSIZE_UNKNOWN && (fcs == ZSTD_CONTENTSIZE_ERROR || fcs != L.outEnd[0])) vx_fail("getFrameContentSize %llu, the first frame regenerates %zu", fcs, L.outEnd[0]);
        unsigned long long fds = ZSTD_findDecompressedSize(in, r->flen);
        if (!vx_failed && fds != ZSTD_CONTENTSIZE_UNKNOWN && fds != ZSTD_CONTENTSIZE_ERROR && fds != r->clen) vx_fail("findDecompressedSize %llu, the frames regenerate %zu", fds, r->clen);
        /* in-place decoding with the advertised margin */
        size_t margin = ZSTD_decompressionMargin(in, r->flen);
        if (!vx_failed && !r->dlen) {
            if (ZSTD_isError(margin)) vx_fail("decompressionMargin fails on a valid stream: %s", ZSTD_getErrorName(margin));
            else {
                size_t bs = r->clen + margin; u8* buf = (u8*)malloc(bs ? bs : 1);
                if (bs < r->flen) vx_fail("content + margin (%zu) smaller than the compressed size %zu", bs, r->flen);
                else { memmove(buf + bs - r->flen, in, r->flen);
                    size_t ret = ZSTD_decompress(buf, bs, buf + bs - r->flen, r->flen);
                    if (ZSTD_isError(ret) || ret != r->clen || (r->clen && memcmp(buf, r->content, r->clen))) vx_fail("in-place decoding with margin %zu fails: %s", margin, ZSTD_isError(ret) ? ZSTD_getErrorName(ret) : "content differs"); }
                free(buf);
            }
        }
    }
    free(in);
    vx_obs_u64((uint64_t)idx); if (ncap > 16) vx_nontrivial();
    vx_stat_add("capacities_tried", ncap);
    if (vx_want_sample()) vx_sample("rec#%d %s: capacities 0..%zu, inspectors, in-place", idx, r->name, r->clen + 8);
}

/* inputs made only of a small alphabet of low byte values: Huffman table descriptions of every size and kind (raw 4-bit weights,
 * FSE-compressed weights), full capacity sweep */
static void body_alpha(void) {
    static const unsigned ALPHA[] = {2, 3, 4, 6, 8, 11, 12, 16, 17, 24, 32, 64, 128, 255}; static const size_t SZ[] = {63, 64, 65, 70, 100, 200, 400, 1500};
    static const int LV[] = {1, 3, 6, 19}; int ai = vx_choose(14), zi = vx_choose(8), li = vx_choose(4), skew = vx_choose(2), entry = vx_choose(2);
    size_t n = SZ[zi]; uint32_t s = 17 + (uint32_t)ai;
    for (size_t i = 0; i < n; i++) { s = s * 1103515245u + 12345u; unsigned r = (s >> 16) % ALPHA[ai]; if (skew && (s >> 28) < 9) r = 0; g_src[i] = (u8)r; }
    vx_label("alpha bytes in [0,%u) n=%zu level=%d skew=%d entry=%d", ALPHA[ai], n, LV[li], skew, entry);
    pvec_t p = pvec_base(0); p.strategy = 0; p.windowLog = 0; p.level = LV[li];
    u8* src = (u8*)malloc(n); memcpy(src, g_src, n);
    size_t bound = ZSTD_compressBound(n); long nsucc = 0; size_t minOK = (size_t)-1;
    for (size_t cap = 0; cap <= bound + 4; cap++) {
        u8* dst = (u8*)malloc(cap ? cap : 1);
        size_t r = compress_with(&p, entry, dst, cap, src, n);
        if (ZSTD_isError(r)) { if (cap >= bound) vx_fail("capacity %zu >= bound %zu fails: %s", cap, bound, ZSTD_getErrorName(r)); else if (ZSTD_getErrorCode(r) != ZSTD_error_dstSize_tooSmall) vx_fail("capacity %zu: error other than dstSize_tooSmall: %s", cap, ZSTD_getErrorName(r)); }
        else { nsucc++; if (cap < minOK) minOK = cap; if (r > cap) vx_fail("returned %zu > capacity %zu", r, cap); else if (!decodes_to(&p, dst, r, src, n)) vx_fail("capacity %zu: frame does not round trip", cap); }
        free(dst); if (vx_failed) break;
    }
    free(src);
    vx_obs_u64(minOK * 131 + n); if (nsucc) vx_nontrivial(); vx_stat_add("capacities_tried", (long)bound + 5);
}

static void body(void) { if (!strcmp(g_mode, "alpha")) { body_alpha(); return; } if (!strcmp(g_mode, "comp")) body_comp(); else if (!strcmp(g_mode, "bound")) body_bound(); else body_decomp(); }
int main(int argc, char** argv) { return vx_main(argc, argv, init, body); }
