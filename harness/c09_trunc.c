/* C09: truncation, size lies and checksum damage.  For every record: every proper prefix through every decoder,
 * trailing non-frame bytes, every bit flip of a stored checksum, every content-size rewrite, every single-byte
 * substitution inside block payloads of frames that carry a checksum / content size. */
#include "catalogue.h"

static int g_stride, g_maxlen;
static u8 *g_obuf, *g_mut;

static void init(void) {
    g_stride = (int)vx_opt_int("--stride", 4); g_maxlen = (int)vx_opt_int("--maxlen", 1024);
    load_catalogue(vx_opt("--cat", "build/catalogue-quick.bin"));
    add_compressor_streams();
    for (int i = 0; i < g_nrec; i++) if (g_rec[i].clen + 64 > g_ample) g_ample = g_rec[i].clen + 64;
    g_obuf = (u8*)malloc(g_ample); g_tmp = (u8*)malloc(g_ample); g_mut = (u8*)malloc((1u << 20) + 64);
}

/* frame header fields located by hand from the format specification */
typedef struct { size_t hdrSize, fcsPos, fcsBytes; int checksum, singleSeg; } hdrinfo_t;
static int parse_header(const u8* f, size_t n, hdrinfo_t* h) {
    if (n < 6 || vf_rd32(f) != 0xFD2FB528u) return 1;
    u8 d = f[4]; int fcsFlag = d >> 6, ss = (d >> 5) & 1, did = d & 3; static const int didB[] = {0, 1, 2, 4}, fcsB[] = {0, 2, 4, 8};
    size_t p = 5; if (!ss) p++; p += (size_t)didB[did];
    h->fcsPos = p; h->fcsBytes = fcsFlag ? (size_t)fcsB[fcsFlag] : (ss ? 1 : 0); p += h->fcsBytes;
    h->hdrSize = p; h->checksum = (d >> 2) & 1; h->singleSeg = ss;
    return p > n;
}

/* all decoders on one (possibly damaged) input; returns number that reported success; *sz = size returned by a successful one-shot */
/* decoder contexts that are nominally at their defaults: 0 fresh; 1 checksum verification was switched off, a frame decoded, then a full reset;
 * 2 switched off, then a parameter reset only; 3 a static context that went through 1 */
static int g_ctxKind; static u8 g_okFrame[64]; static size_t g_okLen; static void* g_staticD; static size_t g_staticDSize;
static ZSTD_DCtx* make_dctx(void) {
    ZSTD_DCtx* d;
    if (g_ctxKind == 3) { if (!g_staticD) { g_staticDSize = ZSTD_estimateDStreamSize((size_t)1 << 21); g_staticD = malloc(g_staticDSize); } d = ZSTD_initStaticDCtx(g_staticD, g_staticDSize); } else d = ZSTD_createDCtx();
    if (g_ctxKind && d) {
        if (!g_okLen) g_okLen = ZSTD_compress(g_okFrame, sizeof g_okFrame, "checksum", 8, 1);
        ZSTD_DCtx_setParameter(d, ZSTD_d_forceIgnoreChecksum, ZSTD_d_ignoreChecksum);
        if (g_ctxKind != 2) { u8 o[16]; ZSTD_decompressDCtx(d, o, sizeof o, g_okFrame, g_okLen); }
        ZSTD_DCtx_reset(d, g_ctxKind == 2 ? ZSTD_reset_parameters : ZSTD_reset_session_and_parameters);
    }
    return d;
}
static void free_dctx(ZSTD_DCtx* d) { if (g_ctxKind != 3) ZSTD_freeDCtx(d); }
static int decode_all(const rec_t* r, const u8* in, size_t n, size_t* oneShot, int* streamZero) {
    int ok = 0; size_t ret;
    ZSTD_DCtx* d = make_dctx();
    ret = r->dlen ? ZSTD_decompress_usingDict(d, g_obuf, g_ample, in, n, r->dict, r->dlen) : ZSTD_decompressDCtx(d, g_obuf, g_ample, in, n);
    *oneShot = ret; if (!ZSTD_isError(ret)) ok++;
    /* streaming, whole and byte-by-byte: "0" must not be the last word on a proper prefix */
    *streamZero = 0;
    for (int mode = 0; mode < 2; mode++) {
        ZSTD_DCtx_reset(d, ZSTD_reset_session_only);
        if (r->dlen) ZSTD_DCtx_loadDictionary(d, r->dict, r->dlen);
        size_t pos = 0, last = 1; int err = 0;
        for (long it = 0; it < 3000000 && pos < n; it++) {
            ZSTD_inBuffer ib = { in + pos, mode ? 1 : n - pos, 0 }; ZSTD_outBuffer ob = { g_obuf, g_ample, 0 };
            last = ZSTD_decompressStream(d, &ob, &ib);
            if (ZSTD_isError(last)) { err = 1; break; }
            pos += ib.pos; if (!ib.pos && !ob.pos) break;
        }
        if (!err && last == 0 && pos == n) *streamZero |= 1 << mode;
    }
    free_dctx(d);
    return ok;
}

static void body(void) {
    int ncat = g_nrec - 12, nsel = (ncat + g_stride - 1) / g_stride;
    int w = vx_choose(nsel + 12);
    int idx = (w < nsel) ? w * g_stride : ncat + (w - nsel); if (idx >= g_nrec) idx = g_nrec - 1;
    const rec_t* r = &g_rec[idx];
    vx_label("rec#%d %s ;; len=%zu content=%zu", idx, r->name, r->flen, r->clen);
    if ((int)r->flen > g_maxlen) { vx_obs_u64(1); return; }
    layout_t L; if (layout_of(r, &L)) { vx_fail("catalogue record not accepted by the reference decoder"); return; }
    long nprefix = 0, nflip = 0, nsubst = 0, nsubstAccepted = 0, nfcs = 0, ntrail = 0;
    size_t one; int sz;
    /* sanity: the intact record decodes */
    decode_all(r, r->frame, r->flen, &one, &sz);
    if (ZSTD_isError(one) || one != r->clen) { vx_fail("intact record does not decode"); return; }
    /* (a) every proper prefix that does not end on a frame boundary */
    for (size_t k = 1; k < r->flen; k++) {
        int boundary = 0; for (int f = 0; f < L.n; f++) if (k == L.inEnd[f]) boundary = 1;
        if (boundary) continue;
        decode_all(r, r->frame, k, &one, &sz); nprefix++;
        if (!ZSTD_isError(one)) { vx_fail("one-shot decode of a proper prefix (%zu of %zu bytes) reports success", k, r->flen); return; }
        if (sz) { vx_fail("streaming decode of a proper prefix (%zu of %zu bytes) ends with return value 0", k, r->flen); return; }
        /* buffer-less API: after consuming the prefix it must still want input */
        {   ZSTD_DCtx* d = ZSTD_createDCtx(); ZSTD_decompressBegin(d); size_t pos = 0, opos = 0; int err = 0;
            if (r->dlen) ZSTD_decompressBegin_usingDict(d, r->dict, r->dlen);
            for (;;) { size_t need = ZSTD_nextSrcSizeToDecompress(d); if (need == 0 || pos + need > k) break;
                size_t g = ZSTD_decompressContinue(d, g_obuf + opos, g_ample - opos, r->frame + pos, need); if (ZSTD_isError(g)) { err = 1; break; } pos += need; opos += g; }
            int done = !err && ZSTD_nextSrcSizeToDecompress(d) == 0 && L.n == 1;
            ZSTD_freeDCtx(d);
            if (done && pos < L.inEnd[0]) { vx_fail("buffer-less decode considers the frame complete after %zu of %zu bytes", pos, r->flen); return; }
        }
    }
    /* (b) trailing bytes that are not a frame */
    {   static const u8 tails[3][4] = { {0x00}, {0x28, 0xB5, 0x2F, 0xFE}, {0x28, 0xB5, 0x2F, 0xFD} }; static const size_t tl[3] = {1, 4, 4};
        for (int t = 0; t < 3; t++) {
            memcpy(g_mut, r->frame, r->flen); memcpy(g_mut + r->flen, tails[t], tl[t]);
            decode_all(r, g_mut, r->flen + tl[t], &one, &sz); ntrail++;
            if (!ZSTD_isError(one)) { vx_fail("one-shot decode succeeds although %zu trailing bytes are not a frame", tl[t]); return; }
        }
    }
    /* (c)(d): per frame of the record, checksum and content-size fields */
    for (int f = 0; f < L.n; f++) {
        size_t st = f ? L.inEnd[f - 1] : 0, en = L.inEnd[f]; hdrinfo_t h;
        if (L.skippable[f] || parse_header(r->frame + st, en - st, &h)) continue;
        size_t cst = f ? L.outEnd[f - 1] : 0, clen = L.outEnd[f] - cst;
        if (h.checksum) {
            for (int bit = 0; bit < 32; bit++) {
                memcpy(g_mut, r->frame, r->flen); g_mut[en - 4 + bit / 8] ^= (u8)(1u << (bit % 8));
                for (g_ctxKind = 0; g_ctxKind < 4; g_ctxKind++) {
                    if (g_ctxKind == 3 && r->clen > (1u << 20)) continue;
                    decode_all(r, g_mut, r->flen, &one, &sz); nflip++;
                    if (!ZSTD_isError(one)) { vx_fail("decode succeeds with bit %d of the stored checksum flipped (decoder context kind %d)", bit, g_ctxKind); g_ctxKind = 0; return; }
                    if (sz) { vx_fail("streaming decode reports completion with bit %d of the stored checksum flipped (decoder context kind %d)", bit, g_ctxKind); g_ctxKind = 0; return; }
                }
                g_ctxKind = 0;
            }
        }
        if (h.fcsBytes) {
            long long deltas[3] = { 1, -1, 0 };
            for (int q = 0; q < 3; q++) {
                unsigned long long v = (q == 2) ? 0 : (unsigned long long)((long long)clen + deltas[q]);
                if (q == 1 && clen == 0) continue; if (q == 2 && clen == 0) continue;
                unsigned long long stored = v; if (h.fcsBytes == 2) { if (v < 256) continue; stored = v - 256; }
                if (h.fcsBytes == 1 && v > 255) continue; if (h.fcsBytes == 2 && stored > 65535) continue;
                memcpy(g_mut, r->frame, r->flen); for (size_t b = 0; b < h.fcsBytes; b++) g_mut[st + h.fcsPos + b] = (u8)(stored >> (8 * b));
                decode_all(r, g_mut, r->flen, &one, &sz); nfcs++;
                if (!ZSTD_isError(one)) {
                    /* success is only acceptable if the regenerated size equals the (rewritten) stored size */
                    size_t others = r->clen - clen;
                    if (one - others != v) { vx_fail("decode succeeds with the content-size field rewritten from %zu to %llu (regenerated %zu)", clen, v, one - others); return; }
                }
                if (sz && v != clen) { vx_fail("streaming decode reports completion with the content-size field rewritten from %zu to %llu", clen, v); return; }
            }
        }
        /* single-byte substitutions inside the blocks: success only with matching size and checksum */
        if ((h.checksum || h.fcsBytes) && en - st <= 400 && L.n == 1) {   /* single-frame records: the frames around a damaged one would otherwise have to be re-located */
            for (size_t p = st + h.hdrSize; p < en - (h.checksum ? 4 : 0); p++) for (int dv = 1; dv < 256; dv += (en - st > 120 ? 37 : 1)) {
                memcpy(g_mut, r->frame, r->flen); g_mut[p] = (u8)(g_mut[p] + dv);
                ZSTD_DCtx* d = ZSTD_createDCtx();
                size_t ret = r->dlen ? ZSTD_decompress_usingDict(d, g_obuf, g_ample, g_mut, r->flen, r->dict, r->dlen) : ZSTD_decompressDCtx(d, g_obuf, g_ample, g_mut, r->flen);
                ZSTD_freeDCtx(d); nsubst++;
                if (ZSTD_isError(ret)) continue;
                nsubstAccepted++;
                /* locate this frame's regenerated bytes: frames before it are intact */
                if (ret < cst) { vx_fail("damaged frame accepted with less output than the intact frames before it"); return; }
                size_t tail = r->clen - L.outEnd[f];
                if (ret < cst + tail) { vx_fail("damaged frame accepted but output shorter than the other frames' content"); return; }
                size_t got = ret - cst - tail;
                if (h.fcsBytes && got != clen) { vx_fail("payload byte %zu changed: decode succeeds with %zu bytes although the header declares %zu", p, got, clen); return; }
                if (h.checksum) { unsigned want = vf_rd32(r->frame + en - 4); unsigned have = (unsigned)(vf_xxh64(g_obuf + cst, got, 0) & 0xFFFFFFFFu);
                    if (want != have) { vx_fail("payload byte %zu changed: decode succeeds although the regenerated data (xxh64 %08x) does not match the stored checksum %08x", p, have, want); return; } }
            }
        }
    }
    vx_obs_u64((uint64_t)idx); vx_obs_u64((uint64_t)nprefix);
    if (nprefix > 4) vx_nontrivial();
    vx_stat_add("prefixes", nprefix); vx_stat_add("checksum_bit_flips", nflip); vx_stat_add("payload_substitutions", nsubst); vx_stat_add("payload_substitutions_accepted_and_judged", nsubstAccepted);
    vx_stat_add("content_size_rewrites", nfcs); vx_stat_add("trailing_garbage_cases", ntrail);
    if (vx_want_sample()) vx_sample("rec#%d %s: %ld prefixes, %ld checksum flips, %ld size rewrites, %ld payload substitutions (%ld still accepted, judged)", idx, r->name, nprefix, nflip, nfcs, nsubst, nsubstAccepted);
}

int main(int argc, char** argv) { return vx_main(argc, argv, init, body); }
