/* Catalogue records (gen/framegen.py output + compressor-made streams) shared by the decoder-side harnesses. */
#ifndef VF_CATALOGUE_H
#define VF_CATALOGUE_H
#include "common.h"
#define MAXREC 20000
typedef struct { char name[160]; u8* frame; size_t flen; u8* content; size_t clen; u8* dict; size_t dlen; } rec_t;
static rec_t* g_rec; static int g_nrec;
static u8* g_tmp; static size_t g_ample = 1u << 20;

static uint32_t rd32(FILE* f) { u8 b[4]; if (fread(b, 1, 4, f) != 4) return 0xFFFFFFFFu; return vf_rd32(b); }
static void load_catalogue(const char* path) {
    FILE* f = fopen(path, "rb"); if (!f) { fprintf(stderr, "cannot open catalogue %s\n", path); exit(3); }
    if (!g_rec) g_rec = (rec_t*)calloc(MAXREC, sizeof(rec_t));      /* a second catalogue file is appended */
    for (;;) {
        uint32_t nl = rd32(f); if (nl == 0xFFFFFFFFu) break;
        rec_t* r = &g_rec[g_nrec]; size_t k = nl < 159 ? nl : 159; char tmp[4096];
        if (nl >= sizeof tmp || fread(tmp, 1, nl, f) != nl) break;
        memcpy(r->name, tmp, k); r->name[k] = 0;
        r->flen = rd32(f); r->frame = (u8*)malloc(r->flen + 1); if (fread(r->frame, 1, r->flen, f) != r->flen) break;
        r->clen = rd32(f); r->content = (u8*)malloc(r->clen + 1); if (fread(r->content, 1, r->clen, f) != r->clen) break;
        r->dlen = rd32(f); r->dict = (u8*)malloc(r->dlen + 1); if (fread(r->dict, 1, r->dlen, f) != r->dlen) break;
        if (++g_nrec >= MAXREC) break;
    }
    fclose(f);
}
/* compressor-made streams (exercise what the encoder really emits: multi-block, checksums, flushed blocks) */
static void add_rec(const char* name, const u8* frame, size_t flen, const u8* content, size_t clen) {
    rec_t* r = &g_rec[g_nrec++]; snprintf(r->name, sizeof r->name, "%s", name);
    r->frame = (u8*)malloc(flen + 1); memcpy(r->frame, frame, flen); r->flen = flen;
    r->content = (u8*)malloc(clen + 1); memcpy(r->content, content, clen); r->clen = clen; r->dict = NULL; r->dlen = 0;
}
static void add_compressor_streams(void) {
    static u8 src[4096], dst[8192];
    for (int k = 0; k < 12; k++) {
        size_t n = (size_t)(k % 4 == 0 ? 0 : 40 + 97 * k); char name[80];
        if (k & 1) fill_text(src, n, (uint32_t)k); else fill_noise(src, n, (uint32_t)k);
        if (k % 3 == 0 && n > 50) memcpy(src + n / 2, src, n / 3);
        ZSTD_CCtx* c = ZSTD_createCCtx();
        ZSTD_CCtx_setParameter(c, ZSTD_c_windowLog, 10); ZSTD_CCtx_setParameter(c, ZSTD_c_compressionLevel, 1 + k % 5 * 4); ZSTD_CCtx_setParameter(c, ZSTD_c_checksumFlag, k & 2 ? 1 : 0);
        if (k % 5 == 0) ZSTD_CCtx_setParameter(c, ZSTD_c_contentSizeFlag, 0);
        /* streamed with flushes so that frames have several blocks */
        ZSTD_outBuffer o = { dst, sizeof dst, 0 }; ZSTD_inBuffer i1 = { src, n / 3, 0 }, i2 = { src, n, n / 3 };
        ZSTD_compressStream2(c, &o, &i1, ZSTD_e_flush); i2.pos = i1.pos; ZSTD_compressStream2(c, &o, &i2, ZSTD_e_end);
        ZSTD_freeCCtx(c);
        snprintf(name, sizeof name, "compressor k=%d n=%zu", k, n);
        add_rec(name, dst, o.pos, src, n);
    }
    /* large Huffman literal sections whose four streams run at different speeds: one quarter of the literals uses three frequent symbols (short codes, two
     * symbols per double-symbol lookup), the other quarters a flat 60-symbol alphabet; no matches */
    {   static u8 big[12000], cbig[16000];
        for (int v = 0; v < 8; v++) {
            size_t n = v < 4 ? 2500 : 12000; int fastq = v & 3; uint32_t sd = 77 + (uint32_t)v; char name[80];
            for (size_t i = 0; i < n; i++) { sd = sd * 1103515245u + 12345u; unsigned r = (sd >> 10) & 0xffff; big[i] = (int)(i * 4 / n) == fastq ? (u8)("eta"[r % 3 ? 0 : 1 + (r >> 3) % 2]) : (u8)('A' + r % 60); }
            ZSTD_CCtx* c = ZSTD_createCCtx(); ZSTD_CCtx_setParameter(c, ZSTD_c_windowLog, 17); ZSTD_CCtx_setParameter(c, ZSTD_c_compressionLevel, 1); ZSTD_CCtx_setParameter(c, ZSTD_c_checksumFlag, 1);
            size_t cs = ZSTD_compress2(c, cbig, sizeof cbig, big, n); ZSTD_freeCCtx(c);
            if (ZSTD_isError(cs)) continue;
            snprintf(name, sizeof name, "compressor literals n=%zu fast-quarter=%d", n, fastq);
            add_rec(name, cbig, cs, big, n);
        } }
}

/* frame layout of a record, from the reference decoder: end offsets of each frame in the input and in the content */
typedef struct { int n; size_t inEnd[16], outEnd[16]; int skippable[16]; } layout_t;
static int layout_of(const rec_t* r, layout_t* L) {
    const u8* ip = r->frame; size_t left = r->flen, in = 0, out = 0; u8* tmp = g_tmp;
    dictionary_t* volatile pd = NULL; L->n = 0;
    memset(&r_hooks, 0, sizeof r_hooks);
    if (setjmp(r_jmp)) { if (pd) R_free_dictionary(pd); return 1; }
    pd = R_create_dictionary(); if (r->dlen >= 8) R_parse_dictionary(pd, r->dict, r->dlen);
    while (left > 0 && L->n < 16) {
        if (left >= 8 && (vf_rd32(ip) & 0xFFFFFFF0u) == 0x184D2A50u) { size_t sz = vf_rd32(ip + 4) + 8; if (sz > left) return 1; ip += sz; left -= sz; in += sz; L->skippable[L->n] = 1; }
        else { size_t got = R_decompress_with_dict(tmp, g_ample, ip, left, pd); ip += r_consumed; left -= r_consumed; in += r_consumed; out += got; L->skippable[L->n] = 0; }
        L->inEnd[L->n] = in; L->outEnd[L->n] = out; L->n++;
    }
    R_free_dictionary(pd); pd = NULL;
    return left != 0;
}

#endif
