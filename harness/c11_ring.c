/* C11, seam 2: the round input buffer protocol of zstdmt_compress.c (ZSTDMT_tryGetInputRange, ZSTDMT_getInputDataInUse,
 * ZSTDMT_waitForLdmComplete / ZSTDMT_doesOverlapWindow, ZSTDMT_serialState_update) under EVERY schedule (state cache, no
 * preemption bound).
 *
 * zstdmt_compress.c is included textually through the shim (the library's own object of that file is left out of the link),
 * so the public API (ZSTD_compressStream2 -> ZSTDMT_compressStream_generic -> createCompressionJob / flushProduced) and the real
 * thread pool run unchanged.  Three names are redirected inside that one file only:
 *   POOL_tryAdd                 -> posts `stub_job` instead of ZSTDMT_compressionJob: the stub does what the real job does to
 *                                  the shared protocol state (context / sequence / buffer pools, the serial LDM step in its turn,
 *                                  ensureFinished, `consumed` under the job mutex) and leaves the block compression out, which is
 *                                  what makes every schedule of 12-14 jobs enumerable
 *   ZSTD_memcpy / ZSTD_memmove  -> same copy + ghost stamps: for every byte of the round buffer, the position in the logical
 *                                  input stream that is stored there now
 *   ZSTD_ldm_generateSequences  -> the real function, then the invariant: every byte the long-distance matcher may refer to
 *                                  (its window, after the distance limit was enforced) still holds the stream content it had
 *                                  when it was appended
 * Second invariant: from its post to the moment it reports its source consumed, a job's prefix and source are intact.
 * The caller thread overwriting a section that is still in either set is exactly the unsynchronised access the property
 * forbids; here it is decided by the stamps (independent of content and of whether the matcher happens to read those bytes),
 * and by ThreadSanitizer in the race-detecting build of the same unit.
 */
#include "vf_pthread_shim.h"
#include "common.h"
#include "vsched.h"
#undef MIN
#undef MAX
#undef ERROR
#include "zstd_deps.h"
#include "mem.h"
#include "pool.h"
#include "threading.h"
#include "zstd_compress_internal.h"
#include "zstd_ldm.h"
#include "zstdmt_compress.h"

#define RINGMAX (64u << 10)
#define INMAX   (64u << 10)
static u8* g_in; static size_t g_inSize;
static const u8* g_ring; static size_t g_ringCap;         /* learnt from the context after the frame was initialised */
static int32_t g_stamp[RINGMAX]; static uint64_t g_stampHash;
static long g_logical[64]; static long g_nextLogical; static unsigned g_nextNew;
#define VS_MAXT_H 24
static int g_hold[VS_MAXT_H]; static int g_pcs[VS_MAXT_H];
static long g_ldmSteps, g_ldmExt, g_waits;
static ZSTD_CCtx* g_cctx;

VX_HARNESS_SHARED static void stamp_set(size_t i, int32_t v) {
    g_stampHash ^= vx_mix(i, (uint64_t)(uint32_t)g_stamp[i]) ^ vx_mix(i, (uint64_t)(uint32_t)v); g_stamp[i] = v;
}
VX_HARNESS_SHARED static void learn_ring(void);
VX_HARNESS_SHARED static void* seam_memcpy(void* d, const void* s, size_t l) {
    learn_ring();
    if (g_ring && (const u8*)d >= g_ring && (const u8*)d < g_ring + g_ringCap) {
        size_t off = (size_t)((const u8*)d - g_ring);
        if ((const u8*)s >= g_in && (const u8*)s + l <= g_in + g_inSize) { for (size_t i = 0; i < l; i++) stamp_set(off + i, (int32_t)((const u8*)s - g_in + i)); }
        else for (size_t i = 0; i < l; i++) stamp_set(off + i, -1);
    }
    return memcpy(d, s, l);
}
VX_HARNESS_SHARED static void* seam_memmove(void* d, const void* s, size_t l) {
    learn_ring();
    if (g_ring && (const u8*)d >= g_ring && (const u8*)d < g_ring + g_ringCap) {
        size_t off = (size_t)((const u8*)d - g_ring);
        if ((const u8*)s >= g_ring && (const u8*)s + l <= g_ring + g_ringCap) {
            size_t so = (size_t)((const u8*)s - g_ring); static int32_t tmp[RINGMAX];
            for (size_t i = 0; i < l; i++) tmp[i] = g_stamp[so + i];
            for (size_t i = 0; i < l; i++) stamp_set(off + i, tmp[i]);
        } else for (size_t i = 0; i < l; i++) stamp_set(off + i, -1);
    }
    return memmove(d, s, l);
}
/* first and last address of [p, p+n) hold stream positions pos .. pos+n-1 ? returns the first bad offset or -1 */
VX_HARNESS_SHARED static long range_intact(const u8* p, size_t n, long pos) {
    if (!n) return -1;
    if (!g_ring || p < g_ring || p + n > g_ring + g_ringCap) return 0;
    size_t off = (size_t)(p - g_ring);
    for (size_t i = 0; i < n; i++) if (g_stamp[off + i] != (int32_t)(pos + (long)i)) return (long)i;
    return -1;
}

static size_t seam_ldm_generateSequences(ldmState_t* st, rawSeqStore_t* seq, ldmParams_t const* p, void const* src, size_t srcSize);
static int seam_tryAdd(POOL_ctx* ctx, void* job);

#undef ZSTD_memcpy
#undef ZSTD_memmove
#define ZSTD_memcpy(d,s,l) seam_memcpy((d),(s),(l))
#define ZSTD_memmove(d,s,l) seam_memmove((d),(s),(l))
#define ZSTD_ldm_generateSequences seam_ldm_generateSequences
#define POOL_tryAdd(ctx, fn, arg) seam_tryAdd((ctx), (arg))
#include "zstdmt_compress.c"
#undef POOL_tryAdd
#undef ZSTD_ldm_generateSequences

VX_HARNESS_SHARED static void learn_ring(void) {
    if (g_cctx && g_cctx->mtctx && g_cctx->mtctx->roundBuff.buffer && (g_ring != g_cctx->mtctx->roundBuff.buffer || g_ringCap != g_cctx->mtctx->roundBuff.capacity)) {
        g_ring = g_cctx->mtctx->roundBuff.buffer; g_ringCap = g_cctx->mtctx->roundBuff.capacity;
        if (g_ringCap > RINGMAX) { vx_fail("harness: round buffer of %zu bytes is larger than the stamp array", g_ringCap); vx_abort_exec(); }
    }
}

VX_HARNESS_SHARED static size_t seam_ldm_generateSequences(ldmState_t* st, rawSeqStore_t* seq, ldmParams_t const* p, void const* src, size_t srcSize) {
    size_t const r = ZSTD_ldm_generateSequences(st, seq, p, src, srcSize);
    ZSTD_window_t const w = st->window;
    g_ldmSteps++;
    if (w.dictLimit > w.lowLimit) {
        long bad = range_intact(w.dictBase + w.lowLimit, w.dictLimit - w.lowLimit, (long)w.lowLimit - ZSTD_WINDOW_START_INDEX); g_ldmExt++;
        if (bad >= 0) vx_fail("round buffer: a byte of the long-distance matcher's window (older segment, stream position %ld) was overwritten before the serial step that may refer to it", (long)w.lowLimit - ZSTD_WINDOW_START_INDEX + bad);
    }
    {   size_t const n = (size_t)(w.nextSrc - (w.base + w.dictLimit));
        long bad = range_intact(w.base + w.dictLimit, n, (long)w.dictLimit - ZSTD_WINDOW_START_INDEX);
        if (bad >= 0) vx_fail("round buffer: a byte of the long-distance matcher's window (current segment, stream position %ld) was overwritten before the serial step that may refer to it", (long)w.dictLimit - ZSTD_WINDOW_START_INDEX + bad);
    }
    return r;
}

VX_HARNESS_SHARED static void job_ranges_intact(const ZSTDMT_jobDescription* job, const char* when) {
    long const pos = g_logical[job->jobID & 63];
    long bad = range_intact((const u8*)job->src.start, job->src.size, pos);
    if (bad >= 0) { vx_fail("round buffer: source of job %u overwritten %s (stream position %ld)", job->jobID, when, pos + bad); return; }
    if (job->prefix.size) {
        bad = range_intact((const u8*)job->prefix.start, job->prefix.size, pos - (long)job->prefix.size);
        if (bad >= 0) vx_fail("round buffer: overlap prefix of job %u overwritten %s (stream position %ld)", job->jobID, when, pos - (long)job->prefix.size + bad);
    }
}

/* what ZSTDMT_compressionJob does to the shared protocol state, in its order, without the block compression */
VX_HARNESS_SHARED static void stub_job(void* jobDescription) {
    ZSTDMT_jobDescription* const job = (ZSTDMT_jobDescription*)jobDescription;
    int const me = vs_self();
    g_hold[me] = (int)job->jobID + 1; g_pcs[me] = 1;
    ZSTD_CCtx* const cctx = ZSTDMT_getCCtx(job->cctxPool);
    rawSeqStore_t rawSeqStore = ZSTDMT_getSeq(job->seqPool);
    buffer_t dstBuff = job->dstBuff;
    if (dstBuff.start == NULL) { dstBuff = ZSTDMT_getBuffer(job->bufPool); job->dstBuff = dstBuff; }
    if (!cctx || !dstBuff.start || (job->params.ldmParams.enableLdm == ZSTD_ps_enable && !rawSeqStore.seq)) { vx_fail("harness: pools returned NULL"); return; }
    g_pcs[me] = 2;
    ZSTDMT_serialState_update(job->serial, cctx, rawSeqStore, job->src, job->jobID);
    g_pcs[me] = 3;
    job_ranges_intact(job, "while the job was compressing from it");
    memset(dstBuff.start, 0xEE, 4);
    ZSTDMT_serialState_ensureFinished(job->serial, job->jobID, job->cSize);
    ZSTDMT_releaseSeq(job->seqPool, rawSeqStore);
    ZSTDMT_releaseCCtx(job->cctxPool, cctx);
    g_pcs[me] = 4;
    job_ranges_intact(job, "before the job reported it consumed");
    ZSTD_PTHREAD_MUTEX_LOCK(&job->job_mutex);
    job->cSize = 4; job->consumed = job->src.size;
    ZSTD_pthread_cond_signal(&job->job_cond);
    ZSTD_pthread_mutex_unlock(&job->job_mutex);
    g_hold[me] = 0; g_pcs[me] = 0;
}

VX_HARNESS_SHARED static int seam_tryAdd(POOL_ctx* ctx, void* arg) {
    ZSTDMT_jobDescription* const job = (ZSTDMT_jobDescription*)arg;
    if (job->jobID == g_nextNew) { g_logical[job->jobID & 63] = g_nextLogical; g_nextLogical += (long)job->src.size; g_nextNew++; }   /* a job that was refused is offered again later */
    return POOL_tryAdd(ctx, stub_job, arg);
}

static int cb_pick(int n, int kind) { return vx_pick(n, kind == 2 ? VX_PREEMPT : VX_DEV); }
static void cb_fail(const char* what) { vx_fail("%s", what); vx_abort_exec(); }
static size_t g_inPos; static int g_step, g_cfgId; static size_t g_outTotal;
VX_HARNESS_SHARED static uint64_t cb_key(void) {
    uint64_t h = 11; ZSTDMT_CCtx* m = g_cctx ? g_cctx->mtctx : NULL;
    h = vx_mix(h, (uint64_t)g_cfgId); h = vx_mix(h, (uint64_t)g_step); h = vx_mix(h, g_inPos); h = vx_mix(h, g_outTotal); h = vx_mix(h, g_stampHash);
    for (int i = 0; i < VS_MAXT_H; i++) h = vx_mix(h, (uint64_t)(g_hold[i] * 8 + g_pcs[i]));
    if (m) {
        h = vx_mix(h, m->roundBuff.pos); h = vx_mix(h, m->inBuff.filled); h = vx_mix(h, (uint64_t)((const u8*)m->inBuff.buffer.start - g_ring)); h = vx_mix(h, (uint64_t)((const u8*)m->inBuff.prefix.start - g_ring)); h = vx_mix(h, m->inBuff.prefix.size);
        h = vx_mix(h, m->doneJobID); h = vx_mix(h, m->nextJobID); h = vx_mix(h, (uint64_t)(m->jobReady * 4 + m->frameEnded * 2 + m->allJobsCompleted));
        for (unsigned j = 0; j <= m->jobIDMask; j++) { h = vx_mix(h, m->jobs[j].consumed); h = vx_mix(h, m->jobs[j].cSize); h = vx_mix(h, m->jobs[j].dstFlushed); h = vx_mix(h, m->jobs[j].src.size); }
        h = vx_mix(h, m->serial.nextJobID);
        h = vx_mix(h, m->serial.ldmWindow.lowLimit); h = vx_mix(h, m->serial.ldmWindow.dictLimit); h = vx_mix(h, (uint64_t)(m->serial.ldmWindow.nextSrc - g_ring));
        h = vx_mix(h, m->serial.ldmState.window.lowLimit); h = vx_mix(h, m->serial.ldmState.window.dictLimit); h = vx_mix(h, (uint64_t)(m->serial.ldmState.window.nextSrc - g_ring));
    }
    return h;
}

static void init(void) { g_in = (u8*)malloc(INMAX); }

typedef struct { int workers, wlog, overlap, noLdm; } rcfg_t;
static const rcfg_t CFG[] = { {3, 12, 1}, {4, 12, 1}, {3, 11, 1}, {2, 12, 1}, {3, 12, 9}, {4, 13, 0}, {4, 11, 5},
    /* without long-distance matching: overlap as large as a job, so that the prefix of the oldest unfinished job is what the caller must not reach */
    {2, 10, 9, 1}, {1, 10, 9, 1}, {3, 10, 8, 1} };
/* feeding scripts: (bytes offered, directive) per call; 0 bytes ends the script and the rest goes in with ZSTD_e_end */
typedef struct { int len; ZSTD_EndDirective dir; } feed_t;
static const feed_t S0[] = { {0, ZSTD_e_end} };
static const feed_t S1[] = { {1024, ZSTD_e_continue}, {1024, ZSTD_e_continue}, {1024, ZSTD_e_continue}, {1024, ZSTD_e_continue}, {1024, ZSTD_e_continue}, {1024, ZSTD_e_continue}, {1024, ZSTD_e_continue}, {1024, ZSTD_e_continue}, {1024, ZSTD_e_continue}, {1024, ZSTD_e_continue}, {0, ZSTD_e_end} };
static const feed_t S2[] = { {1536, ZSTD_e_continue}, {700, ZSTD_e_flush}, {1536, ZSTD_e_continue}, {1536, ZSTD_e_continue}, {300, ZSTD_e_flush}, {2048, ZSTD_e_continue}, {1000, ZSTD_e_flush}, {2048, ZSTD_e_continue}, {0, ZSTD_e_end} };
static const feed_t S3[] = { {3000, ZSTD_e_continue}, {1, ZSTD_e_flush}, {3000, ZSTD_e_continue}, {1023, ZSTD_e_flush}, {3000, ZSTD_e_continue}, {0, ZSTD_e_end} };
static const feed_t* const SCRIPT[] = { S0, S1, S2, S3 };

static void body(void) {
    int const nCfg = (int)(sizeof CFG / sizeof CFG[0]); int maxCfg = (int)vx_opt_int("--cfgs", nCfg); if (maxCfg > nCfg) maxCfg = nCfg;
    int const ci = vx_choose(maxCfg), si = vx_choose(4), slowOut = vx_choose(2), njobs = (int)vx_opt_int("--jobs", 14), tex = (int)vx_opt_int("--tex", 0);
    rcfg_t const cf = CFG[ci]; g_cfgId = ((ci * 4 + si) * 2 + slowOut) * 64 + njobs * 2 + tex;
    g_inSize = (size_t)njobs * 1024 + 77;
    /* texture 0: every 2 KiB the stream repeats content from 3 KiB earlier (the matcher finds matches in the older segment); 1: text */
    if (tex) fill_text(g_in, g_inSize, 5); else { fill_noise(g_in, g_inSize, 17); for (size_t p = 3072; p + 512 <= g_inSize; p += 2048) memcpy(g_in + p, g_in + p - 3072, 512); }
    memset(g_stamp, 0xFF, sizeof g_stamp); g_stampHash = 0; g_ring = NULL; g_ringCap = 0; g_nextLogical = 0; g_nextNew = 0; g_ldmSteps = g_ldmExt = 0;
    memset(g_hold, 0, sizeof g_hold); memset(g_pcs, 0, sizeof g_pcs); g_inPos = 0; g_step = 0; g_outTotal = 0; g_cctx = NULL;
    vx_label("ring workers=%d wlog=%d overlap=%d ldm=%d script=%d slowout=%d jobs=%d tex=%d", cf.workers, cf.wlog, cf.overlap, !cf.noLdm, si, slowOut, njobs, tex);
    vs_config_t cfg; memset(&cfg, 0, sizeof cfg); cfg.pick = cb_pick; cfg.fail = cb_fail; cfg.statekey = cb_key; cfg.visited = vx_visited; cfg.horizon = 400000;
    vs_begin(&cfg);
    ZSTD_CCtx* c = ZSTD_createCCtx(); g_cctx = c;
    ZSTD_CCtx_setParameter(c, ZSTD_c_compressionLevel, 1); ZSTD_CCtx_setParameter(c, ZSTD_c_nbWorkers, cf.workers); ZSTD_CCtx_setParameter(c, ZSTD_c_jobSize, 1024);
    ZSTD_CCtx_setParameter(c, ZSTD_c_windowLog, cf.wlog); ZSTD_CCtx_setParameter(c, ZSTD_c_enableLongDistanceMatching, cf.noLdm ? ZSTD_ps_disable : ZSTD_ps_enable);
    ZSTD_CCtx_setParameter(c, ZSTD_c_ldmHashLog, 8); ZSTD_CCtx_setParameter(c, ZSTD_c_ldmMinMatch, 16); ZSTD_CCtx_setParameter(c, ZSTD_c_ldmHashRateLog, 2);
    if (cf.overlap) ZSTD_CCtx_setParameter(c, ZSTD_c_overlapLog, cf.overlap);
    static u8 out[1 << 16]; int failed = 0;
    const feed_t* sc = SCRIPT[si];
    for (g_step = 0; !failed; g_step++) {
        int const last = sc[g_step].len == 0; ZSTD_EndDirective const dir = sc[g_step].dir;
        size_t end = last ? g_inSize : g_inPos + (size_t)sc[g_step].len; if (end > g_inSize) end = g_inSize;
        ZSTD_inBuffer in = { g_in, end, g_inPos };
        for (long guard = 0; ; guard++) {
            if (guard > 200000) { vx_fail("ring seam: no completion after 200000 calls"); failed = 1; break; }
            ZSTD_outBuffer o = { out, slowOut ? 3 : sizeof out, 0 };
            size_t const r = ZSTD_compressStream2(c, &o, &in, dir);
            if (ZSTD_isError(r)) { vx_fail("ring seam: compressStream2 error: %s", ZSTD_getErrorName(r)); failed = 1; break; }
            g_inPos = in.pos; g_outTotal += o.pos;
            if (dir == ZSTD_e_continue) { if (in.pos == in.size) break; } else if (r == 0) break;
        }
        if (last) break;
    }
    g_cctx = NULL;
    ZSTD_freeCCtx(c);
    vs_end();
    if (!failed && g_nextLogical != (long)g_inSize) vx_fail("ring seam: jobs covered %ld of %zu input bytes", g_nextLogical, g_inSize);
    vx_obs_u64((uint64_t)g_nextNew); vx_obs_u64((uint64_t)g_ldmSteps); vx_obs_u64((uint64_t)vs_counter(1));
    if (g_ldmExt > 0 || (cf.noLdm && g_nextNew > 8)) vx_nontrivial();
    vx_stat_add("sched_points", vs_steps()); vx_stat_add("blocking_waits", vs_counter(1)); vx_stat_add("ldm_steps_checked", g_ldmSteps); vx_stat_add("ldm_steps_with_older_segment", g_ldmExt);
    if (vx_want_sample()) vx_sample("ring seam: %u jobs, %ld serial steps checked (%ld with a wrapped window), %ld scheduling points, %ld blocking waits", g_nextNew, g_ldmSteps, g_ldmExt, vs_steps(), vs_counter(1));
}

int main(int argc, char** argv) { return vx_main(argc, argv, init, body); }
