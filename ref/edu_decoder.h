/* Reference decoder R: vendored copy of doc/educational_decoder (written from the format
 * specification, shares no code with lib/).  See ref/make_edu.py for the mechanical changes. */
#ifndef EDU_DECODER_H
#define EDU_DECODER_H
#include <stddef.h>
#include <setjmp.h>

typedef struct dictionary_s dictionary_t;

typedef struct {
    void* opaque;
    void (*header)(void* o, size_t windowSize, size_t fcs, unsigned dictID, int checksumFlag, int singleSegment, int descriptor);
    void (*block)(void* o, int type, size_t blockSizeField, size_t regenerated, int last);
    void (*checksum)(void* o, unsigned stored);
    void (*seq)(void* o, size_t ll, size_t ml, size_t offset, unsigned offsetValue, size_t posAtMatchStart, size_t windowSize, size_t dictLen);
    void (*lit)(void* o, int type, int sizeFormat);
    void (*nbseq)(void* o, size_t nbSeq, size_t remainingInBlock);
    void (*seqtable)(void* o, int part /*0 LL,1 OF,2 ML*/, int mode, size_t descBytes, size_t remainingAtTableStart);
} r_hooks_t;

extern jmp_buf r_jmp;
extern const char* r_errmsg;
extern r_hooks_t r_hooks;
extern size_t r_consumed;

size_t R_decompress(void* dst, size_t dst_len, const void* src, size_t src_len);
size_t R_decompress_with_dict(void* dst, size_t dst_len, const void* src, size_t src_len, dictionary_t* parsed_dict);
size_t R_get_decompressed_size(const void* src, size_t src_len);
dictionary_t* R_create_dictionary(void);
void R_parse_dictionary(dictionary_t* dict, const void* src, size_t src_len);
void R_free_dictionary(dictionary_t* dict);
#endif
