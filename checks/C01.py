"""C01 — one-shot round trip: input shapes x parameter vectors x entry points, deviation-bounded, exhaustive inside the bound."""
RULE = ('every (entry point, parameter vector, input) inside the bound is executed: parameter vectors = 9 strategies + 16 levels with <= D '
        'deviations over {windowLog, minMatch, hashLog, chainLog, searchLog, targetLength, row finder, LDM, splitter, targetCBlockSize, maxBlockSize, '
        'literal mode, checksum, contentSize, magicless}; inputs = 3 base shapes of K segments with deviations over the LIT/REP/PAD alphabet (same budget D), '
        'plus a block-type family (the first 2-3 blocks of the frame each one of 11 characters: three skewed byte alphabets differing in their top symbol, noise, two single-byte runs, almost a run (three stray bytes whose bits are subsets of those of the run byte), words, a 12-symbol alphabet; first block exactly / one short / one over the block size; 8 entry points incl. CDict / loadDictionary), plus a long-length family (literal run or match of 65535..131075 bytes starting at / around a 128 KiB block edge, in blocks with few or ~350 other sequences, once or twice, splitter on/off) and all {a,b} strings of length <= L and a 256-byte text prefix + all {a,b} suffixes; distinct = distinct compressed outputs, non-trivial = output smaller than input')


def run(vc, tier):
    c = vc.Check('C01', tier, 'exploration', RULE)
    src = ['harness/c01_roundtrip.c', 'ref/edu_decoder.c']
    if tier == 'quick':
        c.run_vx_unit('c01-shapes', src, 'asan', ['--mode', 'rt', '--set', 'shapes', '--K', 4, '--D', 1], share=0.4)
        c.run_vx_unit('c01-longlen', src, 'asan', ['--mode', 'rt', '--set', 'longlen', '--D', 0, '--exec-timeout', 120000], share=0.5)
        c.run_vx_unit('c01-blocks', src, 'asan', ['--mode', 'rt', '--set', 'blocks', '--D', 0, '--exec-timeout', 60000], share=0.5)
        c.run_vx_unit('c01-litband', src, 'asan', ['--mode', 'rt', '--set', 'litband', '--D', 0], share=0.4)
        c.run_vx_unit('c01-ab', src, 'asan', ['--mode', 'rt', '--set', 'ab', '--L', 7, '--D', 0], share=0.5)
        c.run_vx_unit('c01-absuffix', src, 'asan', ['--mode', 'rt', '--set', 'absuffix', '--L', 5, '--D', 0], share=0.9)
    else:
        c.run_vx_unit('c01-shapes', src, 'asan', ['--mode', 'rt', '--set', 'shapes', '--K', 5, '--D', 2], share=0.4)
        c.run_vx_unit('c01-shapes-big', src, 'asan', ['--mode', 'rt', '--set', 'shapes', '--K', 4, '--big', 1, '--D', 1], share=0.3)
        c.run_vx_unit('c01-longlen', src, 'asan', ['--mode', 'rt', '--set', 'longlen', '--D', 1, '--exec-timeout', 120000], share=0.4)
        c.run_vx_unit('c01-blocks', src, 'asan', ['--mode', 'rt', '--set', 'blocks', '--D', 1, '--exec-timeout', 60000], share=0.4)
        c.run_vx_unit('c01-litband', src, 'asan', ['--mode', 'rt', '--set', 'litband', '--D', 1], share=0.3)
        c.run_vx_unit('c01-ab', src, 'asan', ['--mode', 'rt', '--set', 'ab', '--L', 12, '--D', 0], share=0.5)
        c.run_vx_unit('c01-absuffix', src, 'asan', ['--mode', 'rt', '--set', 'absuffix', '--L', 9, '--D', 0], share=0.9)
    c.assumptions = ['inputs outside the shape grammar and windows other than 2^10 / 2^11 / 2^17 are not enumerated',
                     'the decoder used as oracle is the library\'s own (C05 re-checks the same frames with the independent decoder)']
    return c.finish()
