"""C17 — sequence-level compression: valid parses round-trip, invalid ones are refused."""
RULE = ('6 source textures (two with every other block a single-byte run) and a long-length family (literal run of 65535..65538 bytes followed by a repcode match, own parse and ZSTD_generateSequences output) x {no delimiters, explicit delimiters} x repcode search {auto, on, off} x {no dictionary, prefix, CDict} x minMatch 3..7 x parse variants {own greedy parser; one '
        'match crossing a block edge split at edge-1 / edge / edge+1 / every position within +-8; irregular explicit block sizes; ZSTD_generateSequences output; merged delimiters}: '
        'ZSTD_compressSequences must succeed and the frame must pass the reference decoder; with validateSequences=1 every sampled sequence gets each single-field corruption '
        '(offset = history at match start + 1, far offset, 2^31, match length 1/2/3, literal length + 1, delimiter removed / with match length / wrong length): structural-rule '
        'violations must return an error; all runs under ASan; destination capacity sweep; registered external producer returning {good parse, error, too many, zero} x fallback on/off; '
        'distinct = distinct frames; non-trivial = frame with > 2 sequences')
SRC = ['harness/c17_sequences.c', 'ref/edu_decoder.c']


def run(vc, tier):
    c = vc.Check('C17', tier, 'exploration', RULE)
    c.run_vx_unit('c17-small', SRC, 'asan', ['--big', 0, '--D', 0], share=0.6)
    c.run_vx_unit('c17-longlen', SRC, 'asan', ['--big', 2, '--D', 0, '--exec-timeout', 120000], share=0.6)
    if tier != 'quick':
        c.run_vx_unit('c17-128k', SRC, 'asan', ['--big', 1, '--D', 0, '--exec-timeout', 120000], share=0.9)
    c.extra['corruptions_judged'] = sum(r.stats.get('corruptions_judged', 0) for _, r, _ in c.units)
    c.extra['corruptions_run_for_memory_safety'] = sum(r.stats.get('corruptions_run_for_memory_safety', 0) for _, r, _ in c.units)
    c.evaluations += c.extra['corruptions_run_for_memory_safety']
    c.assumptions = ['lists whose matches do not match the source, or that overrun the source without delimiters, are outside the documented validation scope and only run for memory safety',
                     'quick tier uses 1 KiB blocks (ZSTD_c_maxBlockSize) so block edges are reached with 4 KiB sources; thorough adds real 128 KiB edges']
    return c.finish()
