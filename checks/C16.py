"""C16 — parameter interface contract, closed grid against a reference model transcribed from zstd.h."""
RULE = ('objects {CCtx, CCtx_params, DCtx} x every ZSTD_cParameter / ZSTD_dParameter enumerator (38 + 7, experimental ones included) x every operation sequence of depth <= 3 over '
        '{set(v) for v in {lo, hi, lo-1, hi+1, lo+1, hi-1, 0, default, INT_MIN, INT_MAX}, reset(session), reset(parameters), reset(both), begin frame, end frame, failing call, '
        'setParametersUsingCCtxParams, ZSTD_compressCCtx, the struct setters ZSTD_CCtx_setCParams / setFParams / setParams (valid struct with opposite frame flags, the parameter under test replaced by lo, hi, lo-1, hi+1 when it is a member: refused => nothing changed, accepted => every member reads back)}; after every operation all getters are read and compared with the model; '
        'distinct = distinct (object, parameter, final vector, stage); non-trivial = at least one accepted set')


def run(vc, tier):
    c = vc.Check('C16', tier, 'model_checking', RULE)
    src = ['harness/c16_params.c', 'ref/edu_decoder.c']
    c.run_vx_unit('c16-dicts', src, 'asan', ['--mode', 1, '--D', 0], share=0.3)
    r = c.run_vx_unit('c16-grid', src, 'asan', ['--depth', 3 if tier == 'quick' else 4, '--D', 0], share=0.9)
    c.states = r.done.get('outcomes', 0)
    c.transitions = r.done.get('executions', 0)
    c.traces_validated = r.done.get('executions', 0)
    c.extra['note'] = ('states = distinct (object, parameter, parameter vector, stage) reached; transitions = operation sequences executed on the real objects; every sequence is '
                       'simultaneously run on the reference model (documentation table) and on the implementation, so each is a model trace validated against the code')
    c.assumptions = ['reference model transcribed by hand from lib/zstd.h: "0 means default" list, level 0 -> ZSTD_CLEVEL_DEFAULT, sub-minimum jobSize raised, mid-frame updatable list',
                     'frames are only started with memory-light settings (windowLog/hashLog/chainLog <= 22, nbWorkers <= 4, LDM off)']
    return c.finish()
