"""C02 — streaming round trip under any call history (compressor side: history search with state caching; decoder side: closed state graph)."""
RULE = ('compressor: 6 configurations (window 1-2 KiB, 1 KiB blocks, strategies fast/dfast/greedy/lazy2/btopt, LDM, targetCBlockSize, checksum) x 3 inputs (2.6-5 KiB: text with a '
        'beyond-window repeat, noise, RLE with marks at block edges) x every history of depth d over calls (in-slice in {0,1,t-1,t,t+1,all} relative to the internal block target, '
        'out-capacity in {0,1,2,3,blockBound-1,ample}, directive in {continue,flush,end}), through ZSTD_compressStream2 and the classic compressStream/flushStream/endStream wrappers, '
        'followed by a default drain; states are keyed by the full image of the static context (fixed-address arena) + positions + emitted-bytes hash and merged; '
        'distinct = distinct emitted streams; non-trivial = history with a completed flush/end or several frames')
SRC = ['harness/c02_cstream.c', 'ref/edu_decoder.c']


def run(vc, tier):
    c = vc.Check('C02', tier, 'model_checking', RULE)
    d = 3 if tier == 'quick' else 4
    nc = 4 if tier == 'quick' else 6
    c.run_vx_unit('c02-cstream2', SRC, 'asan', ['--depth', d, '--api', 0, '--ncfg', nc, '--judge', 1], share=0.6, states_from=('transitions', 'transitions'))
    c.run_vx_unit('c02-stable', SRC, 'asan', ['--api', 3, '--depth', 3, '--D', 0], share=0.3)
    c.run_vx_unit('c02-ring', SRC, 'asan', ['--api', 2, '--D', 0], share=0.3)
    c.run_vx_unit('c02-classic', SRC, 'asan', ['--depth', d - 1 if tier == 'quick' else d, '--api', 1, '--ncfg', nc, '--judge', 1], share=0.3, states_from=('transitions', 'transitions'))
    cat = vc.catalogue('quick')
    r = c.run_vx_unit('c02-dstream', ['harness/c02_dstream.c', 'ref/edu_decoder.c'], 'asan', ['--cat', cat, '--stride', 1, '--maxlen', 160 if tier == 'quick' else 400, '--judge', 1, '--D', 0], share=0.9)
    c.states = r.stats.get('graph_states', 0); c.transitions = r.stats.get('graph_transitions', 0)
    c.extra['decoder_graphs_closed'] = r.stats.get('graphs_closed', 0)
    c.states += sum(r.done.get('visited', 0) for _, r, _ in c.units)
    c.transitions += sum(r.stats.get("transitions", 0) for _, r, _ in c.units)
    c.traces_validated = c.evaluations
    c.extra['flush_completions_checked'] = sum(r.stats.get('flush_completions_checked', 0) for _, r, _ in c.units)
    c.extra['end_completions_checked'] = sum(r.stats.get('end_completions_checked', 0) for _, r, _ in c.units)
    c.extra['note'] = 'states = distinct (context image, positions, emitted hash, remaining depth) keys; transitions = calls executed; every history runs on the real context'
    c.assumptions = ['window 2^10 / 2^11 and 1 KiB blocks so that every internal edge is a few calls away', 'multithreaded streaming is judged in C11']
    return c.finish()
