"""C15 — correctness does not wear out: histories of frames on one context with index rebasing forced early."""
RULE = ('build with ZSTD_WINDOW_OVERFLOW_CORRECT_FREQUENTLY=1 and ZSTD_CURRENT_MAX lowered to 1.1 MB / overflow margin 128 KB (guarded hook), so rebasing and the index reset happen every few '
        'hundred KB; every history of 1..d frames on one context, each frame = (5 contents x sizes {1 KB, 20 KB, 300 KB} x 9 strategies with strategy-dependent window/hash/chain logs x '
        '{compress2, streaming in 7777-byte calls, with prefix, with LDM}; size and api are deviations from (1 KB / 300 KB, compress2) within budget D); every frame round-trips, passes the reference '
        'decoder + conformance rules (window rule after rebasing, checksum) and the last frame equals the fresh-context output; non-vacuity: overflow corrections counted; second unit: 60 KB '
        'streams through a 1 KiB-window streaming decoder with 1 / 7 / 1000-byte outputs; distinct = distinct (frame prefix, corrections); non-trivial = at least one index correction happened')
SRC = ['harness/c15_wear.c', 'ref/edu_decoder.c']


def run(vc, tier):
    c = vc.Check('C15', tier, 'model_checking', RULE)
    q = tier == 'quick'
    r = c.run_vx_unit('c15-histories', SRC, 'ovf', ['--mode', 0, '--depth', 2 if q else 3, '--D', 1 if q else 2, '--exec-timeout', 120000], share=0.8)
    c.run_vx_unit('c15-marathon', SRC, 'ovf-limit', ['--mode', 2, '--D', 0, '--exec-timeout', 120000], share=0.5)
    # a reused multithreaded context (job table, serial state with its long-distance-matching tables, pools): the C07 multithreaded unit, whose histories are
    # earlier frames on the same context
    c.run_vx_unit('c15-mt-reuse', ['harness/c07_purity.c', 'ref/edu_decoder.c'], 'sched-asan', ['--mode', 2, '--D', 0, '--exec-timeout', 60000], extra_flags='-DVERIF_C07_MT', engine_srcs=['engine/vsched.c'], share=0.5)
    r2 = c.run_vx_unit('c15-decoder-ring', SRC, 'ovf', ['--mode', 1, '--D', 0], share=0.9)
    c.states = r.done.get('outcomes', 0) + r2.done.get('outcomes', 0); c.transitions = r.stats.get('frames', 0) + r2.done.get('executions', 0); c.traces_validated = r.done.get('executions', 0)
    c.extra['overflow_corrections_seen'] = r.stats.get('overflow_corrections_seen', 0)
    if c.extra['overflow_corrections_seen'] == 0:
        raise RuntimeError('vacuous run: no index overflow correction was ever performed')
    c.extra['note'] = 'a state is a frame history replayed on a fresh real context; transitions = frames compressed'
    c.assumptions = ['rebasing is forced by build-time knobs (one upstream, one guarded hook); real > 4 GiB streams are not run in the quick tier']
    return c.finish()
