"""C14 — memory budgets: static contexts of exactly the estimated size between guard pages; sizeof vs a counting allocator; decoder window limit."""
RULE = ('(levels) every pair l <= L of 24 levels x 9 input sizes (0 .. 1 MB, around 16K/128K/256K) x {compressCCtx, compress2, 3 streaming patterns incl. unknown size} inside '
        'initStatic(estimateCCtxSize / estimateCStreamSize (L)) placed against a PROT_NONE page at either end; (cparams) 9 strategies x <= D deviations over each cParams field\'s '
        '{min, min+1, mid, max-1, max} x row finder x LDM with estimate*_usingCParams / _usingCCtxParams and exactly those parameters; (dstream) all 112 window descriptors up to 15 MiB x 10 '
        'window limits: static stream of estimateDStreamSize(limit) decodes iff window <= limit, heap stream with windowLogMax refuses above and never holds more than '
        'estimateDStreamSize(min(limit, window)); (dseq) every sequence of 2-3 frames out of 8 kinds (windows 1 KiB .. 128 KiB of unknown size, single-segment frames of 1000 .. 131072 bytes, '
        'near-incompressible so that compressed blocks are as large as the block limit) on ONE static stream of estimateDStreamSize(limit) or heap stream, limit 128 KiB / 1 MiB, input whole / in 1000-byte / in 70 000-byte pieces, 4 KiB or ample output room: every frame decodes; (sizeof) histories of <= 3 operations on CCtx (incl. MT, LDM, dictionary), CDict, DDict, DCtx with a counting allocator: '
        'sizeof_* >= bytes held, nothing held after free; (dicts) static CDict / DDict of exactly the estimated size over catalogue dictionaries; '
        'distinct = distinct (block size, output); non-trivial = input > 1000 bytes / window > 1 KiB')
SRC = ['harness/c14_budget.c', 'ref/edu_decoder.c']


def run(vc, tier):
    c = vc.Check('C14', tier, 'exploration', RULE)
    q = tier == 'quick'
    c.run_vx_unit('c14-levels', SRC, 'plain', ['--mode', 'levels', '--maxL', 12 if q else 22, '--D', 0, '--exec-timeout', 120000], share=0.35)
    c.run_vx_unit('c14-cparams', SRC, 'plain', ['--mode', 'cparams', '--D', 1 if q else 2, '--exec-timeout', 120000], share=0.4)
    c.run_vx_unit('c14-dstream', SRC, 'plain', ['--mode', 'dstream', '--D', 0], share=0.5)
    c.run_vx_unit('c14-dseq', SRC, 'plain', ['--mode', 'dseq', '--D', 0, '--exec-timeout', 60000], share=0.5)
    c.run_vx_unit('c14-sizeof', SRC, 'plain', ['--mode', 'sizeof', '--D', 0, '--exec-timeout', 60000], share=0.6)
    c.run_vx_unit('c14-wear', SRC, 'plain', ['--mode', 'wear', '--D', 0, '--exec-timeout', 120000], share=0.5)
    c.run_vx_unit('c14-dicts', SRC, 'plain', ['--mode', 'dicts', '--cat', vc.catalogue('quick'), '--D', 0], share=0.9)
    c.assumptions = ['windowLog > 24 not run in the cParams grid (blocks capped at 300 MiB)', 'guard pages catch any access outside the caller block; reads inside slack (< 8 bytes of alignment) are not caught',
                     'built without sanitizers (gcc -O1): the oracle is the MMU']
    return c.finish()
