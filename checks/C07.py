"""C07 — compressed output is a pure function of input, parameters, dictionary and calls."""
RULE = ('context kind {heap, static} x every prior history of depth <= d over 17 operations (complete frames at level 1 / 19 / row+LDM / window 2^10, aborted frame + session reset, failed '
        'call + reset, stable-input call + reset, stable-output frame, ZSTD_generateSequences, mid-frame level change, pledged frame, prefix frame, loadDictionary frame, 2-worker frame, '
        'registered sequence producer, shared thread pool, parameter reset) x subjects (7 inputs (quick: 4; incl. match-less stretches of > 2 KiB followed by repeats of what was skipped) x <= D deviations over 14 parameter vectors incl. all strategies / row finder / LDM / '
        'targetCBlockSize / level 19 / prefix, 4 call sequences incl. 7-byte outputs and mid-frame flushes, 3 source / destination alignments), source placed right after a PROT_NONE page; '
        'second unit: 40 (thorough 200) text-like inputs x 2 sizes x the 3 optimal-parser strategies after {nothing, a 600 KB level-3 frame, a level-19 frame} on a heap context and on caller-provided memory pre-filled with 0x3F / 0xFF; unit c07-big: subjects of 400 000 / 900 000 bytes (several full blocks; an archive-like one compressed with the row finder and small tables so that rows evict all the time) x 5 levels x 5 priors x 3 entry points; oracle: bytes identical to the fresh-context run of the same subject; worker counts and schedules are judged in C11 (one output per subject over every explored schedule); '
        'distinct = distinct subject outputs; non-trivial = non-empty history')
SRC = ['harness/c07_purity.c', 'ref/edu_decoder.c']


def run(vc, tier):
    c = vc.Check('C07', tier, 'model_checking', RULE)
    q = tier == 'quick'
    r = c.run_vx_unit('c07-histories', SRC, 'asan', ['--depth', 2 if q else 3, '--D', 1 if q else 2, '--nshapes', 4 if q else 7, '--exec-timeout', 60000], share=0.6)
    r2 = c.run_vx_unit('c07-opt', SRC, 'asan', ['--mode', 1, '--ninputs', 40 if q else 200, '--D', 0, '--exec-timeout', 60000], share=0.9)
    # the same optimal-parser unit without sanitizers: the allocator hands out different (recycled, not pattern-filled) memory there, which is exactly what
    # "does not depend on heap vs reused memory" is about
    c.run_vx_unit('c07-opt-plain', SRC, 'plain', ['--mode', 1, '--ninputs', 40 if q else 200, '--D', 0, '--exec-timeout', 60000], share=0.3)
    r4 = c.run_vx_unit('c07-big', SRC, 'asan', ['--mode', 3, '--D', 0, '--exec-timeout', 60000], share=0.4)
    r3 = c.run_vx_unit('c07-mt', SRC, 'sched-asan', ['--mode', 2, '--D', 0, '--exec-timeout', 60000], extra_flags='-DVERIF_C07_MT', engine_srcs=['engine/vsched.c'], share=0.9)
    c.states = r.done.get('outcomes', 0) + r2.done.get('outcomes', 0) + r3.done.get('outcomes', 0) + r4.done.get('outcomes', 0); c.transitions = r.stats.get('histories_run', 0) + r2.stats.get('histories_run', 0) + r3.stats.get('histories_run', 0); c.traces_validated = c.transitions
    c.extra['note'] = 'a state is an operation history replayed on a fresh real context (contexts cannot be copied); transitions = histories executed; states = distinct subject outputs observed'
    c.assumptions = ['histories deeper than the bound', 'cross-process determinism (different binaries) is out of scope']
    return c.finish()
