"""C03 — decoding untrusted bytes is memory-safe, bounded and terminating: exhaustive single-fault enumeration over seeds."""
import os, re, struct
RULE = ('seeds = spec-derived catalogue frames (incl. dictionaries, skippable, multi-frame), 12 compressor-made streams and the v0.5-v0.7 legacy frames of tests/legacy.c; for each seed up to '
        'the length cap: the intact input, every truncation, and every single-byte substitution (all 255 values for seeds <= 64 bytes, 7 values otherwise), plus corrupted dictionaries, '
        'each through ZSTD_decompress x 4 capacities, usingDict, usingDDict, decompressContinue, decompressStream x {whole, 1-byte, split} x {1-byte, ample output}, 12 frame inspectors, '
        'decompressBlock and ZBUFF, on exact-size heap buffers under ASan+UBSan; third unit: 17 k valid frames with raw literals, 1..26 sequences, every last-literal-run length 0..109, 3 tails, with/without checksum, decoded from exact-size input copies (in-place literal references near the end of the input); second unit: magic / header followed by every 2-byte value (x third bytes; quick tier: every 8th second byte) = exhaustive short tails; '
        'distinct = seeds; non-trivial = seed with > 1000 mutant decodes')


def legacy_records(vc):
    """frames of old formats embedded in tests/legacy.c, split at their magic numbers, as a catalogue file"""
    src = open(vc.REPO + '/tests/legacy.c', encoding='latin-1').read()
    m = re.search(r'const char\* const COMPRESSED =(.*?);', src, re.S)
    if not m:
        return None
    data = bytearray()
    for lit in re.findall(r'"((?:[^"\\]|\\.)*)"', m.group(1)):
        i = 0
        while i < len(lit):
            if lit[i] == '\\':
                if lit[i + 1] == 'x':
                    j = i + 2
                    while j < len(lit) and j < i + 4 and lit[j] in '0123456789abcdefABCDEF':
                        j += 1
                    data.append(int(lit[i + 2:j], 16)); i = j
                else:
                    esc = {'n': 10, 't': 9, 'r': 13, '0': 0, '\\': 92, '"': 34, "'": 39}
                    data.append(esc.get(lit[i + 1], ord(lit[i + 1]))); i += 2
            else:
                data.append(ord(lit[i])); i += 1
    magics = [bytes([0x20 + v, 0xB5, 0x2F, 0xFD]) for v in range(2, 9)] + [bytes([0xFD, 0x2F, 0xB5, 0x1E])]
    cuts = sorted(set(i for i in range(len(data) - 3) if bytes(data[i:i + 4]) in magics))
    out = vc.BUILD + '/legacy-seeds.bin'
    with open(out, 'wb') as f:
        n = 0
        for a, b in zip(cuts, cuts[1:] + [len(data)]):
            fr = bytes(data[a:b]); ver = fr[0] - 0x20
            if fr[0] in (0x25, 0x26, 0x27) and len(fr) <= 400:      # v0.5 - v0.7: what ZSTD_LEGACY_SUPPORT=5 decodes
                name = ('legacy v0.%d frame #%d' % (ver, n)).encode()
                f.write(struct.pack('<I', len(name)) + name + struct.pack('<I', len(fr)) + fr + struct.pack('<I', 0) + struct.pack('<I', 0)); n += 1
        # hand-built legacy frames (raw blocks only; written from the legacy decoders' own header parsing): smallest window of each version, blocks of
        # exactly / one more than / twice the window-limited block size, so that the streaming decoders' staging buffers meet a block that does not fit
        def blk(kind, size, body):
            return bytes([(kind << 6) | ((size >> 16) & 7), (size >> 8) & 0xFF, size & 0xFF]) + body
        text = bytes((i * 7 + i // 5) & 0x7F for i in range(9000))
        for ver, magic, hdr, bs in ((7, b'\x27\xB5\x2F\xFD', b'\x00\x00', 1024), (6, b'\x26\xB5\x2F\xFD', b'\x00', 4096), (5, b'\x25\xB5\x2F\xFD', b'\x00', 2048)):
            for label, sizes in (('one block of 100', [100]), ('block = limit', [bs]), ('block = limit + 1', [bs + 1]), ('block announcing twice the limit', [2 * bs - 48]), ('small then oversize', [64, bs + 600])):
                fr = magic + hdr
                off = 0
                for sz in sizes:
                    fr += blk(1, sz, text[off:off + sz]); off += sz
                fr += blk(3, 0, b'')
                name = ('legacy-synth v0.%d %s' % (ver, label)).encode()
                f.write(struct.pack('<I', len(name)) + name + struct.pack('<I', len(fr)) + fr + struct.pack('<I', 0) + struct.pack('<I', 0)); n += 1
        # frames that are NOT valid: several laps of run-length blocks through a 1 KiB window, then a match that reaches beyond the window, beyond the
        # decoder's output ring, beyond two rings (built with the catalogue generator for an 8 KiB window, window descriptor then rewritten to 1 KiB)
        import importlib.util
        spec = importlib.util.spec_from_file_location('framegen', vc.VERIF + '/gen/framegen.py'); G = importlib.util.module_from_spec(spec); spec.loader.exec_module(G)
        for k in (4, 7, 10):
            for off in (1025, 1500, 3077, 3200, 4100, 5576, 6148, 7000, 9000):
                if off > k * 1024:
                    continue
                fr = G.Frame()
                for b in range(k):
                    fr.rle(0x30 + b, 1024)
                fr.compressed(bytes((0x61 + (i * 5) % 23) for i in range(24)), [(8, 16, off + 3)], lit={'type': 'raw', 'size_format': None})
                raw = bytearray(fr.serialize(window=(4, 0), checksum=False)); raw[5] = 0
                name = ('laps-invalid rle blocks=%d then match offset=%d declared window 1024' % (k, off)).encode()
                f.write(struct.pack('<I', len(name)) + name + struct.pack('<I', len(raw)) + bytes(raw) + struct.pack('<I', 0) + struct.pack('<I', 0)); n += 1
    return out if n else None


def run(vc, tier):
    c = vc.Check('C03', tier, 'fault_enumeration', RULE)
    cat = vc.catalogue('quick')
    leg = legacy_records(vc)
    src = ['harness/c03_untrusted.c', 'ref/edu_decoder.c']
    args = ['--cat', cat, '--stride', 8 if tier == 'quick' else 1, '--maxlen', 420 if tier == 'quick' else 1000, '--allvals', 20 if tier == 'quick' else 96, '--D', 0, '--parts', 1 if tier == 'quick' else 8, '--exec-timeout', 20000 if tier == 'quick' else 180000]
    if leg:
        args += ['--extra', leg]
    r0 = c.run_vx_unit('c03-special', src, 'asan', args + ['--sel', 1], share=0.45)       # raw-literal tails, checksum x length frames, compressor streams, legacy frames (golden + hand-built)
    r = c.run_vx_unit('c03-substitutions', src, 'asan', args + ['--sel', 2], share=0.7)
    r2 = c.run_vx_unit('c03-tails', src, 'asan', ['--mode', 1, '--cat', cat, '--D', 0, '--lostep', 8 if tier == 'quick' else 1, '--exec-timeout', 20000 if tier == 'quick' else 180000], share=0.9)
    r3 = c.run_vx_unit('c03-rawlit', src, 'asan', ['--mode', 2, '--cat', cat, '--D', 0, '--exec-timeout', 20000 if tier == 'quick' else 180000], share=0.9)
    c.extra['decodes'] = r0.stats.get('decodes', 0) + r.stats.get('decodes', 0) + r2.stats.get('decodes', 0) + r3.stats.get('decodes', 0)
    c.extra['mutants_accepted'] = r.stats.get('mutants_accepted', 0) + r2.stats.get('mutants_accepted', 0)
    c.extra['legacy_seeds'] = bool(leg)
    c.evaluations += c.extra['decodes']
    c.assumptions = ['Hamming distance > 1 from a seed (except the exhaustive tails) and seeds longer than the cap are not enumerated',
                     'termination is judged by a per-input iteration bound and the explorer\'s wall-clock watchdog (20 s per seed, re-run once before it is called a hang)']
    return c.finish()
