"""C08 — dictionary compression round-trips for every dictionary, mode and input."""
RULE = ('119 catalogue dictionaries (raw content of length 8..3072; structured with unusual Huffman / FSE tables, extreme table logs, odd repeat offsets; 33 that must be refused) x '
        'compression supply {usingDict, refCDict byCopy, refCDict byRef, usingCDict, loadDictionary, refPrefix} x attach preference {default, attach, copy, load} x dedicated search x '
        'levels {1,3,5,13,16,19} x window {default, 1 KiB} - full product - each with 8 input shapes (empty, 1 byte, copies of the dictionary tail/head, symbols the tables omit, noise, '
        'longer than the window, the dictionary itself) x dictIDFlag x 7 decompression supplies (usingDict, DDict, loadDictionary, refDDict, refPrefix, multi-DDict table with 2 / 9 '
        'entries); oracles: both sides agree on loading, ID queries agree, frame carries the ID, reference decoder + conformance with the dictionary, round trip, wrong-ID dictionary '
        'refused; third unit: multi-DDict tables whose IDs collide on the last / first slots of the 64-entry table, with 0/16/32 filler dictionaries (growth), one-shot and streaming; second unit: every single-byte corruption (6 values) of the first 220 bytes of each structured dictionary on both sides under ASan/UBSan; '
        'fifth unit (far into the frame): 3 / 5 / 9 incompressible 128 KiB blocks (emitted raw), then a block copying from the dictionary content and from the first blocks (offsets 2^18 .. 2^20: codes a dictionary table vetted for a first block may lack) x every loadable structured dictionary x {usingDict, refCDict, loadDictionary} x levels {1, 3, 5}; '
        'distinct = distinct frames; non-trivial = frame smaller than input')
SRC = ['harness/c08_dict.c', 'ref/edu_decoder.c']


def run(vc, tier):
    c = vc.Check('C08', tier, 'exploration', RULE)
    dicts = vc.catalogue(tier, kind='dicts')
    r1 = c.run_vx_unit('c08-roundtrip', SRC, 'asan', ['--mode', 0, '--dicts', dicts, '--D', 0], share=0.6)
    c.run_vx_unit('c08-rawcontent', SRC, 'asan', ['--mode', 3, '--dicts', dicts, '--D', 0], share=0.4)
    r5 = c.run_vx_unit('c08-far', SRC, 'asan', ['--mode', 4, '--dicts', dicts, '--D', 0, '--exec-timeout', 60000], share=0.4)
    c.extra['far_frames_with_offsets_beyond_2^18'] = r5.stats.get('far_frames_with_offsets_beyond_2^18', 0)
    r2 = c.run_vx_unit('c08-corrupt', SRC, 'asan', ['--mode', 1, '--dicts', dicts, '--D', 0], share=0.9)
    c.run_vx_unit('c08-hashset', SRC, 'asan', ['--mode', 2, '--dicts', dicts, '--D', 0], share=0.9)
    c.extra['frames_with_matches_into_dictionary'] = r1.stats.get('frames_with_matches_into_dictionary', 0)
    c.extra['corrupted_dictionaries'] = r2.stats.get('corrupted_dictionaries', 0)
    c.extra['corrupted_dictionaries_still_loaded'] = r2.stats.get('corrupted_dictionaries_still_loaded', 0)
    c.evaluations += c.extra['corrupted_dictionaries']
    c.assumptions = ['trained dictionaries come from C18; dictionaries > 10 KiB not enumerated', 'a decoder more permissive than the encoder on a corrupted dictionary is not judged']
    return c.finish()
