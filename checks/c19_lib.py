"""c19_lib — scenario grammar, file contents, vkill runner and the crash / completion oracles of C19.

Everything here is deterministic: contents come from seeded generators, .zst inputs are produced by the *library*
(harness/c19_helper.c -c), not by the CLI under test, and every run starts from a freshly materialised directory
under /verif/build/c19/<worker>/run.
"""
import os, sys, glob, hashlib, random, shutil, struct, subprocess, multiprocessing

E = dict(cli=None, vkill=None, helper=None, base=None)   # filled by init()
NOBODY = 65534
OLD = b'PRE-EXISTING USER FILE - must survive unless -f\n' * 3


# ----------------------------------------------------------------------------------------------- build
def init(vc, tag='run'):
    # one scratch root per check process, so concurrent C19 runs / replays never share a directory
    base = os.path.join(vc.BUILD, 'c19', '%s-%d' % (tag, os.getpid()))
    os.makedirs(base, exist_ok=True)
    E['base'] = base
    # gzip / lzma / lz4 stay off (no HAVE_* / ZSTD_*COMPRESS defines); no benchmark, no dictionary *builder*; -D dict works
    E['cli'] = vc.build_harness('zstdcli', 'plain', [], extra_srcs=sorted(glob.glob(vc.REPO + '/programs/*.c')),
                                extra_flags='-DZSTD_NOBENCH -DZSTD_NODICT')
    E['helper'] = vc.build_harness('c19helper', 'plain', ['harness/c19_helper.c'], extra_flags='-DZSTD_NOBENCH -DZSTD_NODICT')   # same flags => same library objects as the CLI
    src = os.path.join(vc.VERIF, 'engine/vkill.c')
    exe = '%s/bin/vkill-%s' % (vc.BUILD, vc.file_hash(src)[:12])
    if not os.path.exists(exe):
        for old in glob.glob('%s/bin/vkill-*' % vc.BUILD):
            os.remove(old)
        r = vc.sh('gcc -O1 -g -Wall -o %s.tmp %s' % (exe, src))
        if r.returncode != 0:
            raise RuntimeError('vkill build failed:\n' + r.stdout)
        os.replace(exe + '.tmp', exe)
    E['vkill'] = exe
    return E


def sha(b):
    return hashlib.sha1(b).hexdigest()


# ----------------------------------------------------------------------------------------------- library oracle
_dec_cache = {}


def _scratch():
    ident = multiprocessing.current_process()._identity
    d = os.path.join(E['base'], 'w%02d' % ident[0] if ident else 'main')
    os.makedirs(d, exist_ok=True)
    return d


def lib_decode(data, dictb=None):
    """library verdict on a byte string: (accepted, decoded bytes, reason)"""
    key = (sha(data), sha(dictb) if dictb is not None else None)
    if key in _dec_cache:
        return _dec_cache[key]
    d = _scratch()
    fin, fout, fd = d + '/h.in', d + '/h.out', d + '/h.dict'
    with open(fin, 'wb') as f:
        f.write(data)
    cmd = [E['helper']]
    if dictb is not None:
        with open(fd, 'wb') as f:
            f.write(dictb)
        cmd += ['-D', fd]
    p = subprocess.run(cmd + [fin, fout], stdout=subprocess.PIPE, stderr=subprocess.PIPE, text=True, timeout=120)
    if p.returncode not in (0, 1) or not p.stdout.startswith(('ACCEPT', 'REJECT')):
        raise RuntimeError('c19_helper failed: rc=%s %s %s' % (p.returncode, p.stdout, p.stderr))
    with open(fout, 'rb') as f:
        out = f.read()
    res = (p.returncode == 0, out, p.stdout.split()[1])
    _dec_cache[key] = res
    return res


def lib_compress(data, dictb=None):
    d = _scratch()
    fin, fout, fd = d + '/c.in', d + '/c.out', d + '/c.dict'
    with open(fin, 'wb') as f:
        f.write(data)
    cmd = [E['helper'], '-c']
    if dictb is not None:
        with open(fd, 'wb') as f:
            f.write(dictb)
        cmd += ['-D', fd]
    p = subprocess.run(cmd + [fin, fout], stdout=subprocess.PIPE, stderr=subprocess.PIPE, text=True, timeout=120)
    if p.returncode != 0:
        raise RuntimeError('c19_helper -c failed: %s %s' % (p.stdout, p.stderr))
    with open(fout, 'rb') as f:
        return f.read()


# ----------------------------------------------------------------------------------------------- contents
WORDS = ('the quick brown fox jumps over lazy dog zstandard frame block literal sequence window offset match length table '
         'huffman entropy checksum dictionary stream buffer input output file source destination remove close').split()


def text(n, seed):
    r = random.Random(seed); out = []; ln = 0
    while ln < n:
        w = r.choice(WORDS) + (' ' if r.random() < 0.9 else '.\n'); out.append(w); ln += len(w)
    return ''.join(out).encode()[:n]


def rnd(n, seed):
    return random.Random(seed).randbytes(n)


def contents():
    z = b'\0'
    c = {
        'empty': b'',
        'text5k': text(5000, 1),
        'text300k': text(300 * 1024, 2),                      # < 384 KiB: synchronous I/O path
        'mix450k': text(200 * 1024, 3) + rnd(250 * 1024, 4),   # >= 384 KiB source: async I/O path when compressing
        'rnd450k': rnd(450 * 1024, 5),                         # incompressible: .zst >= 384 KiB => async path when decompressing
        'dict': text(8000, 6),
        # zero-run layouts around the 32 KiB sparse segment and the size_t tail
        'z40k': z * 40960,
        'dzd': rnd(5000, 7) + z * 65536 + rnd(3000, 8),
        'trailz': rnd(10240, 9) + z * 71680,
        'leadz': z * 71680 + rnd(10240, 10),
        'oddtail': z * 33792 + b'DATA!' + z * 32771,           # length % 8 == 3, ends inside a zero run
        'oddnz': z * 32768 + rnd(32768, 11) + z * 32768 + b'\0\0\0\0\0x\0',   # non-zero byte inside the size_t tail
        'z1': z,
        'z32k7': z * (32768 + 7),
        'seg0': rnd(32768, 12) + z * 32768 + rnd(8, 13) + z * 32760 + z * 5,
    }
    return c


def frame_header_size(zb):
    fhd = zb[4]; fcs = fhd >> 6; ss = (fhd >> 5) & 1; did = fhd & 3
    return 5 + (0 if ss else 1) + (0, 1, 2, 4)[did] + ((0, 2, 4, 8)[fcs] if fcs else (1 if ss else 0))


def corruptions(zb):
    """single corruptions of one valid frame"""
    def flip(i, m):
        b = bytearray(zb); b[i] ^= m; return bytes(b)
    h = frame_header_size(zb)
    bb = bytearray(zb); bb[h] |= 0x06                          # block type 3 (reserved)
    return {
        'badmagic': flip(0, 0xFF),
        'flip': flip(len(zb) // 2, 0x40),
        'badsum': flip(len(zb) - 1, 0x01),
        'resbit': flip(4, 0x08),                              # reserved bit of the frame header descriptor
        'badblock': bytes(bb),
        'trunc1': zb[:-1],
        'truncsum': zb[:-4],                                  # whole checksum missing
        'trunchalf': zb[:len(zb) // 2],
        'trunchdr': zb[:6],
        'trunc3': zb[:3],                                     # shorter than a magic number
        'garbage': zb + b'GARBAGE!',
        'garbage1': zb + b'\x00',
        'framepart': zb + zb[:10],
    }


def skippable(payload):
    return struct.pack('<II', 0x184D2A50, len(payload)) + payload


# ----------------------------------------------------------------------------------------------- scenarios
class Sc:
    def __init__(self, name, op, argv, files, pairs, stdout=None, pre=(), refuse=(), dictname=None, quick=False, uid=None,
                 rodirs=(), sparse_key=None, verdict_excluded=False, missing=(), note='', stdin=None, gen=False, extra=False):
        self.name = name; self.op = op; self.argv = argv.split() if isinstance(argv, str) else list(argv)
        self.files = dict(files); self.pairs = [(tuple(s), d) for s, d in pairs]; self.stdout = stdout
        self.pre = tuple(pre); self.refuse = set(refuse); self.dictname = dictname; self.quick = quick; self.uid = uid
        self.rodirs = tuple(rodirs); self.sparse_key = sparse_key; self.verdict_excluded = verdict_excluded
        self.missing = tuple(missing); self.note = note; self.stdin = stdin; self.gen = gen; self.extra = extra
        self.rm = '--rm' in self.argv
        self.force = '-f' in self.argv
        self.lib = {}      # src -> (accepted, decoded, reason) for d / t scenarios

    def dictbytes(self):
        return self.files[self.dictname] if self.dictname else None

    def srcs(self):
        return [s for ss, _ in self.pairs for s in ss]

    def prepare(self):
        if self.op in ('d', 't'):
            for s in self.srcs():
                self.lib[s] = lib_decode(self.files[s], self.dictbytes())

    def src_ok(self, s):
        if s in self.refuse:
            return False
        return True if self.op == 'c' else self.lib[s][0]

    def cmdline(self):
        return 'zstd ' + ' '.join(self.argv) + ((' < ' + self.stdin) if self.stdin else '') + ((' > ' + self.stdout) if self.stdout else '')


def scenarios():
    C = contents()
    T = C['text5k']; D = C['dict']
    Z = {k: lib_compress(v) for k, v in C.items() if k != 'dict'}          # one valid frame per content
    ZD = lib_compress(T, D)                                               # frame that needs the dictionary
    K = corruptions(Z['text5k'])
    two = Z['text5k'] + Z['z40k']
    skip = skippable(b'metadata') + Z['text5k']
    L = []

    def add(*a, **k):
        L.append(Sc(*a, **k))
    # ---------------- compression
    add('c-basic', 'c', 'a.txt', {'a.txt': T}, [(['a.txt'], 'a.txt.zst')], quick=True)
    add('c-rm', 'c', '--rm a.txt', {'a.txt': T}, [(['a.txt'], 'a.txt.zst')], quick=True)
    add('c-rm-empty', 'c', '--rm e.bin', {'e.bin': b''}, [(['e.bin'], 'e.bin.zst')], quick=True)
    add('c-rm-300k', 'c', '--rm m.txt', {'m.txt': C['text300k']}, [(['m.txt'], 'm.txt.zst')])
    add('c-rm-450k-async', 'c', '--rm b.bin', {'b.bin': C['mix450k']}, [(['b.bin'], 'b.bin.zst')], quick=True)
    add('c-o', 'c', 'a.txt -o out.zst', {'a.txt': T}, [(['a.txt'], 'out.zst')])
    add('c-rm-o', 'c', '--rm a.txt -o out.zst', {'a.txt': T}, [(['a.txt'], 'out.zst')], quick=True)
    add('c-stdout', 'c', '-c a.txt', {'a.txt': T}, [(['a.txt'], 'out.zst')], stdout='out.zst')
    add('c-stdout-rm', 'c', '-c --rm a.txt', {'a.txt': T}, [(['a.txt'], 'out.zst')], stdout='out.zst', quick=True,
        note='--rm must be disabled when writing to stdout')
    add('c-two', 'c', 'a.txt z.bin', {'a.txt': T, 'z.bin': C['z40k']}, [(['a.txt'], 'a.txt.zst'), (['z.bin'], 'z.bin.zst')])
    add('c-two-rm', 'c', '--rm a.txt z.bin', {'a.txt': T, 'z.bin': C['z40k']}, [(['a.txt'], 'a.txt.zst'), (['z.bin'], 'z.bin.zst')], quick=True)
    add('c-two-o-noforce', 'c', '--rm a.txt z.bin -o out.zst', {'a.txt': T, 'z.bin': C['z40k']}, [(['a.txt', 'z.bin'], 'out.zst')],
        refuse=['a.txt', 'z.bin'], quick=True, note='concatenation needs confirmation; stdin is /dev/null => must abort')
    add('c-two-o-f-rm', 'c', '-f --rm a.txt z.bin -o out.zst', {'a.txt': T, 'z.bin': C['z40k']}, [(['a.txt', 'z.bin'], 'out.zst')], quick=True,
        note='--rm must be disabled for several inputs into one output')
    add('c-two-stdout', 'c', '-c a.txt z.bin', {'a.txt': T, 'z.bin': C['z40k']}, [(['a.txt', 'z.bin'], 'out.zst')], stdout='out.zst')
    add('c-T2-rm', 'c', '-T2 --rm a.txt', {'a.txt': T}, [(['a.txt'], 'a.txt.zst')])
    add('c-T2-rm-450k', 'c', '-T2 --rm b.bin', {'b.bin': C['mix450k']}, [(['b.bin'], 'b.bin.zst')])
    add('c-long-rm', 'c', '--long --rm m.txt', {'m.txt': C['text300k']}, [(['m.txt'], 'm.txt.zst')])
    add('c-dict-rm', 'c', '-D dict.bin --rm a.txt', {'a.txt': T, 'dict.bin': D}, [(['a.txt'], 'a.txt.zst')], dictname='dict.bin', quick=True)
    add('c-exist-noforce', 'c', 'a.txt', {'a.txt': T, 'a.txt.zst': OLD}, [(['a.txt'], 'a.txt.zst')], pre=['a.txt.zst'], refuse=['a.txt'], quick=True)
    add('c-exist-noforce-rm', 'c', '--rm a.txt', {'a.txt': T, 'a.txt.zst': OLD}, [(['a.txt'], 'a.txt.zst')], pre=['a.txt.zst'], refuse=['a.txt'])
    add('c-exist-force-rm', 'c', '-f --rm a.txt', {'a.txt': T, 'a.txt.zst': OLD}, [(['a.txt'], 'a.txt.zst')], pre=['a.txt.zst'], quick=True)
    add('c-exist-second-noforce-rm', 'c', '--rm a.txt z.bin', {'a.txt': T, 'z.bin': C['z40k'], 'z.bin.zst': OLD},
        [(['a.txt'], 'a.txt.zst'), (['z.bin'], 'z.bin.zst')], pre=['z.bin.zst'], refuse=['z.bin'], quick=True)
    add('c-exist-o-noforce', 'c', '--rm a.txt -o out.zst', {'a.txt': T, 'out.zst': OLD}, [(['a.txt'], 'out.zst')], pre=['out.zst'], refuse=['a.txt'])
    add('c-rodir-rm', 'c', '--rm ro/a.txt', {'ro/a.txt': T}, [(['ro/a.txt'], 'ro/a.txt.zst')], refuse=['ro/a.txt'], uid=NOBODY, rodirs=['ro'])
    add('c-rodir-o', 'c', '--rm a.txt -o ro/out.zst', {'a.txt': T, 'ro/keep': b'k'}, [(['a.txt'], 'ro/out.zst')], refuse=['a.txt'], uid=NOBODY, rodirs=['ro'])
    add('c-same-file', 'c', 'a.txt -o a.txt', {'a.txt': T}, [(['a.txt'], 'a.txt')], pre=['a.txt'], refuse=['a.txt'])
    add('c-same-file-f-rm', 'c', '-f --rm a.txt -o ./a.txt', {'a.txt': T}, [(['a.txt'], 'a.txt')], pre=['a.txt'], refuse=['a.txt'],
        note='destination == source must be refused even with -f')
    add('c-missing-second-rm', 'c', '--rm a.txt nosuch.txt', {'a.txt': T}, [(['a.txt'], 'a.txt.zst')], missing=['nosuch.txt'])
    add('c-zeros-rm', 'c', '--rm z.bin', {'z.bin': C['z40k']}, [(['z.bin'], 'z.bin.zst')])
    # ---------------- decompression
    add('d-basic', 'd', '-d a.txt.zst', {'a.txt.zst': Z['text5k']}, [(['a.txt.zst'], 'a.txt')], quick=True)
    add('d-rm', 'd', '-d --rm a.txt.zst', {'a.txt.zst': Z['text5k']}, [(['a.txt.zst'], 'a.txt')], quick=True)
    add('d-rm-emptycontent', 'd', '-d --rm e.bin.zst', {'e.bin.zst': Z['empty']}, [(['e.bin.zst'], 'e.bin')], quick=True)
    add('d-rm-300k', 'd', '-d --rm m.txt.zst', {'m.txt.zst': Z['text300k']}, [(['m.txt.zst'], 'm.txt')])
    add('d-rm-async', 'd', '-d --rm r.bin.zst', {'r.bin.zst': Z['rnd450k']}, [(['r.bin.zst'], 'r.bin')], quick=True)
    add('d-o', 'd', '-d a.txt.zst -o out.txt', {'a.txt.zst': Z['text5k']}, [(['a.txt.zst'], 'out.txt')])
    add('d-rm-o', 'd', '-d --rm a.txt.zst -o out.txt', {'a.txt.zst': Z['text5k']}, [(['a.txt.zst'], 'out.txt')])
    add('d-stdout', 'd', '-d -c a.txt.zst', {'a.txt.zst': Z['text5k']}, [(['a.txt.zst'], 'out.txt')], stdout='out.txt', quick=True)
    add('d-stdout-rm', 'd', '-d -c --rm a.txt.zst', {'a.txt.zst': Z['text5k']}, [(['a.txt.zst'], 'out.txt')], stdout='out.txt')
    add('d-two-rm', 'd', '-d --rm a.txt.zst z.bin.zst', {'a.txt.zst': Z['text5k'], 'z.bin.zst': Z['z40k']},
        [(['a.txt.zst'], 'a.txt'), (['z.bin.zst'], 'z.bin')], quick=True)
    add('d-two-o-f-rm', 'd', '-d -f --rm a.txt.zst z.bin.zst -o out.bin', {'a.txt.zst': Z['text5k'], 'z.bin.zst': Z['z40k']},
        [(['a.txt.zst', 'z.bin.zst'], 'out.bin')])
    add('d-two-o-noforce', 'd', '-d a.txt.zst z.bin.zst -o out.bin', {'a.txt.zst': Z['text5k'], 'z.bin.zst': Z['z40k']},
        [(['a.txt.zst', 'z.bin.zst'], 'out.bin')], refuse=['a.txt.zst', 'z.bin.zst'])
    add('d-T2-rm', 'd', '-d -T2 --rm a.txt.zst', {'a.txt.zst': Z['text5k']}, [(['a.txt.zst'], 'a.txt')])
    add('d-long-rm', 'd', '-d --long=27 --rm m.txt.zst', {'m.txt.zst': Z['text300k']}, [(['m.txt.zst'], 'm.txt')])
    add('d-dict-rm', 'd', '-d -D dict.bin --rm a.txt.zst', {'a.txt.zst': ZD, 'dict.bin': D}, [(['a.txt.zst'], 'a.txt')], dictname='dict.bin', quick=True)
    add('d-dict-missing-rm', 'd', '-d --rm a.txt.zst', {'a.txt.zst': ZD, 'dict.bin': D}, [(['a.txt.zst'], 'a.txt')], quick=True,
        note='frame needs a dictionary that is not given: library rejects')
    add('d-exist-noforce', 'd', '-d --rm a.txt.zst', {'a.txt.zst': Z['text5k'], 'a.txt': OLD}, [(['a.txt.zst'], 'a.txt')], pre=['a.txt'], refuse=['a.txt.zst'], quick=True)
    add('d-exist-force-rm', 'd', '-d -f --rm a.txt.zst', {'a.txt.zst': Z['text5k'], 'a.txt': OLD}, [(['a.txt.zst'], 'a.txt')], pre=['a.txt'], quick=True)
    add('d-exist-force-corrupt', 'd', '-d -f --rm a.txt.zst', {'a.txt.zst': K['flip'], 'a.txt': OLD}, [(['a.txt.zst'], 'a.txt')], pre=['a.txt'])
    add('d-rodir-rm', 'd', '-d --rm ro/a.txt.zst', {'ro/a.txt.zst': Z['text5k']}, [(['ro/a.txt.zst'], 'ro/a.txt')], refuse=['ro/a.txt.zst'], uid=NOBODY, rodirs=['ro'])
    qk = {'flip', 'badsum', 'trunchalf', 'garbage'}
    for k in sorted(K):
        add('d-%s-rm' % k, 'd', '-d --rm x.zst', {'x.zst': K[k]}, [(['x.zst'], 'x')], quick=k in qk)
    add('d-twoframes-rm', 'd', '-d --rm x.zst', {'x.zst': two}, [(['x.zst'], 'x')], quick=True)
    add('d-skippable-rm', 'd', '-d --rm x.zst', {'x.zst': skip}, [(['x.zst'], 'x')])
    add('d-emptyfile-rm', 'd', '-d --rm x.zst', {'x.zst': b''}, [(['x.zst'], 'x')], note='zero-byte input: no frame, helper rejects')
    add('d-mixed-two-rm', 'd', '-d --rm a.txt.zst x.zst', {'a.txt.zst': Z['text5k'], 'x.zst': K['flip']},
        [(['a.txt.zst'], 'a.txt'), (['x.zst'], 'x')], quick=True)
    # the damaged file FIRST: what it leaves in the shared decoder must not decide the verdict of the valid file after it
    add('d-mixed-trunc-first-rm', 'd', '-d --rm x.zst a.txt.zst', {'a.txt.zst': Z['text5k'], 'x.zst': K['trunchalf']},
        [(['x.zst'], 'x'), (['a.txt.zst'], 'a.txt')], quick=True)
    add('d-mixed-flip-first-rm', 'd', '-d --rm x.zst a.txt.zst z.bin.zst', {'a.txt.zst': Z['text5k'], 'x.zst': K['flip'], 'z.bin.zst': Z['z40k']},
        [(['x.zst'], 'x'), (['a.txt.zst'], 'a.txt'), (['z.bin.zst'], 'z.bin')])
    add('d-passthrough', 'd', '-d -c -f plain.txt', {'plain.txt': T}, [(['plain.txt'], 'out.txt')], stdout='out.txt', verdict_excluded=True,
        note='documented gzip-style pass-through of non-zstd input with -d -c -f: excluded from verdict comparison')
    # sparse on / off / default over the zero-run layouts: outputs must be byte-identical
    lay = ['z40k', 'dzd', 'trailz', 'leadz', 'oddtail', 'oddnz', 'z1', 'z32k7', 'seg0']
    ql = {'dzd', 'oddtail'}
    for n in lay:
        for flag, tag in (('--sparse', 'sparse'), ('--no-sparse', 'nosparse')):
            add('d-%s-%s' % (tag, n), 'd', '-d %s --rm x.zst' % flag, {'x.zst': Z[n]}, [(['x.zst'], 'x')], sparse_key=n, quick=n in ql)
    add('d-default-trailz', 'd', '-d --rm x.zst', {'x.zst': Z['trailz']}, [(['x.zst'], 'x')], sparse_key='trailz')
    add('d-sparse-stdout-dzd', 'd', '-d -c --sparse x.zst', {'x.zst': Z['dzd']}, [(['x.zst'], 'out.bin')], stdout='out.bin', sparse_key='dzd-c',
        note='--sparse forces sparse writing even on stdout (a regular file here)')
    add('d-nosparse-stdout-dzd', 'd', '-d -c x.zst', {'x.zst': Z['dzd']}, [(['x.zst'], 'out.bin')], stdout='out.bin', sparse_key='dzd-c')
    # ---------------- test mode
    add('t-valid', 't', '-t a.txt.zst', {'a.txt.zst': Z['text5k']}, [(['a.txt.zst'], None)], quick=True)
    add('t-rm', 't', '-t --rm a.txt.zst', {'a.txt.zst': Z['text5k']}, [(['a.txt.zst'], None)], quick=True, note='--rm must be disabled in test mode')
    add('t-flip', 't', '-t x.zst', {'x.zst': K['flip']}, [(['x.zst'], None)], quick=True)
    add('t-trunc1', 't', '-t --rm x.zst', {'x.zst': K['trunc1']}, [(['x.zst'], None)])
    add('t-garbage', 't', '-t x.zst', {'x.zst': K['garbage']}, [(['x.zst'], None)])
    add('t-badsum', 't', '-t x.zst', {'x.zst': K['badsum']}, [(['x.zst'], None)])
    add('t-twoframes', 't', '-t x.zst', {'x.zst': two}, [(['x.zst'], None)])
    add('t-two-mixed', 't', '-t a.txt.zst x.zst', {'a.txt.zst': Z['text5k'], 'x.zst': K['garbage']}, [(['a.txt.zst'], None), (['x.zst'], None)])
    add('t-dict', 't', '-t -D dict.bin a.txt.zst', {'a.txt.zst': ZD, 'dict.bin': D}, [(['a.txt.zst'], None)], dictname='dict.bin')
    add('t-async', 't', '-t r.bin.zst', {'r.bin.zst': Z['rnd450k']}, [(['r.bin.zst'], None)])
    add('c-two-stdout-rm', 'c', '-c --rm a.txt z.bin', {'a.txt': T, 'z.bin': C['z40k']}, [(['a.txt', 'z.bin'], 'out.zst')], stdout='out.zst', quick=True,
        note='--rm must be disabled (not hard-failed) when several inputs go to stdout')
    # outside the property's grammar (source is stdin): kept for replay only, never part of a tier
    add('x-stdin-streamsize', 'c', '--stream-size=100 -o out.zst', {'a.txt': T}, [(['a.txt'], 'out.zst')], stdin='a.txt', refuse=['a.txt'], extra=True,
        note='pledged size 100 != 5000 bytes on stdin: must fail; EXM_THROW exits without removing the artefact')
    # ---------------- generated cross product (thorough tier): op x content x --rm x destination x pre-existing/-f x one extra flag
    def gen(op, cname, data, extra, rm, dm, pm, dictb=None):
        src = 's.dat' if op == 'c' else 's.dat.zst'
        files = {src: data}; dictname = None
        if dictb is not None:
            files['dict.bin'] = dictb; dictname = 'dict.bin'
        argv = {'c': [], 'd': ['-d'], 't': ['-t']}[op] + (extra.split() if extra else []) + (['--rm'] if rm else [])
        stdout = None; dst = None
        if op != 't':
            dst = {'c': 's.dat.zst', 'd': 's.dat'}[op] if dm == 'def' else {'c': 'out.zst', 'd': 'out.dat'}[op]
            if dm == 'c':
                argv.append('-c'); stdout = dst
        if pm in ('pref', 'f'):
            argv.append('-f')
        argv.append(src)
        if dm == 'o':
            argv += ['-o', dst]
        pre = []
        if pm in ('pre', 'pref'):
            files[dst] = OLD; pre = [dst]
        key = None
        if op == 'd' and extra in ('', '--sparse', '--no-sparse'):
            key = 'g-%s-%d-%s-%s' % (cname, rm, dm, pm)
        name = 'g-%s-%s%s%s-%s-%s' % (op, cname, ('-' + extra.strip('-').replace(' dict.bin', '').replace('=', '')) if extra else '', '-rm' if rm else '', dm, pm)
        add(name, op, argv, files, [([src], dst)], stdout=stdout, pre=pre, refuse=[src] if pm == 'pre' else [], dictname=dictname, sparse_key=key, gen=True)

    dst_modes = [('def', 'none'), ('def', 'pre'), ('def', 'pref'), ('o', 'none'), ('o', 'pre'), ('o', 'pref'), ('c', 'none'), ('c', 'f')]
    for cname in ('empty', 'text5k', 'dzd'):
        for extra in ('', '-T2', '--long', '-D dict.bin'):
            for rm in (0, 1):
                for dm, pm in dst_modes:
                    gen('c', cname, C[cname], extra, rm, dm, pm, D if extra.startswith('-D') else None)
    dcont = [('text5k', Z['text5k'], None), ('dzd', Z['dzd'], None), ('flip', K['flip'], None), ('trunchalf', K['trunchalf'], None),
             ('garbage', K['garbage'], None), ('two', two, None), ('dictframe', ZD, D)]
    for cname, data, dictb in dcont:
        valid = cname in ('text5k', 'dzd', 'two', 'dictframe')
        for extra in (('-D dict.bin',) if dictb else ('', '--sparse', '--no-sparse', '--long=27', '-T2')):
            for rm in (0, 1):
                for dm, pm in dst_modes:
                    if (dm, pm) == ('c', 'f') and not valid:
                        continue      # -d -c -f on non-zstd bytes is the documented pass-through
                    gen('d', cname, data, extra, rm, dm, pm, dictb)
        for extra in (('-D dict.bin',) if dictb else ('', '-T2')):
            for rm in (0, 1):
                gen('t', cname, data, extra, rm, 'def', 'none', dictb)
    names = [s.name for s in L]
    assert len(names) == len(set(names)), [n for n in names if names.count(n) > 1]
    for s in L:
        s.prepare()
    return L


# ----------------------------------------------------------------------------------------------- running one execution
def materialise(sc, rundir):
    if os.path.lexists(rundir):
        for root, dirs, _ in os.walk(rundir):
            for d in dirs:
                os.chmod(os.path.join(root, d), 0o755)
        shutil.rmtree(rundir)
    os.makedirs(rundir)
    for name, data in sc.files.items():
        p = os.path.join(rundir, name)
        os.makedirs(os.path.dirname(p), exist_ok=True)
        with open(p, 'wb') as f:
            f.write(data)
        os.chmod(p, 0o644)
        os.utime(p, (1700000000, 1700000000))
    for d in sc.rodirs:
        os.makedirs(os.path.join(rundir, d), exist_ok=True)
    if sc.uid is not None:
        os.chmod(rundir, 0o777)
    for d in sc.rodirs:
        os.chmod(os.path.join(rundir, d), 0o555)


def snapshot(rundir):
    st = {}; meta = {}
    for root, _, files in os.walk(rundir):
        for fn in files:
            p = os.path.join(root, fn); rel = os.path.relpath(p, rundir)
            with open(p, 'rb') as f:
                st[rel] = f.read()
            s = os.stat(p)
            meta[rel] = (s.st_size, s.st_blocks)
    return st, meta


def listing(state):
    return ' '.join('%s:%d:%s' % (n, len(b), sha(b)[:8]) for n, b in sorted(state.items())) or '(empty dir)'


def state_hash(state):
    return sha(repr(sorted((n, len(b), sha(b)) for n, b in state.items())).encode())


def parse_trace(err):
    tr = []
    for line in err.splitlines():
        f = line.split()
        if len(f) < 3 or not f[0].isdigit():
            continue
        d = dict(idx=int(f[0]), nr=int(f[1]), name=f[2])
        for kv in f[3:]:
            if '=' in kv:
                k, v = kv.split('=', 1); d[k] = v
        tr.append(d)
    tr.sort(key=lambda d: d['idx'])
    return tr


def execute(sc, mode, k, trace=False, fail=0):
    """one run of the scenario under vkill from a fresh directory; k == 0: un-killed"""
    wd = _scratch(); rundir = wd + '/run'
    materialise(sc, rundir)
    cmd = [E['vkill'], '--mode', mode, '--kill', str(k)]
    if fail:
        cmd = [E['vkill'], '--mode', mode, '--fail', str(fail)]
    elif k == 0:
        cmd += ['--count-only']
    if trace:
        cmd += ['--trace']
    cmd += ['--cwd', rundir, '--stdin', sc.stdin or '/dev/null', '--stderr', '../stderr.txt']
    if sc.stdout:
        cmd += ['--stdout', sc.stdout]
    if sc.uid is not None:
        cmd += ['--uid', str(sc.uid)]
    cmd += ['--', E['cli']] + sc.argv
    env = {k_: v for k_, v in os.environ.items() if not k_.startswith('ZSTD_')}
    try:
        p = subprocess.run(cmd, stdout=subprocess.PIPE, stderr=subprocess.PIPE, text=True, errors='replace', timeout=120, env=env)
    except subprocess.TimeoutExpired:
        return dict(outcome='timeout', status=None, total=None, trace=[], state=None, meta=None, cli_err='')
    res = dict(outcome='?', status=None, total=None, trace=parse_trace(p.stderr) if trace else [], cli_err='')
    for line in p.stdout.splitlines():
        if line.startswith('VKILL '):
            kv = dict(x.split('=') for x in line.split()[2:] if '=' in x); first = line.split()[1]
            if first.startswith('killed_at'):
                res['outcome'] = 'killed'
            else:
                res['outcome'] = 'exited'
                if first.startswith('total='):
                    kv['total'] = first.split('=')[1]
                if first.startswith('status='):
                    kv['status'] = first.split('=')[1]
                res['status'] = int(kv['status']); res['total'] = int(kv['total']); res['failed_call'] = int(kv.get('failed_call', 0))
    if res['outcome'] == '?':
        raise RuntimeError('vkill gave no verdict: rc=%s out=%r err=%r' % (p.returncode, p.stdout[-300:], p.stderr[-300:]))
    res['state'], res['meta'] = snapshot(rundir)
    try:
        with open(wd + '/stderr.txt', 'r', errors='replace') as f:
            res['cli_err'] = f.read()[-400:]
    except OSError:
        pass
    return res


# ----------------------------------------------------------------------------------------------- oracles
def dst_complete(sc, srcs, dst, state):
    """dst exists, is a complete output and reproduces the sources (library decode)"""
    if dst is None or dst not in state:
        return False
    d = state[dst]
    if sc.op == 'c':
        ok, out, _ = lib_decode(d, sc.dictbytes())
        return ok and out == b''.join(sc.files[s] for s in srcs)
    if not all(sc.lib[s][0] for s in srcs):
        return False           # the library rejects the source: no output can stand for it
    return d == b''.join(sc.lib[s][1] for s in srcs)


def crash_oracle(sc, state):
    """holds at EVERY instant: (source intact) or (destination complete and decodes to source); no clobber without -f"""
    v = []; fl = dict(partial=False, complete_src_present=False, src_removed=False)
    for srcs, dst in sc.pairs:
        intact = all(state.get(s) == sc.files[s] for s in srcs)
        same = dst in srcs
        comp = (not same) and dst_complete(sc, srcs, dst, state)
        if dst is not None and not same and dst in state and not comp and not (dst in sc.pre and state[dst] == sc.files[dst]):
            fl['partial'] = True
        if intact:
            if comp and sc.rm:
                fl['complete_src_present'] = True
            continue
        fl['src_removed'] = True
        what = ','.join('%s(%s)' % (s, 'missing' if s not in state else 'modified') for s in srcs if state.get(s) != sc.files[s])
        if not sc.rm:
            v.append('source-damaged-without-rm: %s' % what)
        elif not comp:
            v.append('data-loss: source %s and destination %s %s' % (what, dst, 'missing' if dst not in state else
                                                                     'incomplete/does not decode to source (%d bytes)' % len(state[dst])))
    for p in sc.pre:
        if not sc.force and state.get(p) != sc.files[p]:
            v.append('clobber: pre-existing %s %s without -f' % (p, 'removed' if p not in state else 'modified'))
    judged = set(sc.srcs()) | {d for _, d in sc.pairs if d}
    for name, data in sc.files.items():
        if name not in judged and state.get(name) != data:
            v.append('bystander-damaged: %s' % name)
    return v, fl


def completion_oracle(sc, state, status):
    """un-killed run: verdict == library verdict; failure leaves no output; success leaves exactly the library's bytes"""
    v, fl = crash_oracle(sc, state)
    if sc.verdict_excluded:
        # documented pass-through: stdout must be a verbatim copy
        for srcs, dst in sc.pairs:
            if state.get(dst) != b''.join(sc.files[s] for s in srcs) or status != 0:
                v.append('passthrough: output differs from input or status %s' % status)
    else:
        exp_ok = all(sc.src_ok(s) for s in sc.srcs()) and not sc.missing
        if (status == 0) != exp_ok:
            why = [s + ':' + ('refused' if s in sc.refuse else sc.lib.get(s, (1, 0, 'ok'))[2]) for s in sc.srcs()] + ['missing:' + m for m in sc.missing]
            v.append('verdict: exit status %s but expected %s (%s)' % (status, 'success' if exp_ok else 'failure', ' '.join(why)))
        for srcs, dst in sc.pairs:
            if dst is None or dst in srcs:
                continue
            ok = all(sc.src_ok(s) for s in srcs)
            comp = dst_complete(sc, srcs, dst, state)
            if ok and not comp:
                v.append('output-wrong: %s %s after a successful operation' % (dst, 'missing' if dst not in state else 'differs from the library decode (%d bytes)' % len(state[dst])))
            if not ok and dst != sc.stdout and dst in state and not (dst in sc.pre and not sc.force):
                v.append('artefact-left-behind: %s (%d bytes) after failed operation, status %s' % (dst, len(state[dst]), status))
    known = set(sc.files) | {d for _, d in sc.pairs if d}
    for n in state:
        if n not in known:
            v.append('unexpected-file: %s' % n)
    if sc.op == 't' and set(state) != set(sc.files):
        v.append('test-mode-changed-directory')
    return v, fl


def rm_windows(sc, trace):
    """kill indices k with: destination closed (close executed) and source not yet removed (unlink is call #k or later)"""
    ks = set()
    if not sc.rm:
        return ks
    for srcs, dst in sc.pairs:
        if len(srcs) != 1 or dst is None:
            continue
        unl = [t for t in trace if t['name'] in ('unlink', 'unlinkat') and t.get('path') in (srcs[0], './' + srcs[0])]
        if not unl:
            continue
        u = unl[0]['idx']
        op = [t for t in trace if t['name'] in ('open', 'openat', 'creat') and t.get('path') == dst and t['idx'] < u and t.get('ret', '-1').lstrip('-').isdigit() and int(t['ret']) >= 0]
        if not op:
            continue
        fd = op[-1]['ret']
        cl = [t for t in trace if t['name'] == 'close' and t.get('a0') == fd and op[-1]['idx'] < t['idx'] < u]
        if cl:
            ks.update(range(cl[0]['idx'] + 1, u + 1))
    return ks


def trace_key(trace):
    return [(t['name'], t.get('path', t.get('a0'))) for t in trace]


# ----------------------------------------------------------------------------------------------- pool tasks
SCEN = []      # filled in the parent before the pool forks


def task_baseline(arg):
    """two un-killed traced runs of one scenario in one mode + completion oracle on the first"""
    si, mode = arg
    sc = SCEN[si]
    r1 = execute(sc, mode, 0, trace=True)
    if r1['outcome'] != 'exited':
        return dict(si=si, mode=mode, error='baseline ' + r1['outcome'])
    viols, fl = completion_oracle(sc, r1['state'], r1['status'])
    r2 = execute(sc, mode, 0, trace=True)
    if r2['outcome'] != 'exited':
        return dict(si=si, mode=mode, error='baseline ' + r2['outcome'])
    tids = {t.get('tid') for t in r1['trace']}
    same = trace_key(r1['trace']) == trace_key(r2['trace']) and r1['total'] == r2['total']
    if state_hash(r1['state']) != state_hash(r2['state']) or r1['status'] != r2['status']:
        viols.append('nondeterministic-result: two un-killed runs ended differently (%s / %s)' % (listing(r1['state']), listing(r2['state'])))
    dst = {}
    for _, d in sc.pairs:
        if d and d in r1['state']:
            dst[d] = (sha(r1['state'][d]), r1['meta'][d][0], r1['meta'][d][1], len(r1['state'][d]))
    return dict(si=si, mode=mode, error=None, n=[r1['total'], r2['total']], status=r1['status'], viols=viols, flags=fl,
                sched_dep=(not same) or len(tids) > 1, trace_same=same, ntids=len(tids),
                names={t['idx']: t['name'] + ((' ' + t['path']) if 'path' in t else '') for t in r1['trace']},
                windows=sorted(rm_windows(sc, r1['trace'])), hash=state_hash(r1['state']), listing=listing(r1['state']),
                init_hash=state_hash(sc.files), dst=dst, cli_err=r1['cli_err'])


def task_kill(arg):
    si, mode, k, rep = arg
    sc = SCEN[si]
    r = execute(sc, mode, k)
    if r['outcome'] == 'timeout':
        return dict(si=si, mode=mode, k=k, rep=rep, outcome='timeout', viols=['hang: no termination within 120 s'], flags={}, hash=None, listing='?')
    if r['outcome'] == 'exited':      # fewer counted calls than k in this schedule: a complete run
        viols, fl = completion_oracle(sc, r['state'], r['status'])
    else:
        viols, fl = crash_oracle(sc, r['state'])
    return dict(si=si, mode=mode, k=k, rep=rep, outcome=r['outcome'], viols=viols, flags=fl, hash=state_hash(r['state']), listing=listing(r['state']))


def task_fail(arg):
    """one run in which the k-th file-system call, if it writes data, fails with ENOSPC (the run goes on): the operation has failed, so the exit status
    is not 0, and the user's data is still recoverable"""
    si, k = arg
    sc = SCEN[si]
    r = execute(sc, 'fs', 0, fail=k)
    if r['outcome'] == 'timeout':
        return dict(si=si, k=k, injected=True, viols=['hang: no termination within 120 s after a failed write'])
    if not r.get('failed_call'):
        return dict(si=si, k=k, injected=False, viols=[])
    viols, fl = crash_oracle(sc, r['state'])
    if r['status'] == 0 and not sc.verdict_excluded:
        viols.append('write-failure-ignored: a data write failed with ENOSPC (call #%d) but the exit status is 0' % k)
    # "a failed operation ... leaves no output file behind": whatever destination is still there must be complete (the other files of a multi-file run may
    # have succeeded); stdout and destinations that existed before the run cannot be removed by zstd
    if not sc.verdict_excluded:
        for srcs, dst in sc.pairs:
            if dst is None or dst in srcs or dst == sc.stdout or dst in sc.pre:
                continue
            if dst in r['state'] and not dst_complete(sc, srcs, dst, r['state']):
                viols.append('artefact-left-behind-after-write-failure: %s (%d bytes, incomplete) remains after a data write failed with ENOSPC, status %s' % (dst, len(r['state'][dst]), r['status']))
    return dict(si=si, k=k, injected=True, viols=viols)


def cleanup():
    base = E.get('base')
    if base and os.path.isdir(base):
        for root, dirs, _ in os.walk(base):
            for d in dirs:
                try:
                    os.chmod(os.path.join(root, d), 0o755)
                except OSError:
                    pass
        shutil.rmtree(base, ignore_errors=True)
