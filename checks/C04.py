"""C04 — every decoding path yields the specified output for every valid frame (catalogue x paths x histories x build variants, differential against R)."""
RULE = ('every record of the spec-derived frame catalogue (incl. the bit-container family: blocks of sequences carrying 9 .. 39 extra bits each with maximal-accuracy tables whose used codes have probability "less than one") (+12 compressor-made streams) x 7 decoder histories on the same DCtx (cold; another frame with other tables first (2 choices); '
        'proper prefix then reset; failed corrupt frame then reset; same frame before; streamed before) x 6 decode paths (one-shot exact dst, one-shot roomy dst, streaming with stable output, '
        'streaming 3-byte in / 5-byte out, buffer-less, in-place with decompressionMargin; dictionaries through loadDictionary / refDDict / refPrefix) must equal the output of the vendored '
        'reference decoder R; repeated for decoder builds {default, HUF_FORCE_DECOMPRESS_X1, _X2, FORCE_DECOMPRESS_SEQUENCES_SHORT, _LONG, DYNAMIC_BMI2=0, ZSTD_DISABLE_ASM (gcc -O2), gcc -O2}; '
        'plus the hard-coded default LL/OF/ML decoding tables compared cell by cell with ZSTD_buildFSETable(specified default distribution); '
        'distinct = records; non-trivial = record with sequences or several blocks')
SRC = ['harness/c04_paths.c', 'ref/edu_decoder.c']


def run(vc, tier):
    c = vc.Check('C04', tier, 'exploration', RULE)
    cat = vc.catalogue('quick' if tier == 'quick' else 'thorough')
    variants = ['asan', 'dec-x1', 'dec-x2', 'dec-short', 'dec-long', 'dec-nobmi2', 'dec-noasm', 'dec-gcc-o2']
    n = len(variants) + 1
    for i, v in enumerate(variants):
        c.run_vx_unit('c04-paths-' + v, SRC, v, ['--cat', cat, '--stride', 1, '--D', 0, '--exec-timeout', 120000], share=1.0 / (n - i))
    r = c.run_vx_unit('c04-default-tables', ['harness/c04_deftables.c', 'ref/edu_decoder.c'], 'asan', ['--D', 0], exclude=('zstd_decompress_block.c',), share=1.0)
    c.extra['path_decodes'] = sum(x.stats.get('path_decodes', 0) for _, x, _ in c.units)
    c.extra['default_table_cells_compared'] = r.stats.get('cells_compared', 0)
    c.evaluations += c.extra['path_decodes']
    c.assumptions = ['frames outside the generator\'s grammar are not covered; x86-64 only', 'R = doc/educational_decoder vendored under ref/ (spec-derived, shares no code with lib/)',
                     'closed decoder state graphs (every segmentation) for the same catalogue are explored in C02']
    return c.finish()
