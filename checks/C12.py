"""C12 — thread pool under the deterministic scheduler."""
RULE = ('client programs = pool(threads 1..T, queue 0..2) x main/client op lists over {add, add(posting job), add(job posting its child with the blocking call; at most one, pools of >= 2 threads never resized to 1), tryAdd, tryAdd(posting job), joinJobs, resize 1/2/3} with a '
        'total op budget, optional final joinJobs, then POOL_free; every program is run under every schedule with <= P preemptions and <= D deviations (delays, waiter '
        'choice on cond_signal), on the real lib/common/pool.c; distinct = distinct (final pool/job state, switch count) outcomes; non-trivial = at least one job and > 2 thread switches')
SRC = ['harness/c12_pool.c', 'ref/edu_decoder.c']
ENG = ['engine/vsched.c']


def run(vc, tier):
    c = vc.Check('C12', tier, 'model_checking', RULE)
    kw = dict(engine_srcs=ENG, exclude=('pool.c',), states_from=('sched_points', 'sched_points'))
    if tier == 'quick':
        c.run_vx_unit('c12-pool', SRC, 'sched-asan', ['--ops', 3, '--threads', 2, '--P', 1, '--D', 1, '--exec-timeout', 10000], share=0.9, **kw)
    else:
        c.run_vx_unit('c12-pool', SRC, 'sched-asan', ['--ops', 3, '--threads', 3, '--P', 2, '--D', 2, '--exec-timeout', 10000], share=0.5, **kw)
        c.run_vx_unit('c12-pool-cached', SRC, 'sched-asan', ['--ops', 3, '--threads', 2, '--cache', 1, '--spurious', 1, '--exec-timeout', 10000], share=0.9, **kw)
    # unsynchronised accesses: the same programs in the sched-tsan build (race detection inside every explored schedule, see C11)
    TSAN = {'TSAN_OPTIONS': 'halt_on_error=1:report_signal_unsafe=0:die_after_fork=0:second_deadlock_stack=0'}
    c.run_vx_unit('c12-race', SRC, 'sched-tsan', ['--ops', 3, '--threads', 2, '--P', 1 if tier == 'quick' else 2, '--D', 0 if tier == 'quick' else 1, '--exec-timeout', 60000], share=0.9, env=TSAN, **kw)
    c.states = sum(r.done.get('executions', 0) for _, r, _ in c.units)
    c.transitions = sum(r.stats.get('sched_points', 0) for _, r, _ in c.units)
    c.extra['blocking_waits'] = sum(r.stats.get('blocking_waits', 0) for _, r, _ in c.units)
    c.extra['states_note'] = 'states = complete schedules executed (stateless exploration); transitions = scheduling points taken over all schedules'
    c.assumptions = ['sequential consistency between synchronisation points (unsynchronised accesses are decided by ThreadSanitizer inside every explored schedule of the sched-tsan unit; happens-before comes from the modelled mutexes only)',
                     'posting jobs use tryAdd, except at most one job per program that posts with the blocking call on a pool that keeps >= 2 threads (the other threads only run jobs that end), so every program of the grammar is deadlock-free on an ideal bounded pool and any deadlock found is the implementation\'s']
    return c.finish()
