"""C09 — truncation, size lies and checksum damage are reported, never accepted."""
RULE = ('for every catalogue record (spec-derived frames, with dictionaries, skippable and multi-frame) and 12 compressor-made streams up to the length cap: every proper prefix not on a frame '
        'boundary through one-shot / usingDict, streaming (whole and byte-by-byte) and the buffer-less API; 3 kinds of trailing non-frame bytes; every single-bit flip of every stored '
        'checksum; content-size field rewritten to n+1, n-1, 0; every byte position of the block payload of single-frame records with checksum/size substituted (all 255 values for frames '
        '<= 120 bytes, 7 values otherwise) - a decode that still succeeds must match the stored size and an independently computed XXH64; wrong pledged sizes over streaming call histories; the same with 1-2 workers (1 KiB jobs; one job / four jobs; pledge n, n-1, n+1, n-700, n+2^32, 0; 3 call scripts) under every schedule with <= 1 preemption and <= 1 deviation: a wrong pledge is an error by the end of the frame, a right one gives a truthful header, the context stays usable; '
        'distinct = records; non-trivial = record with > 4 prefixes')


def run(vc, tier):
    c = vc.Check('C09', tier, 'fault_enumeration', RULE)
    cat = vc.catalogue('quick')
    r = c.run_vx_unit('c09-damage', ['harness/c09_trunc.c', 'ref/edu_decoder.c'], 'asan', ['--cat', cat, '--stride', 1, '--maxlen', 400 if tier == 'quick' else 1024, '--D', 0], share=0.7)
    c.run_vx_unit('c09-pledge', ['harness/c02_cstream.c', 'ref/edu_decoder.c'], 'asan', ['--depth', 3 if tier == 'quick' else 4, '--api', 0, '--ncfg', 2 if tier == 'quick' else 6, '--pledge', 1, '--judge', 4], share=0.9)
    # pledged sizes on a multithreaded context (the frame header is written by the first job, the frame is closed by the last): real zstdmt + pool under the scheduler
    c.run_vx_unit('c09-mt-pledge', ['harness/c11_mt.c', 'ref/edu_decoder.c'], 'sched-asan', ['--driver', 18, '--P', 1 if tier == 'quick' else 2, '--D', 1 if tier == 'quick' else 2, '--exec-timeout', 20000], engine_srcs=['engine/vsched.c'], share=0.9)
    for k in ('prefixes', 'checksum_bit_flips', 'payload_substitutions', 'payload_substitutions_accepted_and_judged', 'content_size_rewrites', 'trailing_garbage_cases'):
        c.extra[k] = r.stats.get(k, 0)
    c.extra['wrong_pledges_refused'] = sum(x.stats.get('wrong_pledges_refused', 0) for _, x, _ in c.units)
    c.evaluations += sum(c.extra[k] for k in ('prefixes', 'checksum_bit_flips', 'payload_substitutions', 'content_size_rewrites', 'trailing_garbage_cases'))
    c.assumptions = ['frames longer than the cap are skipped', 'a 2^-32 checksum collision cannot false-alarm: acceptance is judged against the stored checksum, as the property words it']
    return c.finish()
