def run_units(vc, c, tier):
    """decoder-side part of C10: progress on every transition of the closed decoder graphs, and the hint-following walk"""
    cat = vc.catalogue('quick')
    r = c.run_vx_unit('c10-dstream', ['harness/c02_dstream.c', 'ref/edu_decoder.c'], 'asan', ['--cat', cat, '--stride', 1, '--maxlen', 160 if tier == 'quick' else 400, '--judge', 2, '--D', 0], share=0.9)
    c.extra['decoder_graph_states'] = r.stats.get('graph_states', 0)
    c.extra['decoder_graph_transitions'] = r.stats.get('graph_transitions', 0)
