"""C18 — dictionary training yields a usable dictionary or an error, never a bad one."""
RULE = ('8 entry points (fastCover, trainFromBuffer, cover, optimizeCover, optimizeFastCover, legacy, finalizeDictionary, addEntropyTablesFromBuffer) x every case within D deviations of the base '
        '(11 samples of 1000 bytes with a shared motif, capacity 16 KiB, k=64 d=8 f=12 accel=1 steps=4 split=0.75, 1 thread, level 3) over: sample count {0,1,2,5,11,40}, sample size '
        '{0,1,7,8,9,64,1000}, content {motif+noise, one symbol, two symbols, identical samples}, size profile {equal, varying, training part (first 75 %) totalling 7 bytes, totalling 3 bytes}, capacity {0,7,8,255,256,1 KiB,16 KiB,110 KiB}, k {0,1,64,5e6}, d {0,5,6,8,16}, '
        'f {0,1,12,31,32}, accel {0,1,10,11}, steps, splitPoint {0,0.01,0.75,1,1.5}, shrinkDict, threads {0,1,2}, level {-5,3,19}, forced ID; the threaded optimisers run their real pool and '
        'best-dictionary mutex/condition under the deterministic scheduler (thorough: every schedule with <= 1 preemption); oracles: error/0 or size <= capacity with the bytes beyond '
        'untouched, loads as CDict and DDict, four ID queries equal and non-zero, every sample round-trips, two single-threaded runs identical; ASan/UBSan; '
        'distinct = distinct dictionaries; non-trivial = a dictionary was produced')
SRC = ['harness/c18_train.c', 'ref/edu_decoder.c']


def run(vc, tier):
    c = vc.Check('C18', tier, 'exploration', RULE)
    q = tier == 'quick'
    # the legacy trainer's segment table filled up: 14 000 distinct repeated words (2.7 MB corpus), trainFromBuffer_legacy and trainFromBuffer
    c.run_vx_unit('c18-manyseg', SRC, 'sched-asan', ['--D', 0, '--explore', 0, '--manyseg', 14000, '--exec-timeout', 300000], engine_srcs=['engine/vsched.c'], share=0.5)
    r = c.run_vx_unit('c18-train', SRC, 'sched-asan', ['--D', 1 if q else 2, '--explore', 0, '--exec-timeout', 120000], engine_srcs=['engine/vsched.c'], share=0.6)
    if not q:
        c.run_vx_unit('c18-train-schedules', SRC, 'sched-asan', ['--D', 2, '--P', 1, '--explore', 1, '--exec-timeout', 120000], engine_srcs=['engine/vsched.c'], share=0.9)
    c.extra['dictionaries_produced'] = sum(x.stats.get('dictionaries_produced', 0) for _, x, _ in c.units)
    c.extra['refusals'] = sum(x.stats.get('refusals', 0) for _, x, _ in c.units)
    c.assumptions = ['sample sets come from a grammar; corpora > 40 KB are not enumerated', 'data races in the optimisers: free-running TSan pass (C11 notes), not decided here']
    return c.finish()
