"""C05 — every emitted frame is conformant and truthful: one-shot enumeration in conformance mode, judged by the reference decoder R."""
RULE = ('same deviation-bounded enumeration as C01 but with window 1 KiB and inputs of 3+ windows whose segments repeat at distance W-8, W-1, W, W+1; every frame is '
        'decoded by the vendored educational decoder R (instrumented) and judged: R accepts and regenerates the source; content-size / checksum (own XXH64) / dictID / '
        'reserved+unused bits truthful; per sequence offset <= window (or <= position + dictionary while position <= window), offset != 0, matchLength >= 3; per block '
        'regenerated <= min(128 KiB, window, maxBlockSize), compressed size < content, no RLE first block followed by others, no < 4-byte FSE table + bitstream tail, '
        'no 2-byte zero sequence count; also every input length 0..200 in 3 textures with checksum (per-length bookkeeping), and the streamed frames of every call history of depth 2 over 6 configurations (the C02 search with the conformance oracle); distinct = distinct frames; non-trivial = frame has at least one sequence')


def run(vc, tier):
    c = vc.Check('C05', tier, 'exploration', RULE)
    src = ['harness/c01_roundtrip.c', 'ref/edu_decoder.c']
    if tier == 'quick':
        c.run_vx_unit('c05-shapes', src, 'asan', ['--mode', 'conf', '--set', 'shapes', '--K', 4, '--D', 1], share=0.8)
        c.run_vx_unit('c05-blocks', src, 'asan', ['--mode', 'conf', '--set', 'blocks', '--D', 0, '--exec-timeout', 60000], share=0.5)
        c.run_vx_unit('c05-sequences', ['harness/c17_sequences.c', 'ref/edu_decoder.c'], 'asan', ['--big', 0, '--D', 0], share=0.3)      # sequence-level entry point: the C17 enumeration, frames judged by R
        c.run_vx_unit('c05-lens', src, 'asan', ['--mode', 'conf', '--set', 'lens', '--L', 200, '--D', 0], share=0.5)
        c.run_vx_unit('c05-stream', ['harness/c02_cstream.c', 'ref/edu_decoder.c'], 'asan', ['--depth', 2, '--api', 0, '--ncfg', 6, '--judge', 8], share=0.6)
        c.run_vx_unit('c05-absuffix', src, 'asan', ['--mode', 'conf', '--set', 'absuffix', '--L', 4, '--D', 0], share=0.9)
    else:
        c.run_vx_unit('c05-shapes', src, 'asan', ['--mode', 'conf', '--set', 'shapes', '--K', 5, '--D', 2], share=0.6)
        c.run_vx_unit('c05-shapes-big', src, 'asan', ['--mode', 'conf', '--set', 'shapes', '--K', 4, '--big', 1, '--D', 1], share=0.5)
        c.run_vx_unit('c05-blocks', src, 'asan', ['--mode', 'conf', '--set', 'blocks', '--D', 1, '--exec-timeout', 60000], share=0.4)
        c.run_vx_unit('c05-sequences', ['harness/c17_sequences.c', 'ref/edu_decoder.c'], 'asan', ['--big', 0, '--D', 0], share=0.2)
        c.run_vx_unit('c05-sequences-128k', ['harness/c17_sequences.c', 'ref/edu_decoder.c'], 'asan', ['--big', 1, '--D', 0, '--exec-timeout', 120000], share=0.3)
        c.run_vx_unit('c05-lens', src, 'asan', ['--mode', 'conf', '--set', 'lens', '--L', 700, '--D', 1], share=0.4)
        c.run_vx_unit('c05-stream', ['harness/c02_cstream.c', 'ref/edu_decoder.c'], 'asan', ['--depth', 3, '--api', 0, '--ncfg', 6, '--judge', 8], share=0.6)
        c.run_vx_unit('c05-absuffix', src, 'asan', ['--mode', 'conf', '--set', 'absuffix', '--L', 9, '--D', 0], share=0.9)
    near = sum(r.stats.get('frames_with_offset_near_window', 0) for _, r, _ in c.units)
    c.extra['frames_with_offset_near_window'] = near
    c.extra['sequences_checked'] = sum(r.stats.get('sequences', 0) for _, r, _ in c.units)
    c.assumptions = ['R = doc/educational_decoder vendored under ref/ (spec-derived, shares no code with lib/)',
                     'streaming / MT / dictionary / sequence-API producers hand their frames to the same checker inside C02, C11, C08, C17']
    return c.finish()
