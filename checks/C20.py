"""C20 — seekable format: closed reader state graph, accessors, corruption."""
import glob
RULE = ('archives = 3 contents x lengths {1,14,27} x maxFrameSize {1,2,3,5,8,64} x checksum x compression histories (input chunks {1,3,all}, output capacities {1,3,ample}, explicit '
        'endFrame patterns {none, every 4 bytes, twice in a row, right after an automatic frame end, after the first byte}); each archive: regular decoder + reference decoder regenerate '
        'the content, frames <= maxFrameSize, seek-table accessors for every index 0..numFrames+1 against the layout computed with the plain inspectors; reader graph through memory / '
        'FILE* / callback access: breadth-first over reader states (curFrame, decompressedOffset, buffer cursor), from every state every (offset, length) with offset+length <= n, to '
        'fixpoint; failing read callback at each of the first 6 reads; second unit: every single-byte substitution (4 values) and truncation of each archive; '
        'distinct = distinct archives; non-trivial = more than one frame')


def run(vc, tier):
    c = vc.Check('C20', tier, 'model_checking', RULE)
    src = ['harness/c20_seekable.c', 'ref/edu_decoder.c']
    extra = [vc.REPO + '/contrib/seekable_format/zstdseek_compress.c']
    r1 = c.run_vx_unit('c20-reader-graph', src, 'plain', ['--corrupt', 0, '--D', 0, '--exec-timeout', 60000], extra_srcs=extra, share=0.6)
    r3 = c.run_vx_unit('c20-bigtable', src, 'asan', ['--corrupt', 2, '--D', 0, '--exec-timeout', 120000], extra_srcs=extra, share=0.5)
    r4 = c.run_vx_unit('c20-bigframes', src, 'asan', ['--corrupt', 3, '--D', 0, '--exec-timeout', 120000], extra_srcs=extra, share=0.4)
    r2 = c.run_vx_unit('c20-corrupt', src, 'asan', ['--corrupt', 1, '--D', 0, '--exec-timeout', 60000], extra_srcs=extra, share=0.9)
    c.states = r1.stats.get('reader_states', 0); c.transitions = r1.stats.get('reads', 0); c.traces_validated = r1.stats.get('reads', 0)
    c.extra['archives_built'] = r1.stats.get('archives_built', 0); c.extra['archive_mutants'] = r2.stats.get('mutants', 0)
    c.assumptions = ['contents <= 28 bytes; maxFrameSize <= 64', 'checksum-off corruption is judged for memory safety only']
    return c.finish()
