"""C10 — streaming progress and flush decodability, judged on every transition of the C02 history search; hint-following decoder."""
RULE = ('same history search as C02 (6 configurations x 3 inputs x all call histories of depth d, state caching on the context image) with the C10 oracles on every transition: '
        '(a) a call given consumable input and writable output consumes, produces or reports completion; (b) at every state where flush (or end) returned 0 a streaming decoder '
        'fed the bytes emitted so far regenerates exactly the bytes consumed so far; drain loops have a step horizon; multithreaded flush points are judged inside C11 drivers D2/D6; '
        'distinct = distinct emitted streams; non-trivial = history with a completed flush/end')
SRC = ['harness/c02_cstream.c', 'ref/edu_decoder.c']


def run(vc, tier):
    c = vc.Check('C10', tier, 'model_checking', RULE)
    d = 3 if tier == 'quick' else 4
    c.run_vx_unit('c10-cstream2', SRC, 'asan', ['--depth', d, '--api', 0, '--ncfg', 4 if tier == 'quick' else 6, '--judge', 2], share=0.6, states_from=('transitions', 'transitions'))
    c.run_vx_unit('c10-classic', SRC, 'asan', ['--depth', d - 1 if tier == 'quick' else d, '--api', 1, '--ncfg', 4 if tier == 'quick' else 6, '--judge', 2], share=0.3, states_from=('transitions', 'transitions'))
    import C10_hints
    C10_hints.run_units(vc, c, tier)
    c.states = sum(r.done.get('visited', 0) for _, r, _ in c.units)
    c.transitions = sum(r.stats.get('transitions', 0) for _, r, _ in c.units)
    c.traces_validated = c.evaluations
    c.extra['flush_completions_checked'] = sum(r.stats.get('flush_completions_checked', 0) for _, r, _ in c.units)
    c.extra['end_completions_checked'] = sum(r.stats.get('end_completions_checked', 0) for _, r, _ in c.units)
    c.assumptions = ['as C02']
    return c.finish()
