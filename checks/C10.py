"""C10 — streaming progress and flush decodability, judged on every transition of the C02 history search; hint-following decoder."""
RULE = ('same history search as C02 (6 configurations x 3 inputs x all call histories of depth d, state caching on the context image) with the C10 oracles on every transition: '
        '(a) a call given consumable input and writable output consumes, produces or reports completion; (b) at every state where flush (or end) returned 0 a streaming decoder '
        'fed the bytes emitted so far regenerates exactly the bytes consumed so far; drain loops have a step horizon; multithreaded: drivers D2 / D12 (/ D6) of the C11 harness under every schedule of the bound, same flush oracle; '
        'distinct = distinct emitted streams; non-trivial = history with a completed flush/end')
SRC = ['harness/c02_cstream.c', 'ref/edu_decoder.c']


def run(vc, tier):
    c = vc.Check('C10', tier, 'model_checking', RULE)
    d = 3 if tier == 'quick' else 4
    c.run_vx_unit('c10-cstream2', SRC, 'asan', ['--depth', d, '--api', 0, '--ncfg', 4 if tier == 'quick' else 6, '--judge', 2], share=0.6, states_from=('transitions', 'transitions'))
    c.run_vx_unit('c10-classic', SRC, 'asan', ['--depth', d - 1 if tier == 'quick' else d, '--api', 1, '--ncfg', 4 if tier == 'quick' else 6, '--judge', 2], share=0.3, states_from=('transitions', 'transitions'))
    # multithreaded flush points: the C11 drivers with flushes (D2: 7-byte outputs; D12: flush carrying new input while all workers are busy; D6: abandon/restart)
    for drv, P, D in ([(2, 2, 2), (12, 2, 2)] if tier == 'quick' else [(2, 2, 3), (12, 2, 3), (6, 1, 2)]):
        c.run_vx_unit('c10-mt-d%d' % drv, ['harness/c11_mt.c', 'ref/edu_decoder.c'], 'sched-asan', ['--driver', drv, '--P', P, '--D', D, '--exec-timeout', 20000], engine_srcs=['engine/vsched.c'], share=0.3)
    # rsyncable with real synchronisation points (256 KiB jobs, 2.5 MiB): end / flush directives with and without payload; default schedule
    c.run_vx_unit('c10-mt-d15', ['harness/c11_mt.c', 'ref/edu_decoder.c'], 'sched-asan', ['--driver', 15, '--P', 0, '--D', 0, '--exec-timeout', 60000], engine_srcs=['engine/vsched.c'], share=0.3)
    import C10_hints
    C10_hints.run_units(vc, c, tier)
    c.states = sum(r.done.get('visited', 0) for _, r, _ in c.units)
    c.transitions = sum(r.stats.get('transitions', 0) for _, r, _ in c.units)
    c.traces_validated = c.evaluations
    c.extra['flush_completions_checked'] = sum(r.stats.get('flush_completions_checked', 0) for _, r, _ in c.units)
    c.extra['end_completions_checked'] = sum(r.stats.get('end_completions_checked', 0) for _, r, _ in c.units)
    c.assumptions = ['as C02']
    return c.finish()
