"""C19 — the CLI never loses or silently damages user data: exhaustive crash-point enumeration.

For every invocation of a grammar (compress / decompress / test x --rm, -f, -o, -c, several inputs, -T, --long, --[no-]sparse, -D,
pre-existing destination, read-only directory) the zstd CLI (rebuilt from the repo's working tree) is run under engine/vkill.c,
a ptrace tracer that SIGKILLs the whole process tree right before its k-th system call, for EVERY k, each time from a fresh
copy of the initial directory; the directory left behind is judged by the crash oracle.  The un-killed run is judged by the
completion oracle.  Replay of one point:  python3 checks/C19.py --replay <scenario> <fs|all> <k>
"""
import os, sys, time, multiprocessing

RULE = ('every scenario x every kill index k in 1..N is executed (N = number of counted system calls of the un-killed process tree, +2 when the '
        'count depends on the schedule). mode fs counts the calls that can change the file system [open for writing/creation, write, close, unlink, '
        'rename, truncate, chmod/chown/utime, mkdir, link, fsync], mode all counts every system call after execve. tier quick: the curated invocation '
        'table in mode fs + its quick subset in mode all; thorough: curated table + generated cross product (op x content x --rm x destination x '
        'pre-existing/-f x extra flag) in mode fs and in mode all. Each kill point is run twice (4x in mode fs when several threads issue counted calls) '
        'from a fresh directory; after each kill the crash oracle is evaluated on the resulting '
        'directory, and the completion oracle on the un-killed run; evaluations = executed (scenario, mode, k, repetition) runs + un-killed runs; '
        'distinct = distinct post-run directory states (hash of sorted (name, size, sha1)), non-trivial = state differs from the initial directory')

NPROC = 16


def _load_vc():
    import importlib.machinery, importlib.util
    path = os.path.join(os.path.dirname(os.path.dirname(os.path.abspath(__file__))), 'vcheck')
    ld = importlib.machinery.SourceFileLoader('vcheck', path)
    spec = importlib.util.spec_from_loader('vcheck', ld); vc = importlib.util.module_from_spec(spec)
    sys.modules['vcheck'] = vc; ld.exec_module(vc)
    return vc


def replay_cmd(vc, name, mode, k):
    pre = ('VERIF_REPO=%s ' % vc.REPO) if vc.REPO != '/repo' else ''
    return '%spython3 checks/C19.py --replay %s %s %d' % (pre, name, mode, k)


def run(vc, tier):
    import c19_lib as L
    c = vc.Check('C19', tier, 'fault_enumeration', RULE)
    t_build = time.time()
    L.init(vc)
    L.SCEN[:] = L.scenarios()
    t_build = time.time() - t_build
    cur = [i for i, s in enumerate(L.SCEN) if not s.gen and not s.extra]           # curated table
    gen = [i for i, s in enumerate(L.SCEN) if s.gen]                                 # generated cross product
    qk = [i for i in cur if L.SCEN[i].quick]
    if tier == 'quick':
        plan = [(i, 'fs') for i in cur] + [(i, 'all') for i in qk]
    else:
        plan = [(i, 'fs') for i in cur + gen] + [(i, 'all') for i in cur + gen]
    sel = sorted({i for i, _ in plan})
    reserve = 8 if tier == 'quick' else 30          # seconds kept for writing the evidence

    def out_of_time():
        return c.time_left() <= reserve

    viol = {}          # (scenario, mode, kind) -> [first k, count, text]
    states = set(); nontrivial = set(); samples = []
    X = dict(kill_points=0, kill_runs=0, completion_runs=0, kills_partial_destination=0, kills_in_close_to_unlink_window=0,
             kills_dst_complete_src_present=0, kills_source_already_removed=0, kills_past_end_of_schedule=0,
             scenarios_source_removed_unkilled=0, scenarios_failed_status_unkilled=0, rerun_same_state=0, rerun_other_state=0,
             rerun_other_state_deterministic_scenarios=0, scenarios_schedule_dependent_fs=[], scenario_modes_schedule_dependent_all=0, scenario_modes_completed=0, scenario_modes_planned=len(plan),
             sparse_groups_compared=0, sparse_outputs_with_holes=0)

    def note(sc, mode, k, text):
        kind = text.split(':')[0]
        e = viol.setdefault((sc.name, mode, kind), [k, 0, text]); e[1] += 1
        if k < e[0]:
            e[0] = k; e[2] = text

    pool = multiprocessing.Pool(NPROC)
    try:
        # ---- phase 1: un-killed, traced runs (twice) + completion oracle
        base = {}
        for r in pool.imap_unordered(L.task_baseline, plan):
            sc = L.SCEN[r['si']]
            if r['error']:
                raise RuntimeError('C19 %s/%s: %s' % (sc.name, r['mode'], r['error']))
            base[(r['si'], r['mode'])] = r
            c.evaluations += 2; X['completion_runs'] += 2
            states.add(r['hash'])
            if r['hash'] != r['init_hash']:
                nontrivial.add(r['hash'])
            for t in r['viols']:
                note(sc, r['mode'], 0, t)
            if r['mode'] == 'fs':
                X['scenarios_source_removed_unkilled'] += 1 if r['flags'].get('src_removed') else 0
                X['scenarios_failed_status_unkilled'] += 1 if r['status'] != 0 else 0
            if r['sched_dep'] and r['mode'] == 'fs':
                X['scenarios_schedule_dependent_fs'].append(sc.name)
            elif r['sched_dep']:
                X['scenario_modes_schedule_dependent_all'] += 1
        # sparse on/off/default: byte-identical outputs and identical st_size
        groups = {}
        for (si, mode), r in base.items():
            sc = L.SCEN[si]
            if mode == 'fs' and sc.sparse_key:
                groups.setdefault(sc.sparse_key, []).append((sc, r))
        for key, mem in sorted(groups.items()):
            if len(mem) < 2:
                continue
            X['sparse_groups_compared'] += 1
            ref = None
            for sc, r in mem:
                d = sc.pairs[0][1]; cur = r['dst'].get(d)
                if cur and cur[2] * 512 < cur[1]:
                    X['sparse_outputs_with_holes'] += 1
                cmp = cur and (cur[0], cur[1], cur[3])
                if ref is None:
                    ref = (sc, cmp)
                elif cmp != ref[1]:
                    note(sc, 'fs', 0, 'sparse-differs: %s gives (sha1,st_size,len)=%s but %s gives %s' % (sc.name, cmp, ref[0].name, ref[1]))
        # ---- phase 2: every kill point, scenario by scenario (fs first), each twice
        def reps(b, mode):
            return 4 if (mode == 'fs' and b['sched_dep']) else 2      # async-path / -T scenarios: more schedules of the writer thread

        def npoints(b):
            return max(b['n']) + (2 if b['sched_dep'] else 0)

        def tasks():
            for si, mode in plan:
                b = base[(si, mode)]
                for k in range(1, npoints(b) + 1):
                    for rep in range(reps(b, mode)):
                        yield (si, mode, k, rep)
        todo = {}
        for si, mode in plan:
            b = base[(si, mode)]
            todo[(si, mode)] = reps(b, mode) * npoints(b)
            if todo[(si, mode)] == 0:
                X['scenario_modes_completed'] += 1
        # ---- phase 3: every data-writing call fails once with ENOSPC (the process lives on): non-zero exit status, data still recoverable
        X['write_failures_injected'] = 0
        ftasks = [(si, k) for si, mode in plan if mode == 'fs' for k in range(1, max(base[(si, mode)]['n']) + 1)]
        for r in pool.imap_unordered(L.task_fail, ftasks, chunksize=4):
            c.evaluations += 1
            if r['injected']:
                X['write_failures_injected'] += 1
            for t in r['viols']:
                note(L.SCEN[r['si']], 'fs', r['k'], t)
        pend = {}
        for r in pool.imap_unordered(L.task_kill, tasks(), chunksize=4):
            sc = L.SCEN[r['si']]; b = base[(r['si'], r['mode'])]; key = (r['si'], r['mode'], r['k'])
            c.evaluations += 1; X['kill_runs'] += 1
            todo[key[:2]] -= 1
            if todo[key[:2]] == 0:
                X['scenario_modes_completed'] += 1
            for t in r['viols']:
                note(sc, r['mode'], r['k'], t)
            if r['hash']:
                states.add(r['hash'])
                if r['hash'] != b['init_hash']:
                    nontrivial.add(r['hash'])
            pend.setdefault(key, []).append(r)
            if len(pend[key]) == reps(b, r['mode']):
                rs = pend.pop(key)
                X['kill_points'] += 1
                same = len({o['hash'] for o in rs}) == 1
                X['rerun_same_state' if same else 'rerun_other_state'] += 1
                if not same and not b['sched_dep']:
                    X['rerun_other_state_deterministic_scenarios'] += 1
                fl = {k_: any(o['flags'].get(k_) for o in rs) for k_ in ('partial', 'complete_src_present', 'src_removed')}
                X['kills_partial_destination'] += 1 if fl['partial'] else 0
                X['kills_dst_complete_src_present'] += 1 if fl['complete_src_present'] else 0
                X['kills_source_already_removed'] += 1 if fl['src_removed'] else 0
                X['kills_in_close_to_unlink_window'] += 1 if r['k'] in b['windows'] else 0
                X['kills_past_end_of_schedule'] += 1 if all(o['outcome'] == 'exited' for o in rs) else 0
                if r['hash'] != b['init_hash'] and len(samples) < 400 and not sc.gen and (fl['partial'] or r['k'] in b['windows'] or fl['src_removed']):
                    samples.append((0 if r['k'] in b['windows'] else 1 if fl['partial'] else 2,
                                    '%s [%s] | mode %s k=%d | %s | %s' % (sc.name, sc.cmdline(), r['mode'], r['k'], b['names'].get(r['k'], '?'), r['listing'])))
            if out_of_time():
                c.exhaustive = False
                break
    finally:
        pool.terminate(); pool.join()
        L.cleanup()
    if X['scenario_modes_completed'] < len(plan):
        c.exhaustive = False
    # a few samples of each class
    samples.sort(key=lambda s: s[0]); pick = []
    for cls in (0, 1, 2):
        pick += [s for k_, s in samples if k_ == cls][:4]
    c.samples = pick
    c.distinct_nontrivial = len(nontrivial)
    X['distinct_states'] = len(states)
    X['scenarios_run'] = len(sel); X['scenarios_in_table'] = len(L.SCEN)
    X['scenario_table_curated'] = ['%s: %s' % (L.SCEN[i].name, L.SCEN[i].cmdline()) for i in sel if not L.SCEN[i].gen]
    X['scenarios_generated'] = sum(1 for i in sel if L.SCEN[i].gen)
    X['scenarios_schedule_dependent_fs'].sort()
    X['build_seconds'] = round(t_build, 1)
    X['kill_points_per_mode'] = {m: sum(max(base[(i, mm)]['n']) for i, mm in plan if mm == m) for m in ('fs', 'all') if any(mm == m for _, mm in plan)}
    c.extra.update(X)
    for (name, mode, kind), (k, n, text) in sorted(viol.items()):
        c.add_violation('%s %s k=%d (%d runs): %s' % (name, mode, k, n, text), 'c19-%s' % mode, dict(kind='cmd', cmd=replay_cmd(vc, name, mode, k)))
    c.assumptions = [
        'process kill only: power loss (un-synced page cache) is not modelled; kill granularity is the system call (a write() is atomic: executed fully or not at all)',
        'the AIO read/write pools always start two threads, even for small files; files < 384 KiB (3 x 128 KiB, NOT 300 KB as assumed in the design) are read and '
        'written by the main thread, so the fs-mode kill index is a replayable identifier there; in mode all, and for sources >= 384 KiB or -T2, the index depends on '
        'the schedule: every kill point is therefore run twice and coverage is "exhaustive in kill index, schedule as scheduled"',
        'library verdict = harness/c19_helper.c (ZSTD_decompressStream over all frames, windowLogMax 31); a zero-byte input has no frame and is counted as reject; '
        '.zst inputs are generated by the library (level 3, checksum), not by the CLI under test',
        'with -f only "new destination complete or source intact" is judged; -d -c -f pass-through is excluded from verdict comparison; stdout redirected to a file '
        'cannot be removed by zstd, so "no output left behind" is not demanded for -c',
        'read-only directory scenarios run the CLI as uid 65534 (vkill --uid) because root ignores directory permissions',
        'gzip/xz/lz4 support compiled out; x86-64 Linux, ext4 scratch directory',
    ]
    return c.finish()


def replay(argv):
    vc = _load_vc()
    sys.path.insert(0, os.path.join(vc.VERIF, 'checks'))
    import c19_lib as L
    name, mode, k = argv[0], argv[1], int(argv[2])
    L.init(vc, 'replay')
    import atexit; atexit.register(L.cleanup)
    sc = [s for s in L.scenarios() if s.name == name]
    if not sc:
        print('unknown scenario', name); return 2
    sc = sc[0]
    print('scenario %s: %s   (mode %s, kill point %d)%s' % (sc.name, sc.cmdline(), mode, k, ('   # ' + sc.note) if sc.note else ''))
    print('initial : ' + L.listing(sc.files))
    bad = 0
    for rep in range(1 if k == 0 else 4):
        r = L.execute(sc, mode, k, trace=(k == 0))
        if r['outcome'] == 'timeout':
            print('run %d: TIMEOUT' % rep); bad += 1; continue
        if r['outcome'] == 'exited':
            v, _ = L.completion_oracle(sc, r['state'], r['status'])
        else:
            v, _ = L.crash_oracle(sc, r['state'])
        print('run %d: %s status=%s -> %s' % (rep, r['outcome'], r['status'], L.listing(r['state'])))
        if r['cli_err'].strip():
            print('   stderr: ' + r['cli_err'].strip().replace('\n', '\n           '))
        if k == 0:
            for t in r['trace']:
                print('   #%d %s %s ret=%s' % (t['idx'], t['name'], t.get('path', 'fd=' + t.get('a0', '?')), t.get('ret')))
        for t in v:
            print('   VIOLATION: ' + t)
        bad += 1 if v else 0
    print('C19 replay: %s' % ('VIOLATES' if bad else 'ok'))
    return 1 if bad else 0


if __name__ == '__main__':
    if len(sys.argv) >= 5 and sys.argv[1] == '--replay':
        sys.exit(replay(sys.argv[2:]))
    print(__doc__); sys.exit(2)
