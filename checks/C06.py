"""C06 — capacity discipline and size bounds: full capacity sweeps on exact-size heap buffers."""
RULE = ('(1) 3 entry points (compress2, ZSTD_compress, one compressStream2(e_end) with stable output) x parameter vectors (9 strategies, <= D deviations, shared with C01) x input shapes '
        '(<= 450 bytes, same budget) x EVERY destination capacity 0..compressBound+8 (quick tier: every capacity within 48 of either end, every 4th in between): error or size <= capacity, only dstSize_tooSmall below the bound, success at and above the bound, every '
        'success round-trips; (1b) inputs over small low-valued alphabets (14 alphabet sizes x 8 lengths x 4 levels x skew x 2 entry points) x every capacity; (2) 4 adversarial contents x 24 sizes around block edges x vectors with maxBlockSize / targetCBlockSize deviations at capacity == compressBound; '
        '(3) every catalogue record x every capacity 0..content+8 for decoding, findFrameCompressedSize / decompressBound / getFrameContentSize / findDecompressedSize against the reference '
        'layout, in-place decoding with ZSTD_decompressionMargin; buffers are exact-size ASan allocations; distinct = distinct (first succeeding capacity, input) / frames; '
        'non-trivial = sweep with both refusals and successes')
SRC = ['harness/c06_capacity.c', 'ref/edu_decoder.c']


def run(vc, tier):
    c = vc.Check('C06', tier, 'exploration', RULE)
    q = tier == 'quick'
    c.run_vx_unit('c06-comp', SRC, 'asan', ['--mode', 'comp', '--D', 1 if q else 2, '--capstep', 8 if q else 1, '--segdev', 1 if q else 4], share=0.6)
    c.run_vx_unit('c06-alpha', SRC, 'asan', ['--mode', 'alpha', '--D', 0], share=0.4)
    c.run_vx_unit('c06-bound', SRC, 'asan', ['--mode', 'bound', '--D', 1 if q else 2], share=0.5)
    c.run_vx_unit('c06-decomp', SRC, 'asan', ['--mode', 'decomp', '--cat', vc.catalogue('quick'), '--stride', 2 if q else 1, '--D', 0], share=0.9)
    c.extra['capacities_tried'] = sum(r.stats.get('capacities_tried', 0) for _, r, _ in c.units)
    c.evaluations += c.extra['capacities_tried']
    c.assumptions = ['the bound claim for inputs > 40 KB rests on the per-block argument, not enumeration', 'compressSequences capacities are swept in C17']
    return c.finish()
