"""C11 — multithreaded compression under every schedule of the bound."""
RULE = ('drivers D1 (3 jobs, one e_end call), D2 (continue/flush/continue/end with 7-byte output), D3 (LDM + checksum, 6 jobs), D4 (overlapLog x prefix/CDict), '
        'D5 (level changed between jobs), D6 (frame abandoned after k calls by reset or free, then a new frame), D10 (abandoned, then a frame with more workers), D12 (flush carrying new input while every worker is busy), D14 (overlap as large as a job, half-size first job, one job of input per call: round-buffer re-use), D17 (slow consumer: 12 jobs offered with one byte of output room per call), D16 (LDM, 3-4 workers, 16 jobs fed two at a time), D15 (rsyncable, 256 KiB jobs, 2.5 MiB, end / flush with and without payload), D13 (level changed between 1 MiB jobs with the level-derived default window, repeats 700 000 bytes back), D9 (worker count changed between frames) run the real '
        'ZSTD_compressStream2 + zstdmt + pool code with 1 KiB jobs under the deterministic scheduler; every schedule with <= P preemptions and <= D deviations is executed; '
        'plus two seam harnesses that call the serial-section functions (jobs arriving in every order, with an error-path job skipping ahead) and its buffer / cctx pools directly from 2-5 threads under EVERY schedule (state cache, no bound); '
        'seam 2 (round input buffer): the real caller logic and pool with the block compression stubbed out, 10 configurations (workers x window x overlap, with and without LDM) x 4 feeding scripts x fast / slow consumer, 14 jobs, ghost stamps on every byte of the round buffer: no byte inside the LDM window at a serial step, and no byte of an unfinished job\'s prefix or source, has been overwritten (P<=1, D<=1 quick; P<=2, D<=2 thorough); oracles: terminates, frame decodes to the input (library + reference decoder, checksum), completed flush decodable, one output per subject; '
        'distinct = distinct (output, switch count); non-trivial = more than 4 thread switches')
SRC = ['harness/c11_mt.c', 'ref/edu_decoder.c']
ENG = ['engine/vsched.c']
TSAN = {'TSAN_OPTIONS': 'halt_on_error=1:report_signal_unsafe=0:die_after_fork=0:second_deadlock_stack=0'}


def run(vc, tier):
    c = vc.Check('C11', tier, 'model_checking', RULE)
    kw = dict(engine_srcs=ENG)
    plan = [(2, 2, 2), (3, 2, 2), (4, 1, 2), (5, 2, 2), (12, 2, 2), (14, 1, 1), (16, 1, 1), (17, 1, 1), (9, 1, 2), (10, 1, 1), (1, 2, 2), (6, 1, 1)] if tier == 'quick' else [(2, 2, 3), (3, 2, 3), (4, 2, 3), (5, 2, 3), (12, 2, 3), (14, 2, 2), (16, 1, 1), (17, 2, 2), (9, 2, 2), (10, 1, 2), (1, 3, 3), (6, 2, 2)]
    left = len(plan)
    for drv, P, D in plan:
        c.run_vx_unit('c11-d%d' % drv, SRC, 'sched-asan', ['--driver', drv, '--P', P, '--D', D, '--exec-timeout', 20000], share=1.0 / left, **kw)
        left -= 1
    # parameter change between jobs with the level-derived default window: 6 level pairs x 1-2 workers, 2.5 MiB input, default schedule only
    c.run_vx_unit('c11-d13', SRC, 'sched-asan', ['--driver', 13, '--P', 0, '--D', 0, '--exec-timeout', 120000], share=0.5, **kw)
    c.run_vx_unit('c11-d15', SRC, 'sched-asan', ['--driver', 15, '--P', 0, '--D', 0, '--exec-timeout', 60000], share=0.5, **kw)      # rsyncable with real synchronisation points
    # narrowest seams, no preemption bound (state cache): serial section ticket protocol, buffer / cctx pools
    for seam in (0, 1):
        c.run_vx_unit('c11-seam%d' % seam, ['harness/c11_seams.c', 'ref/edu_decoder.c'], 'sched-asan', ['--seam', seam, '--maxjobs', 3 if tier == 'quick' else 4, '--exec-timeout', 20000], engine_srcs=ENG, exclude=('zstdmt_compress.c',), share=0.5)
    # seam 2: round input buffer protocol (real ZSTD_compressStream2 + zstdmt caller logic + real pool, block compression stubbed out):
    # ghost stamps decide "the caller never overwrites a byte that the serial long-distance step or an unfinished job may still read"
    RING = ['harness/c11_ring.c', 'ref/edu_decoder.c']
    c.run_vx_unit('c11-seam2', RING, 'sched-asan', ['--P', 1 if tier == 'quick' else 2, '--D', 1 if tier == 'quick' else 2, '--exec-timeout', 60000], engine_srcs=ENG, exclude=('zstdmt_compress.c',), share=0.4)
    # data races: the same drivers and seams in the sched-tsan build.  ThreadSanitizer sees only the happens-before edges of the
    # modelled primitives (engine/vsched.c announces mutex release -> acquire; create / join are the real intercepted calls), so
    # two accesses ordered only by the cooperative schedule are reported, in every explored schedule.
    rplan = [(2, 1, 1), (3, 1, 1), (12, 1, 1), (14, 1, 1), (16, 1, 1), (6, 1, 1), (10, 1, 1), (9, 1, 1), (4, 1, 1), (5, 1, 1)] if tier == 'quick' else [(2, 2, 2), (3, 2, 2), (12, 2, 2), (14, 2, 2), (16, 2, 1), (6, 2, 2), (10, 1, 2), (9, 2, 2), (4, 2, 2), (5, 2, 2), (1, 2, 2)]
    left = len(rplan)
    for drv, P, D in rplan:
        c.run_vx_unit('c11-race-d%d' % drv, SRC, 'sched-tsan', ['--driver', drv, '--P', P, '--D', D, '--exec-timeout', 60000], share=0.7 / left, env=TSAN, **kw)
        left -= 1
    for seam in (0, 1):
        c.run_vx_unit('c11-race-seam%d' % seam, ['harness/c11_seams.c', 'ref/edu_decoder.c'], 'sched-tsan', ['--seam', seam, '--maxjobs', 3, '--exec-timeout', 60000], engine_srcs=ENG, exclude=('zstdmt_compress.c',), share=0.5, env=TSAN)
    c.run_vx_unit('c11-race-seam2', RING, 'sched-tsan', ['--P', 1, '--D', 1, '--cfgs', 3 if tier == 'quick' else 10, '--exec-timeout', 60000], engine_srcs=ENG, exclude=('zstdmt_compress.c',), share=0.9, env=TSAN)
    c.states = sum(r.done.get('executions', 0) for _, r, _ in c.units)
    c.transitions = sum(r.stats.get('sched_points', 0) for _, r, _ in c.units)
    c.extra['blocking_waits'] = sum(r.stats.get('blocking_waits', 0) for _, r, _ in c.units)
    c.extra['flush_points_checked'] = sum(r.stats.get('flush_points_checked', 0) for _, r, _ in c.units)
    c.extra['states_note'] = 'states = complete schedules executed (stateless exploration); transitions = scheduling points taken over all schedules'
    c.assumptions = ['sequential consistency between synchronisation points; x86-TSO and the pthread contract are assumed',
                     'ZSTDMT_JOBSIZE_MIN=1024 build (upstream compile-time knob) so that job-table and round-buffer wrap are reached with KB inputs',
                     'data races: decided by ThreadSanitizer inside every explored schedule of the sched-tsan units (happens-before from the modelled mutexes only); its shadow memory keeps 4 accesses per 8-byte cell and a bounded history, so a race between accesses very far apart in one schedule can be missed, never invented']
    return c.finish()
