"""C13 — allocation failure at every index of every scenario."""
RULE = ('24 API scenarios (compress2 at levels 1/5/19, streaming with a workspace resize, loadDictionary byCopy/byRef, refCDict plain/dedicated-search, refPrefix, LDM, multithreaded with '
        '1/2 workers, LDM, dictionary, prefix, worker-count resize, shared thread pool, decompressDCtx, streaming decode growing its buffers, DCtx loadDictionary / refDDict / 9 DDicts / '
        'refPrefix, POOL create+resize) x every allocation index k (thorough: every pair) refused by the ZSTD_customMem allocator; MT scenarios run the real threads on the '
        'scheduler\'s default schedule so k is well defined; distinct = distinct (scenario, k1, k2); non-trivial = at least one allocation was actually refused')


def run(vc, tier):
    c = vc.Check('C13', tier, 'fault_enumeration', RULE)
    src = ['harness/c13_alloc.c', 'ref/edu_decoder.c']
    kw = dict(engine_srcs=['engine/vsched.c'])
    c.run_vx_unit('c13-single', src, 'sched-asan', ['--pairs', 0, '--D', 0], share=0.5 if tier != 'quick' else 0.9, **kw)
    # the multithreaded scenarios again with the schedule explored: which worker reaches the refused allocation, and what the other
    # jobs have done by then (serial turn taken or not), is part of "at whichever point"
    pd = 1 if tier == 'quick' else 2
    c.run_vx_unit('c13-mtsched', src, 'sched-asan', ['--pairs', 0, '--mtonly', 1, '--explore', 1, '--P', pd, '--D', pd, '--exec-timeout', 30000], share=0.5 if tier != 'quick' else 0.9, **kw)
    # one more deviation (the preempted worker is overtaken by the other one) for the two-worker scenario; thorough: for all of them
    c.run_vx_unit('c13-mtsched-d2', src, 'sched-asan', ['--pairs', 0, '--mtonly', 1, '--explore', 1, '--P', 1, '--D', 2, '--exec-timeout', 30000] + (['--scen', 'mt-2workers'] if tier == 'quick' else []), share=0.5 if tier != 'quick' else 0.9, **kw)
    if tier != 'quick':
        c.run_vx_unit('c13-pairs', src, 'sched-asan', ['--pairs', 1, '--D', 0], share=0.9, **kw)
    c.extra['faults_injected'] = sum(r.stats.get('faults_injected', 0) for _, r, _ in c.units)
    c.extra['faults_reported_as_error'] = sum(r.stats.get('faults_reported_as_error', 0) for _, r, _ in c.units)
    c.extra['retries_succeeded'] = sum(r.stats.get('retries_succeeded', 0) for _, r, _ in c.units)
    c.assumptions = ['dictionary training (plain malloc, not ZSTD_customMem) is exercised by C18, not here',
                     'MT scenarios: every allocation index on the zero-deviation schedule; every (schedule, index) inside the preemption / deviation bound in c13-mtsched']
    return c.finish()
